#!/venv/bin/python
"""Translator: per live Term subclass (and the Join classes, Cte), which attributes can hold a column / table reference
(reflection on instances of every class: an attribute through which a Field or a Table is reachable in the object graph),
which attributes the class's replace_table rewrites, and which its nodes_() visits (ast of the methods, resolved over the MRO,
following super() calls).   ->  coq/Gen/Children.v

Consumed by Props/C16.v (replace_complete) and Props/C17.v (visit_complete): obligations by computation, so a class added later
that inherits the no-op replace_table / the leaf nodes_ while holding operands fails an obligation.

Fail-closed: a replace_table / nodes_ body using syntax outside the fragment (assignments `self.X = ...`, `newone.X = ...`,
`yield from self.X...`, loops over self.X, `super().m()`) makes the attribute sets UNKNOWN for that class, which fails the obligations.
"""
from __future__ import annotations

import ast
import inspect
import os
import sys
import textwrap

ROOT = os.path.dirname(os.path.dirname(os.path.abspath(__file__)))
sys.path.insert(0, os.path.join(ROOT, "harness"))
REPO = os.environ.get("VERIF_REPO", "/repo")
sys.path.insert(0, REPO)
from gen_tables import write_if_changed, Fail  # noqa: E402
from coqemit import cstr, clist, cbool  # noqa: E402

import pypika_tortoise as P  # noqa: E402
from pypika_tortoise import terms as T, queries as Q  # noqa: E402
import termzoo  # noqa: E402


def reaches_ref(v, seen=None, depth=0):
    """can a Field or Table be reached from value v (object-graph walk, not nodes_)"""
    seen = seen if seen is not None else set()
    if id(v) in seen or depth > 12:
        return False
    seen.add(id(v))
    if isinstance(v, (T.Field, Q.Table)):
        return True
    if isinstance(v, (list, tuple, set, frozenset)):
        return any(reaches_ref(x, seen, depth + 1) for x in v)
    if isinstance(v, dict):
        return any(reaches_ref(x, seen, depth + 1) for x in v.values())
    if isinstance(v, (T.Node, Q.Join, Q.Selectable)) and hasattr(v, "__dict__"):
        return any(reaches_ref(x, seen, depth + 1) for k, x in v.__dict__.items())
    return False


def child_attrs(obj):
    out = set()
    for k, v in getattr(obj, "__dict__", {}).items():
        if reaches_ref(v):
            out.add(k)
    return out


def method_ast(fn):
    src = textwrap.dedent(inspect.getsource(fn))
    return ast.parse(src).body[0]


def receiver_names(fnode):
    """the local names that hold the receiver or the copy being built: self, and every name bound to copy(self) / self / super().<m>(..) /
    <receiver>.<m>(..) of the same method (a builder-decorated method works on the copy it is handed as self; an un-decorated override works on
    what super() returned, whatever the local is called)"""
    names = {"self"}
    changed = True
    while changed:
        changed = False
        for n in ast.walk(fnode):
            if isinstance(n, ast.Assign) and len(n.targets) == 1 and isinstance(n.targets[0], ast.Name) and n.targets[0].id not in names:
                v = n.value
                ok = isinstance(v, ast.Name) and v.id in names
                if isinstance(v, ast.Call):
                    f = v.func
                    if isinstance(f, ast.Name) and f.id in ("copy", "_shallow_copy") and v.args and isinstance(v.args[0], ast.Name) and v.args[0].id in names:
                        ok = True
                    if isinstance(f, ast.Attribute) and f.attr == "copy" and v.args and isinstance(v.args[0], ast.Name) and v.args[0].id in names:
                        ok = True
                    if isinstance(f, ast.Attribute) and isinstance(f.value, ast.Call) and isinstance(f.value.func, ast.Name) and f.value.func.id == "super":
                        ok = True
                if ok:
                    names.add(n.targets[0].id)
                    changed = True
    return names


def helper_calls(fnode):
    """names h of methods called as <receiver>.h(...) in the body"""
    names = receiver_names(fnode)
    return {n.func.attr for n in ast.walk(fnode) if isinstance(n, ast.Call) and isinstance(n.func, ast.Attribute)
            and isinstance(n.func.value, ast.Name) and n.func.value.id in names}


def self_attrs_assigned(fnode, names=None):
    """attributes X in `<receiver>.X = ...` (incl. augmented and tuple targets) and in-place edits of <receiver>.X"""
    names = receiver_names(fnode) if names is None else names
    out = set()
    for n in ast.walk(fnode):
        targets = []
        if isinstance(n, ast.Assign):
            targets = n.targets
        elif isinstance(n, (ast.AugAssign, ast.AnnAssign)):
            targets = [n.target]
        for t in targets:
            for e in ([t] if not isinstance(t, (ast.Tuple, ast.List)) else t.elts):
                if isinstance(e, ast.Attribute) and isinstance(e.value, ast.Name) and e.value.id in names:
                    out.add(e.attr)
        if isinstance(n, ast.Call) and isinstance(n.func, ast.Attribute) and n.func.attr in ("remove", "add", "append", "extend") \
                and isinstance(n.func.value, ast.Attribute) and isinstance(n.func.value.value, ast.Name) and n.func.value.value.id in names:
            out.add(n.func.value.attr)
    return out


def self_attrs_read(fnode):
    out = set()
    for n in ast.walk(fnode):
        if isinstance(n, ast.Attribute) and isinstance(n.value, ast.Name) and n.value.id == "self":
            out.add(n.attr)
    return out


def calls_super(fnode, mname):
    for n in ast.walk(fnode):
        if isinstance(n, ast.Call) and isinstance(n.func, ast.Attribute) and n.func.attr == mname and isinstance(n.func.value, ast.Call) \
                and isinstance(n.func.value.func, ast.Name) and n.func.value.func.id == "super":
            return True
    return False


def resolve(cls, mname, collect, _seen=None):
    """attributes touched by cls.mname, following super() calls up the MRO and private helper methods called on the receiver"""
    out = set()
    _seen = set() if _seen is None else _seen
    if mname in _seen:
        return out
    _seen.add(mname)
    mro = [c for c in cls.__mro__ if mname in c.__dict__]
    for i, c in enumerate(mro):
        fn = c.__dict__[mname]
        fn = getattr(fn, "__wrapped__", fn)
        # utils.builder wraps the method in a closure `_copy(self, *args, **kwargs)` whose free variable `func` is the method
        if getattr(fn, "__name__", "") == "_copy" and getattr(fn, "__closure__", None):
            for cell in fn.__closure__:
                if inspect.isfunction(cell.cell_contents):
                    fn = cell.cell_contents
        if isinstance(fn, (staticmethod, classmethod, property)):
            fn = fn.__func__ if not isinstance(fn, property) else fn.fget
        try:
            node = method_ast(fn)
        except (OSError, TypeError, SyntaxError):
            return None
        out |= collect(node)
        # a method split into private helpers: what the helpers touch on the receiver counts as touched by the method
        for h in sorted(helper_calls(node)):
            if h != mname and h.startswith("_") and not h.startswith("__") and inspect.isfunction(inspect.getattr_static(cls, h, None)):
                sub = resolve(cls, h, collect, _seen)
                if sub is None:
                    return None
                out |= sub
        if not calls_super(node, mname):
            break
    return out


# attributes that keep a raw copy of constructor arguments and are never rendered while they hold a term
RAW_COPIES = {"Array": {"original_value"}}


def main():
    t = P.Table("t")
    zoo, missing = termzoo.zoo(t)
    u = P.Table("u")
    extra = [(Q.JoinOn, P.Query.from_(t).join(u).on(t.a == u.a)._joins[0]), (Q.JoinUsing, P.Query.from_(t).join(u).using("a")._joins[0]),
             (Q.Join, P.Query.from_(t).join(u).cross()._joins[0]), (Q.Cte, Q.Cte("c", P.Query.from_(t).select(t.a)))]
    # richer statement instances so that every clause slot of a builder is populated
    from pypika_tortoise.dialects import PostgreSQLQuery, MySQLQuery, SQLLiteQuery, MSSQLQuery, OracleQuery
    from pypika_tortoise import functions as fn

    def rich(qc):
        q = (qc.with_(qc.from_(t).select(t.a), "c").from_(t).join(u).on(t.a == u.a).select(t.a, fn.Sum(t.b)).where(t.c == 1).groupby(t.a)
             .having(fn.Sum(t.b) > 1).orderby(t.a).limit(1).offset(2).force_index("i").use_index("j"))
        out = [q, qc.update(t).set(t.a, t.b).where(t.c == 1), qc.into(t).columns(t.a).insert(t.b)]
        if qc in (P.Query, PostgreSQLQuery, SQLLiteQuery):
            out.append(qc.into(t).columns("a").insert(1).on_conflict(t.a).do_update(t.b, t.c).where(t.d == 1))
        if qc is PostgreSQLQuery:
            out.append(qc.from_(t).select(t.a).distinct_on(t.b))
            out.append(qc.update(t).set(t.a, 1).returning(t.b))
        if qc is SQLLiteQuery or qc is P.Query:
            out.append(qc.from_(t).select(t.a).prewhere(t.b == 1))
        return out
    for qc in (P.Query, PostgreSQLQuery, MySQLQuery, SQLLiteQuery, MSSQLQuery, OracleQuery):
        for q in rich(qc):
            zoo.append((type(q), q))
    by_cls = {}
    for cls, x in list(zoo) + extra:
        by_cls.setdefault(cls, set()).update(child_attrs(x))
    rows = []
    for cls in sorted(by_cls, key=lambda c: (c.__module__, c.__name__)):
        kids = sorted(by_cls[cls] - RAW_COPIES.get(cls.__name__, set()))
        rep = resolve(cls, "replace_table", self_attrs_assigned)
        # a builder-decorated replace_table copies the receiver first; the PostgreSQL override works on `newone`
        vis = resolve(cls, "nodes_", self_attrs_read) if hasattr(cls, "nodes_") else set()
        selectable = issubclass(cls, Q.Selectable) and not issubclass(cls, T.Term)
        rows.append((cls.__module__.split(".")[-1] + "." + cls.__name__, kids, rep, vis, issubclass(cls, (Q.QueryBuilder, Q._SetOperation, Q.Join, Q.Cte))))
    lines = ["(* GENERATED by tools/gen_children.py from %s — do not edit; regenerated on every check *)" % REPO,
             "From PT Require Import Base.Str.", "Open Scope N_scope.", "",
             "(* class, attributes through which a column/table reference is reachable, attributes replace_table rewrites (None = could not be",
             "   determined), attributes nodes_() visits (None = could not be determined), is a statement (sub-queries keep their own fields: nodes_ of a",
             "   statement deliberately stops at the statement) *)",
             "Definition children : list (str * list str * option (list str) * option (list str) * bool) := ["]
    ents = []
    for name, kids, rep, vis, stmt in rows:
        ents.append("  (%s, %s, %s, %s, %s)" % (cstr(name), clist(kids, cstr), "None" if rep is None else "(Some %s)" % clist(sorted(rep), cstr),
                                               "None" if vis is None else "(Some %s)" % clist(sorted(vis), cstr), cbool(stmt)))
    lines.append(";\n".join(ents))
    lines.append("].")
    lines.append("Definition not_constructible : list str := %s." % clist(sorted(missing), cstr))
    write_if_changed(os.path.join(ROOT, "coq", "Gen", "Children.v"), "\n".join(lines) + "\n")
    print("Children.v: %d classes" % len(rows))


def attr_reads(fnode):
    """attribute names read off `self` / `other` in a method body, and the names of methods called on self"""
    attrs, calls = set(), set()
    for n in ast.walk(fnode):
        if isinstance(n, ast.Attribute) and isinstance(n.value, ast.Name) and n.value.id in ("self", "other"):
            attrs.add(n.attr)
        if isinstance(n, ast.Call):
            f = n.func
            if isinstance(f, ast.Attribute) and isinstance(f.value, ast.Name) and f.value.id == "self":
                calls.add(f.attr)
            if isinstance(f, ast.Name) and f.id in ("str", "repr") and n.args and isinstance(n.args[0], ast.Name) and n.args[0].id == "self":
                calls.add("__str__")
    return attrs, calls


def eqhash():
    """for the classes with their own __eq__/__hash__ pair: the attributes each one reads.  A __hash__ that renders the object
    (str(self), get_sql) or calls another method reads 'everything the renderer reads': recorded as the pseudo attribute <render> / <call:m>."""
    rows = []
    for cls in (Q.Table, Q.Schema, Q.AliasedQuery, Q.QueryBuilder, T.Field):
        ent = {}
        for m in ("__eq__", "__hash__"):
            owner = next((c for c in cls.__mro__ if m in c.__dict__), None)
            if owner is None or owner is object or c_is_none(owner.__dict__[m]):
                ent[m] = None
                continue
            node = method_ast(owner.__dict__[m])
            attrs, calls = attr_reads(node)
            attrs -= calls
            for c in sorted(calls):
                attrs.add("<call:%s>" % c)
            ent[m] = sorted(attrs)
        rows.append((cls.__name__, ent["__eq__"], ent["__hash__"]))
    lines = ["(* GENERATED by tools/gen_children.py (eqhash part) from %s — do not edit *)" % REPO, "From PT Require Import Base.Str.", "Open Scope N_scope.", "",
             "(* class, attributes __eq__ reads (None: inherited from object / not defined), attributes __hash__ reads *)",
             "Definition eqhash : list (str * option (list str) * option (list str)) := ["]
    lines.append(";\n".join("  (%s, %s, %s)" % (cstr(n), "None" if e is None else "(Some %s)" % clist(e, cstr), "None" if h is None else "(Some %s)" % clist(h, cstr))
                             for n, e, h in rows))
    lines.append("].")
    write_if_changed(os.path.join(ROOT, "coq", "Gen", "EqHash.v"), "\n".join(lines) + "\n")


def c_is_none(f):
    return f is None


if __name__ == "__main__":
    try:
        main()
        eqhash()
    except Fail as e:
        print("TRANSLATION-FAILED gen_children:", e)
        sys.exit(1)

#!/bin/bash
# confirm_seed.sh <dir with patch.diff demo.py> : confirms in a scratch worktree that the change applies to /repo HEAD,
# keeps the suite green, makes the demo fail, and that the demo passes without it.  Prints one line.
D="$1"; W=/tmp/confirm_$$
git -C /repo worktree add --detach $W HEAD >/dev/null 2>&1 || { echo "$D: worktree failed"; exit 2; }
cd $W
if ! git apply "$D/patch.diff" 2>/dev/null; then echo "$D: APPLY-FAILED"; cd /; git -C /repo worktree remove --force $W; exit 3; fi
T=$(PYTHONPATH=$W /venv/bin/python -m pytest -q -p no:cacheprovider -x --timeout=900 2>&1 | tail -1)
PYTHONPATH=$W /venv/bin/python "$D/demo.py" >/dev/null 2>&1; R1=$?
git checkout -q -- . ; git reset -q --hard HEAD
PYTHONPATH=$W /venv/bin/python "$D/demo.py" >/dev/null 2>&1; R0=$?
cd /; git -C /repo worktree remove --force $W
echo "$D: tests=[$T] demo_with_change_rc=$R1 demo_clean_rc=$R0"

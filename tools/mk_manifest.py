#!/venv/bin/python
"""Writes /verif/MANIFEST.json from the table below (kept in one place so it stays valid)."""
import json, os
ROOT = os.path.dirname(os.path.dirname(os.path.abspath(__file__)))
props = [json.loads(l) for l in open(os.path.join(ROOT, "properties.jsonl"))]
NOTE_COMMON = ("trusted: Coq 8.16.1 kernel (+ vm_compute); the translators tools/gen_*.py (fail-closed); the correspondence harness "
               "(generator, interpreter over the public API, dumper/printer to Gallina, reader of coqc output); Ref/* as the formal reading of the property; ")
CLAIMS = {
 "C01": dict(cat="proof", tech="Coq proof (frame theorem over an object heap) + effect summaries regenerated from the source by an ast translator + branching differential run",
   text="Coq: every @builder method of every class, resolved over the MRO, passes a frame check computed on effect summaries that are regenerated from /repo on every run (attribute stores, in-place container mutations, helper calls inlined, copy rules, none-guards); a generic theorem over an abstract object heap shows that an accepted call writes only fresh cells or the None alias of an argument, lifted to arbitrary call histories. The translator is audited dynamically: every @builder method x canned non-empty receivers x the pattern a=r.m(x); b=r.m(y); c=a.m(z), plus random branching histories, observing every live object in 6 contexts x {inline, parameterised} + metadata.",
   note="CPython attribute stores / list mutation behave as the may-write IR; the ast translator names every mutation form (fail-closed on forms it cannot name); copy.copy semantics", ref="DESIGN.md 5 C01"),
 "C02": dict(cat="proof", tech="Coq proof (render frame, determinism of the render model) + regenerated effect summaries + render-history correspondence; threads and hash seeds exercised (partial)",
   text="Coq: no render-like method of any class (get_sql family, __str__/__hash__/__eq__, fields_/tables_/nodes_, ...) stores or mutates anything reachable from the object or its arguments except through the caller's parameterizer, and none iterates a set-valued attribute (computed on the regenerated summaries); the render model is a function. Tie: each generated object is rendered 3x in each of 6 contexts x 2 modes in a shuffled interleaving with hash/==/str in between, object-graph digests compared, the final values compared with the Coq model. PARTIAL for thread schedules and separate processes: exercised by an 8-thread pool and by subprocesses under 4-8 PYTHONHASHSEED values, not modelled.",
   note="thread scheduling and a second interpreter process cannot be exhibited by an executable Gallina model; they are search only", ref="DESIGN.md 5 C02"),
 "C15": dict(cat="proof", tech="Coq proof (decoupling from the C01 frame theorem; guard table for dynamic attribute lookup by computation) + copy/deepcopy/pickle differential run (partial)",
   text="Coq: every class with __getattr__ wraps it in ignore_copy and ignore_copy refuses all special names that copy/pickle probe on instances (computed on the regenerated summary); a duplicate is a pre-existing object for every later accepted builder call, so it can never be written (frame theorem). PARTIAL: that deepcopy/pickle rebuild an isomorphic graph is CPython machinery, exercised on ~100 object kinds x 3 mechanisms with builder calls on both sides afterwards.",
   note="copy.deepcopy / pickle internals; probe_names is a trusted table for Python 3.9-3.12", ref="DESIGN.md 5 C15"),
 "C18": dict(cat="proof", tech="Coq proof (case analysis on first/last non-zero field + induction over field lists) + regenerated tables + differential correspondence",
   text="Coq theorem over ALL integer argument tuples, quarters, weeks and all nine dialect templates: the literal printed by the model of Interval.__init__/get_sql (including an executable semantics of re.sub for the pinned trim pattern) is read back by the reference reader as exactly the supplied components with their sign, and every component keeps its slot. Tie: labels/templates/pattern regenerated from /repo; model = implementation and model trim = re.sub checked on exhaustive small tuples, random digit patterns and all short strings.",
   note="CPython re.sub behaves as Model.Interval.trim (checked on generated strings every run); str(int) is decimal", ref="DESIGN.md 5 C18"),
}
m = {"version": 1, "setup_cmd": "cd /verif && ./check --setup",
     "hooks": {"guard": "PYPIKA_TORTOISE_VERIF", "enable": "no source hooks are needed: everything is observed through the public API, __dict__ and ast; ./check exports the variable for completeness",
               "baseline_off_cmd": "cd /repo && /venv/bin/python -m pytest -ra -q -p no:cacheprovider --timeout=900 --continue-on-collection-errors",
               "source_commits": [], "add_only": True},
     "engines": [{"name": "coq-model", "path": "/verif/coq", "serves_properties": sorted(CLAIMS),
                  "kind_free_text": "Coq 8.16.1 development: Base/ Model/ (executable models) Ref/ (specification side) Gen/ (regenerated from /repo on every run) Proofs/ Props/ ; driven by ./check (harness/)"}],
     "checks": [], "notes": "see DESIGN.md; genuine defects repaired by fix: commits in /repo and the remaining ones are listed in known_findings.json",
     "not_applicable": []}
for p in props:
    i = p["id"]
    if i in CLAIMS:
        c = CLAIMS[i]
        m["checks"].append({"property_id": i, "quick_cmd": "./check %s --tier quick" % i, "thorough_cmd": "./check %s --tier thorough" % i,
                            "evidence_file": "/verif/evidence/%s.json" % i, "replay_cmd_template": "./check %s --replay {path}" % i, "engine": "coq-model",
                            "level_claimed": {"category": c["cat"], "text": c["text"], "design_ref": c["ref"]},
                            "level_note": NOTE_COMMON + c["note"], "technique": c["tech"]})
    else:
        m["not_applicable"].append({"property_id": i, "reason": "check not built yet in this session (work in progress, see DESIGN.md section 9) - not a claim that the technique cannot apply"})
json.dump(m, open(os.path.join(ROOT, "MANIFEST.json"), "w"), indent=1)
print("claimed:", sorted(CLAIMS))

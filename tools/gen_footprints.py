#!/venv/bin/python
"""Translator: read / write footprints of every @builder method of the statement builders (attributes of `self` the method - and the
`self.helper()` methods it calls, transitively, resolved over the MRO - reads resp. assigns or mutates in place).  -> coq/Gen/Footprints.v

Consumed by Props/C13.v: two builder calls whose footprints do not interfere commute (generic frame theorem + computed table).
May-analysis: every `self.X` load is a read, every `self.X = ..`, `self.X += ..`, `self.X.append/extend/add/remove/..(..)`, `self.X[..] = ..` a write;
a call `self.m(..)` to a method that cannot be resolved, a `setattr`, or `self.__dict__` makes the footprint UNKNOWN (conflicts with everything).
"""
from __future__ import annotations

import ast
import inspect
import os
import sys
import textwrap

ROOT = os.path.dirname(os.path.dirname(os.path.abspath(__file__)))
sys.path.insert(0, os.path.join(ROOT, "harness"))
REPO = os.environ.get("VERIF_REPO", "/repo")
sys.path.insert(0, REPO)
from gen_tables import write_if_changed  # noqa: E402
from coqemit import cstr, clist, cbool  # noqa: E402

from pypika_tortoise import queries as Q  # noqa: E402
from pypika_tortoise.dialects.mysql import MySQLQueryBuilder  # noqa: E402
from pypika_tortoise.dialects.postgresql import PostgreSQLQueryBuilder  # noqa: E402
from pypika_tortoise.dialects.sqlite import SQLLiteQueryBuilder  # noqa: E402
from pypika_tortoise.dialects.mssql import MSSQLQueryBuilder  # noqa: E402
from pypika_tortoise.dialects.oracle import OracleQueryBuilder  # noqa: E402

MUTATORS = {"append", "extend", "add", "remove", "update", "insert", "pop", "clear", "sort", "reverse", "discard", "setdefault", "popitem"}
CLASSES = [Q.QueryBuilder, MySQLQueryBuilder, PostgreSQLQueryBuilder, SQLLiteQueryBuilder, MSSQLQueryBuilder, OracleQueryBuilder, Q._SetOperation]


def unwrap(fn):
    is_builder = False
    if getattr(fn, "__name__", "") == "_copy" and getattr(fn, "__closure__", None):
        for cell in fn.__closure__:
            if inspect.isfunction(cell.cell_contents):
                fn = cell.cell_contents
                is_builder = True
    return fn, is_builder


def method_node(fn):
    return ast.parse(textwrap.dedent(inspect.getsource(fn))).body[0]


def analyse(cls, mname, seen):
    """(reads, writes, unknown) of cls.mname incl. helpers"""
    if mname in seen:
        return set(), set(), False
    seen = seen | {mname}
    owner = next((c for c in cls.__mro__ if mname in c.__dict__), None)
    if owner is None or owner is object:
        return set(), set(), True
    fn = owner.__dict__[mname]
    if isinstance(fn, (staticmethod, classmethod)):
        fn = fn.__func__
    if isinstance(fn, property):
        fn = fn.fget
    fn, _ = unwrap(fn)
    try:
        node = method_node(fn)
    except (OSError, TypeError, SyntaxError):
        return set(), set(), True
    reads, writes, unknown = set(), set(), False
    for n in ast.walk(node):
        if isinstance(n, ast.Attribute) and isinstance(n.value, ast.Name) and n.value.id == "self":
            if isinstance(n.ctx, ast.Store):
                writes.add(n.attr)
            elif isinstance(n.ctx, ast.Del):
                writes.add(n.attr)
            else:
                reads.add(n.attr)
        if isinstance(n, ast.AugAssign) and isinstance(n.target, ast.Attribute) and isinstance(n.target.value, ast.Name) and n.target.value.id == "self":
            writes.add(n.target.attr)
            reads.add(n.target.attr)
        if isinstance(n, (ast.Assign, ast.AugAssign)):
            for t in (n.targets if isinstance(n, ast.Assign) else [n.target]):
                if isinstance(t, ast.Subscript):
                    b = t.value
                    while isinstance(b, ast.Subscript):
                        b = b.value
                    if isinstance(b, ast.Attribute) and isinstance(b.value, ast.Name) and b.value.id == "self":
                        writes.add(b.attr)
        if isinstance(n, ast.Call):
            f = n.func
            if isinstance(f, ast.Attribute) and f.attr in MUTATORS:
                b = f.value
                while isinstance(b, ast.Subscript):
                    b = b.value
                if isinstance(b, ast.Attribute) and isinstance(b.value, ast.Name) and b.value.id == "self":
                    writes.add(b.attr)
            if isinstance(f, ast.Attribute) and isinstance(f.value, ast.Name) and f.value.id == "self":
                callee = f.attr
                if any(callee in c.__dict__ for c in cls.__mro__ if c is not object):
                    r, w, u = analyse(cls, callee, seen)
                    reads |= r
                    writes |= w
                    unknown |= u
                    reads.discard(callee)
            if isinstance(f, ast.Name) and f.id in ("setattr", "delattr"):
                unknown = True
        if isinstance(n, ast.Attribute) and n.attr == "__dict__":
            unknown = True
    # names of methods are not state
    meths = {k for c in cls.__mro__ for k, v in c.__dict__.items() if callable(v) or isinstance(v, (staticmethod, classmethod, property))}
    return reads - meths, writes - meths, unknown


def main():
    rows = []
    for cls in CLASSES:
        names = sorted({k for c in cls.__mro__ for k, v in c.__dict__.items() if unwrap(v)[1]})
        for m in names:
            r, w, u = analyse(cls, m, frozenset())
            rows.append((cls.__name__, m, sorted(r), sorted(w), u))
        if hasattr(cls, "do_join"):
            # join(..).on(..) / using / cross go through Joiner, which calls do_join on the (already copied) builder
            r, w, u = analyse(cls, "do_join", frozenset())
            r2, w2, u2 = analyse(cls, "join", frozenset())
            rows.append((cls.__name__, "join+on", sorted(r | r2), sorted(w | w2), u or u2))
    lines = ["(* GENERATED by tools/gen_footprints.py from %s — do not edit; regenerated on every check *)" % REPO, "From PT Require Import Base.Str.", "Open Scope N_scope.", "",
             "(* class, builder method, attributes read, attributes written (assigned or mutated in place), footprint unknown *)",
             "Definition footprints : list (str * str * list str * list str * bool) := ["]
    lines.append(";\n".join("  (%s, %s, %s, %s, %s)" % (cstr(c), cstr(m), clist(r, cstr), clist(w, cstr), cbool(u)) for c, m, r, w, u in rows))
    lines.append("].")
    write_if_changed(os.path.join(ROOT, "coq", "Gen", "Footprints.v"), "\n".join(lines) + "\n")
    # a JSON copy for the harness (the dynamic sweep audits the table)
    import json
    with open(os.path.join(ROOT, "coq", "Gen", "footprints.json"), "w") as f:
        json.dump([{"class": c, "method": m, "reads": r, "writes": w, "unknown": u} for c, m, r, w, u in rows], f, indent=0)
    print("Footprints.v: %d builder methods" % len(rows))


if __name__ == "__main__":
    main()

#!/venv/bin/python
"""Translator (ast part): may-write effect summaries of every method of every class of the package
-> coq/Gen/Effects.v.   Serves C01 (builder calls), C02 (render purity), C15 (copy protocol).

For each class: its bases (package classes only), the attributes its __init__ chain binds to a
container, the attributes its __copy__ re-copies (None = default shallow copy.copy), the names that
its __getattr__/__getitem__ answers dynamically and whether that lookup is wrapped by ignore_copy.
For each method: whether it is @builder, and its own effects:

  Store  root path attr guard   -- <root>.<path>.<attr> = ...      (attribute store / aug-assign that rebinds)
  Mutate root path              -- in-place mutation of the object held at <root>.<path>
                                    (list/set/dict method, subscript store, del, += on a container)
  CallSelf name                 -- self.<name>(...)  (effects inlined by Coq over the MRO)
  CallOn root path name         -- <root>.<path>.<name>(...) on another object, name defined in the package
  root = Self | Arg <param> | Local   (locals bound to fresh objects are dropped; locals aliasing a
                                        path are replaced by that path)
Fail-closed: syntax that stores through something the analysis cannot name (setattr, __dict__,
starred targets, global/nonlocal) makes the tool exit non-zero.
"""
from __future__ import annotations

import ast
import importlib
import inspect
import os
import pkgutil
import sys
import textwrap

ROOT = os.path.dirname(os.path.dirname(os.path.abspath(__file__)))
sys.path.insert(0, os.path.join(ROOT, "harness"))
sys.path.insert(0, os.path.dirname(os.path.abspath(__file__)))
REPO = os.environ.get("VERIF_REPO", "/repo")
sys.path.insert(0, REPO)
from gen_tables import write_if_changed, HEADER, Fail, need  # noqa
from coqemit import cstr, cbool, clist  # noqa

MUTATORS = {"append", "extend", "add", "remove", "update", "insert", "pop", "clear", "sort", "reverse", "discard",
            "setdefault", "popitem", "appendleft", "extendleft", "__setitem__", "__delitem__"}
FRESH_CALLS = {"list", "dict", "set", "tuple", "copy", "sorted", "reversed", "frozenset", "deepcopy"}


def classes():
    import pypika_tortoise as P
    out = []
    for m in pkgutil.walk_packages(P.__path__, "pypika_tortoise."):
        mod = importlib.import_module(m.name)
        for _, c in inspect.getmembers(mod, inspect.isclass):
            if c.__module__.startswith("pypika_tortoise") and c not in out:
                out.append(c)
    return sorted(out, key=lambda c: (c.__module__, c.__qualname__))


def cname(c):
    return c.__qualname__.replace(".", "_")


class FnAnalysis(ast.NodeVisitor):
    def __init__(self, params, pkg_methods, globs=None):
        self.globs = globs or {}      # module globals of the function: process-wide state (caches, module-level containers)
        self.params = params          # parameter names (first is self)
        self.selfname = params[0] if params else None
        self.pkg_methods = pkg_methods
        self.effects = []
        self.depth = 0                # > 0 inside if/for/while/try/with bodies
        self.locals = {}              # local name -> ('fresh',) | (root, path)
        self.none_guards = []         # stack of (root,path,attr) known None in the current branch

    # ---- access paths
    def path_of(self, e):
        """('Self'|'Arg:x', [attr,...]) or None (fresh / unknown local)."""
        if isinstance(e, ast.Name):
            if e.id == self.selfname:
                return ("Self", [])
            if e.id in self.locals:
                v = self.locals[e.id]
                return None if v == ("fresh",) else (v[0], list(v[1]))
            if e.id in self.params:
                return ("Arg:" + e.id, [])
            if isinstance(self.globs.get(e.id), (dict, list, set)):
                return ("Arg:<module-level %s>" % e.id, [])       # process-wide mutable state
            return None
        if isinstance(e, ast.Attribute):
            p = self.path_of(e.value)
            return None if p is None else (p[0], p[1] + [e.attr])
        if isinstance(e, ast.Subscript):
            p = self.path_of(e.value)
            return None if p is None else (p[0], p[1] + ["[]"])
        if isinstance(e, ast.Call) and isinstance(e.func, ast.Name) and e.func.id == "cast" and len(e.args) == 2:
            return self.path_of(e.args[1])
        if isinstance(e, ast.Call) and isinstance(e.func, ast.Name) and hasattr(self.globs.get(e.func.id), "cache_info"):
            return ("Arg:<cached %s()>" % e.func.id, [])          # the result of a memoised function is shared process-wide
        return None

    def is_fresh_container(self, e):
        if isinstance(e, (ast.List, ast.Dict, ast.Set, ast.ListComp, ast.DictComp, ast.SetComp)):
            return True
        return isinstance(e, ast.Call) and isinstance(e.func, ast.Name) and e.func.id in ("list", "dict", "set", "copy")

    def is_fresh(self, e):
        if isinstance(e, (ast.List, ast.Dict, ast.Set, ast.Tuple, ast.ListComp, ast.DictComp, ast.SetComp, ast.GeneratorExp,
                          ast.Constant, ast.JoinedStr, ast.BinOp, ast.Compare, ast.BoolOp, ast.UnaryOp, ast.IfExp, ast.Lambda)):
            return True
        if isinstance(e, ast.Call):
            return True     # a call result is a new value or an existing object; stores of it are judged at the store
        return False

    # ---- statements
    def store_target(self, tgt, aug=False, value=None):
        if isinstance(tgt, ast.Name):
            if value is not None and not aug:
                p = self.path_of(value)
                self.locals[tgt.id] = ("fresh",) if p is None else (p[0], tuple(p[1]))
            elif tgt.id not in self.locals and tgt.id in self.params:
                pass   # rebinding a parameter name locally
            return
        if isinstance(tgt, (ast.Tuple, ast.List)):
            for el in tgt.elts:
                need(not isinstance(el, ast.Starred), "starred assignment target")
                self.store_target(el, aug, None)
                if isinstance(el, ast.Name):
                    self.locals[el.id] = ("fresh",)
            return
        if isinstance(tgt, ast.Attribute):
            p = self.path_of(tgt.value)
            if p is None:
                return            # attribute of a fresh local object
            guard = (p[0], tuple(p[1]), tgt.attr) in self.none_guards
            fresh = (not aug) and self.depth == 0 and value is not None and self.is_fresh_container(value)
            self.effects.append(("Store", p[0], p[1], tgt.attr, guard, fresh))
            if aug:
                # x.a += e : in-place when x.a is a container (decided in Coq from the attribute kinds)
                self.effects.append(("AugMutate", p[0], p[1] + [tgt.attr]))
            return
        if isinstance(tgt, ast.Subscript):
            p = self.path_of(tgt.value)
            if p is not None:
                self.effects.append(("Mutate", p[0], p[1]))
            return
        raise Fail("assignment target outside the fragment: " + ast.dump(tgt)[:80])

    def visit_Assign(self, n):
        self.visit(n.value)
        for t in n.targets:
            self.store_target(t, False, n.value)

    def visit_AnnAssign(self, n):
        if n.value is not None:
            self.visit(n.value)
            self.store_target(n.target, False, n.value)

    def visit_AugAssign(self, n):
        self.visit(n.value)
        self.store_target(n.target, True, None)

    def visit_NamedExpr(self, n):
        self.visit(n.value)
        self.store_target(n.target, False, n.value)

    def visit_Delete(self, n):
        for t in n.targets:
            if isinstance(t, ast.Subscript):
                p = self.path_of(t.value)
                if p is not None:
                    self.effects.append(("Mutate", p[0], p[1]))
            elif isinstance(t, ast.Attribute):
                p = self.path_of(t.value)
                if p is not None:
                    self.effects.append(("Store", p[0], p[1], t.attr, False, False))
            else:
                need(isinstance(t, ast.Name), "del target")

    def visit_Global(self, n):
        raise Fail("global statement")

    def visit_Nonlocal(self, n):
        raise Fail("nonlocal statement")

    def visit_While(self, n):
        self.visit(n.test)
        self.depth += 1
        for s in n.body + n.orelse:
            self.visit(s)
        self.depth -= 1

    def visit_Try(self, n):
        self.depth += 1
        self.generic_visit(n)
        self.depth -= 1

    def visit_With(self, n):
        self.depth += 1
        self.generic_visit(n)
        self.depth -= 1

    def visit_comprehension(self, n):
        self.visit(n.iter)
        p = self.path_of(n.iter)
        if p is not None:
            self.effects.append(("Iter", p[0], p[1]))
        if isinstance(n.target, ast.Name):
            self.locals[n.target.id] = ("fresh",) if p is None else (p[0], tuple(p[1] + ["[]"]))
        for c in n.ifs:
            self.visit(c)

    def visit_ListComp(self, n):
        for g in n.generators:
            self.visit(g)
        self.visit(n.elt)
    visit_SetComp = visit_GeneratorExp = visit_ListComp

    def visit_DictComp(self, n):
        for g in n.generators:
            self.visit(g)
        self.visit(n.key)
        self.visit(n.value)

    def visit_For(self, n):
        self.visit(n.iter)
        p = self.path_of(n.iter)
        if p is not None:
            self.effects.append(("Iter", p[0], p[1]))
        # loop variable aliases the elements of the iterable
        if isinstance(n.target, ast.Name):
            self.locals[n.target.id] = ("fresh",) if p is None else (p[0], tuple(p[1] + ["[]"]))
        else:
            self.store_target(n.target, False, None)
        self.depth += 1
        for s in n.body + n.orelse:
            self.visit(s)
        self.depth -= 1

    def visit_If(self, n):
        self.visit(n.test)
        g = self.none_guard(n.test)
        if g:
            self.none_guards.append(g)
        self.depth += 1
        for s in n.body:
            self.visit(s)
        if g:
            self.none_guards.pop()
        for s in n.orelse:
            self.visit(s)
        self.depth -= 1

    def none_guard(self, test):
        """`x.a is None` (possibly inside an `and`) -> (root, path, attr)."""
        tests = test.values if isinstance(test, ast.BoolOp) and isinstance(test.op, ast.And) else [test]
        for t in tests:
            if (isinstance(t, ast.Compare) and len(t.ops) == 1 and isinstance(t.ops[0], ast.Is)
                    and isinstance(t.comparators[0], ast.Constant) and t.comparators[0].value is None
                    and isinstance(t.left, ast.Attribute)):
                p = self.path_of(t.left.value)
                if p is not None:
                    return (p[0], tuple(p[1]), t.left.attr)
        return None

    def visit_Call(self, n):
        for a in n.args:
            self.visit(a)
        for k in n.keywords:
            self.visit(k.value)
        f = n.func
        if isinstance(f, ast.Name):
            if f.id in ("setattr", "delattr") and n.args:
                p = self.path_of(n.args[0])
                if p is not None:
                    self.effects.append(("Store", p[0], p[1], "*", False, False))   # dynamic attribute name
                return
            need(f.id not in ("exec", "eval"), "call of %s" % f.id)
            need(not (f.id == "vars"), "vars()")
            return
        if isinstance(f, ast.Attribute):
            self.visit(f.value)
            need(f.attr not in ("__setattr__", "__delattr__"), "__setattr__ call")
            if isinstance(f.value, ast.Attribute) and f.value.attr == "__dict__" and f.attr in MUTATORS:
                p = self.path_of(f.value.value)
                need(p is None, "__dict__ mutation of a non-fresh object")
                return
            p = self.path_of(f.value)
            if p is None:
                return
            if f.attr in MUTATORS:
                self.effects.append(("Mutate", p[0], p[1]))
            if p == ("Self", []):
                # positional arguments that are known to have alias None here (guard in the caller)
                guarded = []
                for i, a in enumerate(n.args):
                    ap = self.path_of(a)
                    if ap is not None and (ap[0], tuple(ap[1]), "alias") in self.none_guards:
                        guarded.append(i)
                self.effects.append(("CallSelf", f.attr, guarded))
            elif f.attr in self.pkg_methods:
                self.effects.append(("CallOn", p[0], p[1], f.attr))
            return
        self.visit(f)


def analyse_function(fn, pkg_methods):
    src = textwrap.dedent(inspect.getsource(fn))
    tree = ast.parse(src).body[0]
    need(isinstance(tree, (ast.FunctionDef,)), "not a function")
    params = [a.arg for a in tree.args.posonlyargs + tree.args.args] + ([tree.args.vararg.arg] if tree.args.vararg else []) + \
             [a.arg for a in tree.args.kwonlyargs] + ([tree.args.kwarg.arg] if tree.args.kwarg else [])
    an = FnAnalysis(params, pkg_methods, getattr(fn, "__globals__", None))
    for s in tree.body:
        an.visit(s)
    # nested function definitions (closures) are visited by generic_visit with the same tables
    return an.effects, params


def unwrap(v):
    """(function, is_builder, is_ignore_copy, kind) for a class attribute, or None."""
    kind = "method"
    if isinstance(v, (staticmethod, classmethod)):
        kind = "static" if isinstance(v, staticmethod) else "class"
        v = v.__func__
    if isinstance(v, property):
        kind = "property"
        v = v.fget
    if not inspect.isfunction(v):
        return None
    is_builder = v.__qualname__ == "builder.<locals>._copy"
    is_ic = v.__qualname__ == "ignore_copy.<locals>._getattr"
    if is_builder or is_ic:
        inner = [c.cell_contents for c in (v.__closure__ or ()) if inspect.isfunction(c.cell_contents)]
        need(len(inner) == 1, "cannot unwrap decorator of %s" % v.__qualname__)
        v = inner[0]
    return v, is_builder, is_ic, kind


def copy_rule(c, all_classes):
    """Attributes re-copied by c.__copy__ (following super().__copy__()), or None for the default."""
    f = c.__dict__.get("__copy__")
    if f is None:
        for b in c.__mro__[1:]:
            if b in all_classes and "__copy__" in b.__dict__:
                return copy_rule(b, all_classes)
        return None
    tree = ast.parse(textwrap.dedent(inspect.getsource(f))).body[0]
    attrs, base = [], False
    newname = None
    for s in tree.body:
        if isinstance(s, ast.Expr) and isinstance(s.value, ast.Constant):
            continue
        if isinstance(s, ast.Assign) and len(s.targets) == 1 and isinstance(s.targets[0], ast.Name):
            v = s.value
            src = ast.unparse(v)
            if src in ("type(self).__new__(type(self))",):
                newname = s.targets[0].id
                continue
            if src == "super().__copy__()":
                newname = s.targets[0].id
                base = True
                continue
            raise Fail("__copy__ of %s: assignment %s" % (c.__name__, src))
        if isinstance(s, ast.Expr) and ast.unparse(s.value) == "%s.__dict__.update(self.__dict__)" % newname:
            continue
        if (isinstance(s, ast.Assign) and len(s.targets) == 1 and isinstance(s.targets[0], ast.Attribute)
                and isinstance(s.targets[0].value, ast.Name) and s.targets[0].value.id == newname):
            a = s.targets[0].attr
            need(ast.unparse(s.value) == "copy(self.%s)" % a, "__copy__ of %s: %s" % (c.__name__, ast.unparse(s)))
            attrs.append(a)
            continue
        if isinstance(s, ast.Return) and isinstance(s.value, ast.Name) and s.value.id == newname:
            continue
        # the same re-copies written as a loop over a constant tuple / list of attribute names (a literal, or a module-level constant):
        #     for name in NAMES: setattr(new, name, copy(getattr(self, name)))
        if (isinstance(s, ast.For) and isinstance(s.target, ast.Name) and not s.orelse and len(s.body) == 1 and isinstance(s.body[0], ast.Expr)
                and ast.unparse(s.body[0].value) == "setattr(%s, %s, copy(getattr(self, %s)))" % (newname, s.target.id, s.target.id)):
            names = None
            if isinstance(s.iter, (ast.Tuple, ast.List)) and all(isinstance(e, ast.Constant) and isinstance(e.value, str) for e in s.iter.elts):
                names = [e.value for e in s.iter.elts]
            elif isinstance(s.iter, ast.Name):
                val = getattr(sys.modules.get(c.__module__), s.iter.id, None)
                if isinstance(val, (tuple, list)) and all(isinstance(x, str) for x in val):
                    names = list(val)
            need(names is not None, "__copy__ of %s: loop over %s is not a constant sequence of names" % (c.__name__, ast.unparse(s.iter)))
            attrs.extend(names)
            continue
        raise Fail("__copy__ of %s outside the fragment: %s" % (c.__name__, ast.unparse(s)[:80]))
    if base:
        for b in c.__mro__[1:]:
            if b in all_classes and "__copy__" in b.__dict__:
                r = copy_rule(b, all_classes)
                attrs = (r or []) + attrs
                break
    return attrs


def container_attrs(c):
    """Attributes bound to a container (list/set/dict display or constructor) by the class's own __init__."""
    f = c.__dict__.get("__init__")
    out = []
    if f is None or not inspect.isfunction(f):
        return out
    try:
        tree = ast.parse(textwrap.dedent(inspect.getsource(f))).body[0]
    except OSError:
        import dataclasses
        need(dataclasses.is_dataclass(c), "no source for %s.__init__" % c.__name__)
        return out       # dataclass-generated __init__
    selfname = tree.args.args[0].arg
    for n in ast.walk(tree):
        tgt, val = None, None
        if isinstance(n, ast.Assign) and len(n.targets) == 1:
            tgt, val = n.targets[0], n.value
        elif isinstance(n, ast.AnnAssign) and n.value is not None:
            tgt, val = n.target, n.value
        if tgt is not None and isinstance(tgt, ast.Attribute) and isinstance(tgt.value, ast.Name) and tgt.value.id == selfname:
            if isinstance(val, (ast.List, ast.Dict, ast.Set, ast.ListComp, ast.SetComp, ast.DictComp)) or \
               (isinstance(val, ast.Call) and isinstance(val.func, ast.Name) and val.func.id in ("list", "set", "dict")):
                is_set = isinstance(val, (ast.Set, ast.SetComp)) or (isinstance(val, ast.Call) and val.func.id == "set")
                out.append((tgt.attr, is_set))
    return out


def root_coq(r):
    if r == "Self":
        return "RSelf"
    if r.startswith("Arg:"):
        return "(RArg %s)" % cstr(r[4:])
    raise Fail("root " + r)


def eff_coq(e):
    if e[0] == "Store":
        return "(EStore %s %s %s %s %s)" % (root_coq(e[1]), clist(e[2], cstr), cstr(e[3]), cbool(e[4]), cbool(e[5]))
    if e[0] == "Iter":
        return "(EIter %s %s)" % (root_coq(e[1]), clist(e[2], cstr))
    if e[0] == "Mutate":
        return "(EMutate %s %s)" % (root_coq(e[1]), clist(e[2], cstr))
    if e[0] == "AugMutate":
        return "(EAugMutate %s %s)" % (root_coq(e[1]), clist(e[2], cstr))
    if e[0] == "CallSelf":
        return "(ECallSelf %s %s)" % (cstr(e[1]), clist(["%d%%nat" % i for i in e[2]]))
    if e[0] == "CallOn":
        return "(ECallOn %s %s %s)" % (root_coq(e[1]), clist(e[2], cstr), cstr(e[3]))
    raise Fail("effect " + repr(e))


def gen():
    cl = classes()
    pkg_methods = set()
    for c in cl:
        for k, v in c.__dict__.items():
            if unwrap(v) is not None:
                pkg_methods.add(k)
    # the package must not define in-place operator methods (so that `x &= y`, `x |= y` rebind)
    for c in cl:
        for k in c.__dict__:
            need(not (k.startswith("__i") and k.endswith("__") and k not in ("__init__", "__iter__", "__init_subclass__", "__invert__")),
                 "class %s defines in-place operator %s" % (c.__name__, k))
    out = [HEADER, "From PT Require Import Base.Str Model.Effects.\nOpen Scope N_scope.\n\n"]
    out.append("Definition classes : list classrec := [\n")
    recs = []
    for c in cl:
        bases = [cname(b) for b in c.__mro__[1:] if b in cl]
        cr = copy_rule(c, cl)
        meths = []
        for k, v in c.__dict__.items():
            u = unwrap(v)
            if u is None:
                continue
            fn, is_b, is_ic, kind = u
            if fn.__qualname__.startswith("__create_fn__") or getattr(fn, "__module__", "").startswith("dataclasses"):
                continue    # generated by @dataclass (SqlContext is frozen: its __setattr__ raises)
            try:
                effs, params = analyse_function(fn, pkg_methods)
            except OSError:
                import dataclasses
                need(dataclasses.is_dataclass(c), "no source for %s.%s" % (c.__name__, k))
                continue
            if kind == "static":
                # no self: the first parameter is an ordinary argument
                effs = [tuple(["Arg:" + params[0] if (x == "Self") else x for x in e]) if e[0] != "CallSelf" else None for e in effs]
                effs = [e for e in effs if e is not None]
                pnames = params
            else:
                pnames = params[1:]
            meths.append("    MkMeth %s %s %s %s %s" % (cstr(k), cbool(is_b), cbool(is_ic), clist(pnames, cstr), clist([eff_coq(e) for e in effs])))
        ca = container_attrs(c)
        recs.append("  MkClass %s %s %s %s %s [\n%s]" % (
            cstr(cname(c)), clist(bases, cstr), clist([a for a, _ in ca], cstr), clist([a for a, st in ca if st], cstr),
            "None" if cr is None else "(Some %s)" % clist(cr, cstr), ";\n".join(meths)))
    out.append(";\n".join(recs))
    out.append("\n].\n\n")
    # the names ignore_copy refuses to answer
    from pypika_tortoise import utils
    src = textwrap.dedent(inspect.getsource(utils.ignore_copy))
    tree = ast.parse(src)
    names = None
    for n in ast.walk(tree):
        if isinstance(n, ast.Compare) and len(n.ops) == 1 and isinstance(n.ops[0], ast.In) and isinstance(n.comparators[0], (ast.List, ast.Tuple)):
            if all(isinstance(e, ast.Constant) and isinstance(e.value, str) for e in n.comparators[0].elts):
                names = [e.value for e in n.comparators[0].elts]
    need(names is not None, "cannot find the name list of ignore_copy")
    out.append("Definition ignore_copy_names : list str := %s.\n" % clist(names, cstr))
    return "".join(out)


if __name__ == "__main__":
    try:
        text = gen()
    except Exception as e:
        print("TRANSLATION-FAILED Effects: %s: %s" % (type(e).__name__, e))
        sys.exit(3)
    ch = write_if_changed(os.path.join(ROOT, "coq", "Gen", "Effects.v"), text)
    print("gen %-14s %s" % ("Effects", "updated" if ch else "unchanged"))

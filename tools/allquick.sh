#!/bin/bash
# allquick.sh [seed]: run every claimed check's quick tier, print one line per property
S=${1:-1}
for p in $(python3 -c "import json;print(' '.join(c['property_id'] for c in json.load(open('/verif/MANIFEST.json'))['checks']))"); do
  out=$(VERIF_SEED=$S /verif/check $p --tier quick 2>&1 | grep -E "^(OK|VIOLATION)" | head -2 | cut -c1-200 | tr '\n' ' ')
  echo "$p seed=$S: $out"
done

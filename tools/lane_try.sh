#!/bin/bash
# lane_try.sh <lane number> <seed dir> <checks...> : run checks of a private copy of /verif (under /tmp/lane<k>) against a private worktree of /repo
# with the change applied.  Several lanes can run side by side; nothing in /repo or /verif is touched.  Prints the verdict lines.
K="$1"; D="$2"; shift 2
L=/tmp/lane$K
if [ ! -d $L/verif ]; then mkdir -p $L; rsync -a --exclude .git --exclude replays /verif/ $L/verif/; fi
rsync -a --exclude .git --exclude replays --exclude 'coq/*' --exclude evidence /verif/ $L/verif/     # harness / tools as they are now (the built coq tree stays)
rsync -a --include '*/' --include '*.v' --exclude '*' /verif/coq/ $L/verif/coq/ 
[ -d $L/repo ] || git -C /repo worktree add -f --detach $L/repo HEAD >/dev/null 2>&1
cd $L/repo && git checkout -q -- . && git reset -q --hard $(git -C /repo rev-parse HEAD)
git apply "$D/patch.diff" 2>/dev/null || { echo "$(basename $D): APPLY-FAILED"; exit 3; }
for P in "$@"; do
  out=$(cd $L/verif && VERIF_REPO=$L/repo ./check $P --tier quick 2>&1 | grep -E "^(VIOLATION|OK|  ->)" | head -4 | cut -c1-500)
  echo "$(basename $D) $P: $out"
done
cd $L/repo && git checkout -q -- .

#!/usr/bin/env python3
"""adopt_seed.py <src dir> <id> <confirm line> <detected: text> — copy a confirmed seeded change into /verif/seeded/<id>/ with meta.json."""
import json, os, shutil, sys
src, sid, confirm, detected = sys.argv[1:5]
dst = os.path.join("/verif/seeded", sid)
os.makedirs(dst, exist_ok=True)
for f in ("patch.diff", "demo.py"):
    shutil.copy(os.path.join(src, f), os.path.join(dst, f))
m = json.load(open(os.path.join(src, "meta.json")))
meta = {"property": m.get("property", sid.split("_")[0]), "summary": m.get("summary"), "needs_to_manifest": m.get("needs"), "files": m.get("files"),
        "origin": "written by an independent sub-agent given only the property text and a scratch worktree",
        "confirmed": confirm, "what_was_run": "tools/confirm_seed.sh (scratch worktree of /repo HEAD: git apply, full test suite, demo.py with and without the change); "
        "tools/try_seed.sh (git -C /repo apply; ./check <prop> --tier quick; git -C /repo checkout -- .)",
        "detected_by": detected}
json.dump(meta, open(os.path.join(dst, "meta.json"), "w"), indent=1)
print("adopted", sid)

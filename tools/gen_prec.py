#!/venv/bin/python
"""Translator (ast part): the parenthesisation decision functions of terms.py -> coq/Gen/Prec.v.

Accepted fragment (fail-closed outside it): a function body that is a sequence of
    if <cond>: return <bool-expr>
followed by a final  return <bool-expr>, where <bool-expr> is built from True/False, and/or/not,
comparisons  x is None | x is not None | x == Arithmetic.m | x != Arithmetic.m | x in self.add_order |
x not in self.add_order,  isinstance(term, ComplexCriterion),  term.comparator ==/!= self.comparator.
"""
from __future__ import annotations
import ast, inspect, os, sys, textwrap
ROOT = os.path.dirname(os.path.dirname(os.path.abspath(__file__)))
sys.path.insert(0, os.path.join(ROOT, "harness"))
REPO = os.environ.get("VERIF_REPO", "/repo")
sys.path.insert(0, REPO)
from gen_tables import write_if_changed, HEADER, IMPORTS, Fail, need  # noqa

ARITH = {"add": "Add", "sub": "Sub", "mul": "Mul", "div": "Div"}


class Tr:
    def __init__(self, types):
        self.types = types  # name -> 'arith' | 'opattr' | 'child'

    def expr(self, e):
        if isinstance(e, ast.Constant) and e.value is True:
            return "true"
        if isinstance(e, ast.Constant) and e.value is False:
            return "false"
        if isinstance(e, ast.BoolOp):
            op = "&&" if isinstance(e.op, ast.And) else "||"
            return "(" + (" %s " % op).join(self.expr(v) for v in e.values) + ")"
        if isinstance(e, ast.UnaryOp) and isinstance(e.op, ast.Not):
            return "(negb %s)" % self.expr(e.operand)
        if isinstance(e, ast.Call) and isinstance(e.func, ast.Name) and e.func.id == "isinstance":
            need(len(e.args) == 2 and isinstance(e.args[0], ast.Name) and self.types.get(e.args[0].id) == "child"
                 and isinstance(e.args[1], ast.Name) and e.args[1].id == "ComplexCriterion", "isinstance form")
            return "(child_is_complex %s)" % e.args[0].id
        if isinstance(e, ast.Compare):
            need(len(e.ops) == 1 and len(e.comparators) == 1, "chained comparison")
            l, op, r = e.left, e.ops[0], e.comparators[0]
            neg = isinstance(op, (ast.NotEq, ast.IsNot, ast.NotIn))
            core = self.cmp(l, op, r)
            return "(negb %s)" % core if neg else core
        raise Fail("expression outside the fragment: " + ast.dump(e))

    def cmp(self, l, op, r):
        if isinstance(op, (ast.Is, ast.IsNot)):
            need(isinstance(l, ast.Name) and self.types.get(l.id) == "opattr" and isinstance(r, ast.Constant) and r.value is None, "is-None form")
            return "(opattr_is_none %s)" % l.id
        if isinstance(op, (ast.In, ast.NotIn)):
            need(isinstance(l, ast.Name) and isinstance(r, ast.Attribute) and isinstance(r.value, ast.Name)
                 and r.value.id == "self" and r.attr == "add_order", "in-form")
            t = self.types.get(l.id)
            need(t in ("arith", "opattr"), "in: type of %s" % l.id)
            return "(%s %s add_order)" % ("arith_in" if t == "arith" else "opattr_in", l.id)
        if isinstance(op, (ast.Eq, ast.NotEq)):
            if isinstance(l, ast.Name) and isinstance(r, ast.Attribute) and isinstance(r.value, ast.Name) and r.value.id == "Arithmetic":
                need(r.attr in ARITH, "Arithmetic member")
                t = self.types.get(l.id)
                need(t in ("arith", "opattr"), "eq: type of %s" % l.id)
                return "(%s %s %s)" % ("arith_eqb" if t == "arith" else "opattr_eq", l.id, ARITH[r.attr])
            if (isinstance(l, ast.Attribute) and isinstance(l.value, ast.Name) and self.types.get(l.value.id) == "child" and l.attr == "comparator"
                    and isinstance(r, ast.Attribute) and isinstance(r.value, ast.Name) and r.value.id == "self" and r.attr == "comparator"):
                return "(child_conn_eq %s self_conn)" % l.value.id
        raise Fail("comparison outside the fragment: %s %s %s" % (ast.dump(l), ast.dump(op), ast.dump(r)))

    def body(self, stmts):
        stmts = [s for s in stmts if not (isinstance(s, ast.Expr) and isinstance(s.value, ast.Constant) and isinstance(s.value.value, str))]
        need(stmts and isinstance(stmts[-1], ast.Return) and stmts[-1].value is not None, "last statement must be return <expr>")
        out = self.expr(stmts[-1].value)
        for s in reversed(stmts[:-1]):
            need(isinstance(s, ast.If) and not s.orelse and len(s.body) == 1 and isinstance(s.body[0], ast.Return)
                 and s.body[0].value is not None, "statement outside the fragment: " + ast.dump(s)[:120])
            out = "if %s then %s else\n  %s" % (self.expr(s.test), self.expr(s.body[0].value), out)
        return out


def fn_ast(f):
    return ast.parse(textwrap.dedent(inspect.getsource(f))).body[0]


def gen():
    from pypika_tortoise.terms import ArithmeticExpression, ComplexCriterion
    from pypika_tortoise.enums import Arithmetic
    need(all(isinstance(a, Arithmetic) for a in ArithmeticExpression.add_order), "add_order members")
    out = [HEADER, IMPORTS]
    out.append("Definition add_order : list arith := [%s].\n\n" % "; ".join(ARITH[a.name] for a in ArithmeticExpression.add_order))
    for name in ("left_needs_parens", "right_needs_parens"):
        f = fn_ast(getattr(ArithmeticExpression, name))
        args = [a.arg for a in f.args.args]
        need(len(args) == 3 and args[0] == "self", "%s signature %r" % (name, args))
        tr = Tr({args[1]: "arith", args[2]: "opattr"})
        out.append("Definition %s (%s : arith) (%s : opattr) : bool :=\n  %s.\n\n" % (name, args[1], args[2], tr.body(f.body)))
    f = fn_ast(ComplexCriterion.needs_brackets)
    args = [a.arg for a in f.args.args]
    need(len(args) == 2 and args[0] == "self", "needs_brackets signature")
    tr = Tr({args[1]: "child"})
    out.append("Definition needs_brackets (self_conn : conn) (%s : option conn) : bool :=\n  %s.\n" % (args[1], tr.body(f.body)))
    # the getattr(side, "operator", None) idiom of ArithmeticExpression.get_sql is what opattr models
    # (judged on the syntax tree, so that the spelling - one comprehension over both sides, two assignments, a helper local - does not matter:
    #  every read of an OPERAND's operator is getattr(<operand>, "operator", None); only self.operator is read directly)
    g = fn_ast(ArithmeticExpression.get_sql)
    reads = [n for n in ast.walk(g) if isinstance(n, ast.Call) and isinstance(n.func, ast.Name) and n.func.id == "getattr" and len(n.args) == 3
             and isinstance(n.args[1], ast.Constant) and n.args[1].value == "operator" and isinstance(n.args[2], ast.Constant) and n.args[2].value is None]
    direct = [n for n in ast.walk(g) if isinstance(n, ast.Attribute) and n.attr == "operator" and not (isinstance(n.value, ast.Name) and n.value.id == "self")]
    need(reads and not direct, "ArithmeticExpression.get_sql no longer reads the operands' operator attribute via getattr(.., 'operator', None)")
    return "".join(out)


if __name__ == "__main__":
    try:
        text = gen()
    except Exception as e:
        print("TRANSLATION-FAILED Prec: %s: %s" % (type(e).__name__, e))
        sys.exit(3)
    ch = write_if_changed(os.path.join(ROOT, "coq", "Gen", "Prec.v"), text)
    print("gen %-14s %s" % ("Prec", "updated" if ch else "unchanged"))

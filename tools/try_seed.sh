#!/bin/bash
# try_seed.sh <seed dir> <prop> [tier]: apply the change to /repo, run ./check, undo.  Prints the verdict lines.
D="$1"; P="$2"; T="${3:-quick}"
cd /repo && git apply "$D/patch.diff" 2>/dev/null || { echo "$D: apply failed"; git reset -q --hard HEAD; exit 3; }
cd /verif && ./check $P --tier $T 2>&1 | grep -E "^(VIOLATION|OK|KNOWN|  ->)" | cut -c1-400
cd /repo && git checkout -q -- . && git reset -q --hard HEAD && git status --short | head -3

(* Base/Str.v — strings as lists of code points, decimal printing, small helpers.
   char = N: a Unicode code point (or a UTF-8 byte: every character the library treats specially is
   ASCII, and str.replace / concatenation on ASCII characters commute with UTF-8 encoding, so the
   model is faithful under either reading).  No proofs about the library here. *)
From Coq Require Export Ascii String.
From Coq Require Export List NArith ZArith Bool.   (* after String: List.length etc. win *)
From Coq Require Import Decimal DecimalString DecimalFacts DecimalN DecimalPos Lia.
Export ListNotations.
Open Scope N_scope.

Definition char := N.
Definition str := list char.

(* Coq string literal -> str (used by generated files and by the model for keywords) *)
Fixpoint L (s : string) : str :=
  match s with
  | EmptyString => []
  | String a r => N_of_ascii a :: L r
  end.

Arguments L s%string.

Definition ceqb (a b : char) : bool := N.eqb a b.
Fixpoint seqb (a b : str) : bool :=
  match a, b with
  | [], [] => true
  | x :: a', y :: b' => N.eqb x y && seqb a' b'
  | _, _ => false
  end.

Lemma seqb_eq a b : seqb a b = true <-> a = b.
Proof.
  revert b; induction a as [|x a IH]; intros [|y b]; simpl; split; intro H; try congruence; try discriminate.
  - apply andb_true_iff in H as [H1 H2]. apply N.eqb_eq in H1. apply IH in H2. congruence.
  - inversion H; subst. rewrite N.eqb_refl. simpl. apply IH. reflexivity.
Qed.

Lemma seqb_refl a : seqb a a = true.
Proof. apply seqb_eq. reflexivity. Qed.

Definition flat {A} (l : list (list A)) : list A := List.concat l.

Fixpoint join (sep : str) (l : list str) : str :=
  match l with
  | [] => []
  | [x] => x
  | x :: r => x ++ sep ++ join sep r
  end.

(* Python: s.replace(q, q*2) for a one-character q; the empty quote char is handled by the callers. *)
Fixpoint dbl (q : char) (s : str) : str :=
  match s with
  | [] => []
  | c :: r => if N.eqb c q then q :: q :: dbl q r else c :: dbl q r
  end.

(* characters *)
Definition c_sq : char := 39.   (* single quote *)
Definition c_dq : char := 34.   (* double quote *)
Definition c_bt : char := 96.   (* backtick *)
Definition c_bs : char := 92.   (* backslash *)
Definition c_sp : char := 32.
Definition c_minus : char := 45.
Definition c_dot : char := 46.
Definition c_colon : char := 58.
Definition c_0 : char := 48.

Definition is_digit (c : char) : bool := (48 <=? c) && (c <=? 57).
Definition is_nzdigit (c : char) : bool := (49 <=? c) && (c <=? 57).
Definition is_alpha (c : char) : bool :=
  ((65 <=? c) && (c <=? 90)) || ((97 <=? c) && (c <=? 122)) || (c =? 95) || (128 <=? c).
Definition is_word (c : char) : bool := is_alpha c || is_digit c || (c =? 36).
Definition is_space (c : char) : bool := (c =? 32) || (c =? 9) || (c =? 10) || (c =? 13).

(* decimal printing: Python's str(int) *)
Fixpoint uint_to_str (d : Decimal.uint) : str :=
  match d with
  | Nil => []
  | D0 d => 48 :: uint_to_str d | D1 d => 49 :: uint_to_str d | D2 d => 50 :: uint_to_str d
  | D3 d => 51 :: uint_to_str d | D4 d => 52 :: uint_to_str d | D5 d => 53 :: uint_to_str d
  | D6 d => 54 :: uint_to_str d | D7 d => 55 :: uint_to_str d | D8 d => 56 :: uint_to_str d
  | D9 d => 57 :: uint_to_str d
  end.

Definition N_to_str (n : N) : str := uint_to_str (N.to_uint n).
Definition Z_to_str (z : Z) : str :=
  match z with
  | Z0 => [48]
  | Zpos p => N_to_str (Npos p)
  | Zneg p => 45 :: N_to_str (Npos p)
  end.

(* reading a decimal: the specification-side inverse *)
Definition digit_val (c : char) : N := c - 48.
Fixpoint read_dec_acc (acc : N) (s : str) : option N :=
  match s with
  | [] => Some acc
  | c :: r => if is_digit c then read_dec_acc (acc * 10 + digit_val c) r else None
  end.
Definition read_dec (s : str) : option N :=
  match s with [] => None | _ => read_dec_acc 0 s end.

(* ---- facts about decimal printing ---- *)

Definition all_digits (s : str) : bool := forallb is_digit s.

Lemma uint_to_str_digits d : all_digits (uint_to_str d) = true.
Proof. induction d; simpl; auto. Qed.

Lemma N_to_str_digits n : all_digits (N_to_str n) = true.
Proof. apply uint_to_str_digits. Qed.

Lemma N_to_uint_norm n : unorm (N.to_uint n) = N.to_uint n.
Proof. rewrite <- (DecimalN.Unsigned.of_to n) at 2. rewrite DecimalN.Unsigned.to_of. reflexivity. Qed.

Lemma N_to_str_0 : N_to_str 0 = [48].
Proof. reflexivity. Qed.

(* a positive number prints as a non-empty digit string whose first digit is 1..9 *)
Lemma N_to_str_pos n : 0 < n -> exists c r, N_to_str n = c :: r /\ is_nzdigit c = true.
Proof.
  intros Hn. unfold N_to_str.
  pose proof (N_to_uint_norm n) as Hnorm.
  assert (Hnz : nzhead (N.to_uint n) <> Nil).
  { intro Hnil. apply (proj2 (unorm_0 _)) in Hnil. rewrite Hnorm in Hnil.
    assert (n = 0) by (apply DecimalN.Unsigned.to_uint_inj; rewrite Hnil; reflexivity). lia. }
  rewrite (unorm_nzhead _ Hnz) in Hnorm.
  pose proof (nzhead_nonzero (N.to_uint n)) as Hd0. rewrite Hnorm in Hd0, Hnz.
  destruct (N.to_uint n) as [|d|d|d|d|d|d|d|d|d|d]; simpl.
  - congruence.
  - exfalso. apply (Hd0 d). reflexivity.
  - eexists _, _; split; [reflexivity|reflexivity].
  - eexists _, _; split; [reflexivity|reflexivity].
  - eexists _, _; split; [reflexivity|reflexivity].
  - eexists _, _; split; [reflexivity|reflexivity].
  - eexists _, _; split; [reflexivity|reflexivity].
  - eexists _, _; split; [reflexivity|reflexivity].
  - eexists _, _; split; [reflexivity|reflexivity].
  - eexists _, _; split; [reflexivity|reflexivity].
  - eexists _, _; split; [reflexivity|reflexivity].
Qed.

(* read_dec inverts N_to_str *)
Fixpoint uint_val_acc (acc : N) (d : Decimal.uint) : N :=
  match d with
  | Nil => acc
  | D0 d => uint_val_acc (acc*10+0) d | D1 d => uint_val_acc (acc*10+1) d | D2 d => uint_val_acc (acc*10+2) d
  | D3 d => uint_val_acc (acc*10+3) d | D4 d => uint_val_acc (acc*10+4) d | D5 d => uint_val_acc (acc*10+5) d
  | D6 d => uint_val_acc (acc*10+6) d | D7 d => uint_val_acc (acc*10+7) d | D8 d => uint_val_acc (acc*10+8) d
  | D9 d => uint_val_acc (acc*10+9) d
  end.

Lemma read_dec_acc_uint d acc : read_dec_acc acc (uint_to_str d) = Some (uint_val_acc acc d).
Proof. revert acc; induction d; intro acc; simpl; auto; rewrite IHd; reflexivity. Qed.

Lemma pos_of_uint_acc_val d acc :
  Npos (Pos.of_uint_acc d acc) = uint_val_acc (Npos acc) d.
Proof.
  revert acc; induction d; intro acc; cbn [Pos.of_uint_acc uint_val_acc]; auto; rewrite IHd; f_equal; lia.
Qed.

Lemma N_of_uint_val d : N.of_uint d = uint_val_acc 0 d.
Proof.
  induction d; cbn [N.of_uint Pos.of_uint uint_val_acc]; auto;
    try (rewrite pos_of_uint_acc_val; reflexivity).
Qed.

Lemma uint_to_str_nonnil d : d <> Nil -> uint_to_str d <> [].
Proof. destruct d; simpl; congruence. Qed.

Lemma N_to_str_nonnil n : N_to_str n <> [].
Proof.
  unfold N_to_str. apply uint_to_str_nonnil. rewrite <- N_to_uint_norm. apply unorm_nonnil.
Qed.

Lemma read_dec_N_to_str n : read_dec (N_to_str n) = Some n.
Proof.
  unfold read_dec. pose proof (N_to_str_nonnil n) as Hnn.
  destruct (N_to_str n) eqn:E; [congruence|]. rewrite <- E. unfold N_to_str.
  rewrite read_dec_acc_uint, <- N_of_uint_val. f_equal. apply DecimalN.Unsigned.of_to.
Qed.

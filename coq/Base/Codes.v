(* Base/Codes.v — printing the verdicts of a case file as one string (one character per case),
   so that the harness does not have to parse Coq's wrapped list output. *)
From PT Require Import Base.Str.
Open Scope N_scope.

Definition code_char (n : N) : ascii := ascii_of_N (48 + n).
Fixpoint codes (l : list N) : string :=
  match l with
  | [] => EmptyString
  | n :: r => String (code_char n) (codes r)
  end.
Definition b2n (b : bool) : N := if b then 1 else 0.
(* bit 0: model = implementation; bit 1: P_check on the implementation's output; bit 2: inside the theorem's hypotheses *)
Definition verdict (agree pcheck inside : bool) : N := b2n agree + 2 * b2n pcheck + 4 * b2n inside.
Definition show (s : str) : string := string_of_list_ascii (map ascii_of_N s).

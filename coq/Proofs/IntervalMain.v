(* Proofs/IntervalMain.v — C18: the literal printed by the model denotes the constructor arguments. *)
From PT Require Import Base.Str Model.Types Gen.Interval Model.Interval Ref.IntervalRead Proofs.IntervalLemmas.
From Coq Require Import Lia ZifyBool.
Open Scope N_scope.

(* the generated template table agrees with the specification's quoting forms *)
Lemma template_kind d :
  (quote_inside_unit d = true /\ template d = (L "INTERVAL '", L " ", L "'")) \/
  (quote_inside_unit d = false /\ template d = (L "INTERVAL '", L "' ", [])).
Proof. destruct d; vm_compute; auto. Qed.

Definition noq (s : str) : bool := forallb (fun x => negb (x =? 39)) s.
Definition nosp (s : str) : bool := forallb (fun x => negb (x =? 32)) s.

Lemma read_wrap d e u : noq e = true -> nosp u = true ->
  read_interval d (wrap (template d) e u) = read_expr u e.
Proof.
  intros He Hu. destruct (template_kind d) as [[Hk Ht]|[Hk Ht]]; rewrite Ht; unfold wrap.
  - apply read_interval_kind1; assumption.
  - apply read_interval_kind2; assumption.
Qed.

Lemma noq_digits s : all_digits s = true -> noq s = true.
Proof.
  unfold all_digits, noq. induction s as [|c s IH]; simpl; [reflexivity|]. intro H.
  apply andb_true_iff in H as [Hc Hs]. destruct (digit_facts c Hc) as (_ & _ & _ & H39 & _).
  rewrite H39, IH by assumption. reflexivity.
Qed.

Lemma noq_app a b : noq (a ++ b) = noq a && noq b.
Proof. apply forallb_app. Qed.
Lemma noq_cons c s : noq (c :: s) = negb (c =? 39) && noq s.
Proof. reflexivity. Qed.

Lemma noq_rest l : seps_ok l -> noq (rest l) = true.
Proof.
  induction 1 as [|[s v] l Hs Hl IH]; [reflexivity|]. rewrite rest_cons, noq_cons, noq_app, IH.
  rewrite noq_digits by apply N_to_str_digits.
  simpl in Hs. destruct (sep4_facts s Hs) as (_ & _ & _ & H39). rewrite H39. reflexivity.
Qed.

(* the generic core: a signed field list under a designator that names its layout reads back *)
Lemma core d (neg : bool) (vA : N) (lAB : list (char * N)) (u : str) (i j : nat) :
  vA <> 0 \/ neg = false -> seps_ok lAB -> nosp u = true ->
  read_unit u = Some (i, j) -> map fst lAB = firstn (j - i) (skipn i std_seps) ->
  read_interval d (wrap (template d) ((if neg then [45] else []) ++ N_to_str vA ++ rest lAB) u)
  = Some (IV neg (label_from i (vA :: map snd lAB))).
Proof.
  intros HvA Hl Hu Hru Hseps.
  rewrite read_wrap; [|destruct neg; cbn [app]; rewrite ?noq_cons, noq_app, (noq_digits (N_to_str vA)), noq_rest
                        by (assumption || apply N_to_str_digits); reflexivity|assumption].
  unfold read_expr. rewrite Hru.
  assert (Hhd : forall X, match (N_to_str vA ++ X) with c :: r => if c =? 45 then true else false | [] => false end = false).
  { intro X. pose proof (N_to_str_digits vA) as Hd. pose proof (N_to_str_nonnil vA) as Hn.
    destruct (N_to_str vA) as [|c r]; [congruence|]. simpl in *. apply andb_true_iff in Hd as [Hc _].
    destruct (digit_facts c Hc) as (_ & _ & H45 & _). rewrite H45. reflexivity. }
  destruct neg.
  - cbn [app]. rewrite N.eqb_refl. rewrite <- Hseps, read_fields_rest by assumption. reflexivity.
  - cbn [app]. specialize (Hhd (rest lAB)).
    destruct (N_to_str vA ++ rest lAB) as [|c r] eqn:E.
    + pose proof (N_to_str_nonnil vA). destruct (N_to_str vA); simpl in E; congruence.
    + destruct (c =? 45); [discriminate|]. rewrite <- E, <- Hseps, read_fields_rest by assumption. reflexivity.
Qed.

(* trim on a zero prefix followed by a non-zero field and the remaining fields *)
Definition pre_ok (pre : str) : Prop :=
  pre = [] \/ (forallb in_cls pre = true /\ last_sep3 pre = Some (length pre) /\ (2 <= length pre)%nat /\
               (forall Y, alt1 (pre ++ Y) = None) /\ (forall Y, alt2 (pre ++ Y) = false)).

Lemma trim_fields pre vA lA : vA <> 0 -> seps_ok lA -> pre_ok pre ->
  trim (pre ++ N_to_str vA ++ rest lA) = N_to_str vA ++ rest (trimr lA).
Proof.
  intros Hv Hl Hp.
  destruct (N_to_str_zero_or_nz vA) as [[-> _]|[_ (c & r & E & Hc & Hr)]]; [congruence|].
  assert (Hscan : scan (c :: r ++ rest lA) = c :: r ++ rest (trimr lA)).
  { change (c :: r ++ rest lA) with ((c :: r) ++ rest lA). rewrite scan_digits, scan_rest; [reflexivity|assumption|].
    unfold all_digits in *. simpl. destruct (nz_facts c Hc) as (_ & _ & _ & _ & _ & Hd). rewrite Hd, Hr. reflexivity. }
  rewrite E. destruct Hp as [->|(H1 & H2 & H3 & H4 & H5)].
  - cbn [app]. rewrite trim_nostrip by assumption. exact Hscan.
  - cbn [app]. destruct (nz_facts c Hc) as (Hcls & _).
    rewrite trim_strip; [exact Hscan|assumption|assumption|assumption|assumption|apply H4|apply H5].
Qed.

Lemma fmt7_rest v0 v1 v2 v3 v4 v5 v6 :
  fmt7 [v0; v1; v2; v3; v4; v5; v6] = N_to_str v0 ++ rest [(45, v1); (45, v2); (32, v3); (58, v4); (58, v5); (46, v6)].
Proof. unfold fmt7, rest, nthN. simpl. rewrite app_nil_r. reflexivity. Qed.

(* ---- __init__ bookkeeping ---- *)
Lemma init_step_zero st lab : init_step st (lab, 0%Z) = st.
Proof. destruct st as [[lg sm] ng]. reflexivity. Qed.
Lemma init_step_first sm ng lab z : z <> 0%Z -> init_step (None, sm, ng) (lab, z) = (Some lab, Some lab, Z.ltb z 0).
Proof. intro H. unfold init_step. rewrite (proj2 (Z.eqb_neq z 0) H). reflexivity. Qed.
Lemma init_step_some lg sm ng lab z :
  init_step (Some lg, sm, ng) (lab, z) = (Some lg, (if Z.eqb z 0 then sm else Some lab), ng).
Proof. unfold init_step. destruct (Z.eqb z 0); reflexivity. Qed.

Lemma absN_nz z : z <> 0%Z -> Z.abs_N z <> 0.
Proof. lia. Qed.
Lemma absN_eqb z : z <> 0%Z -> (Z.abs_N z =? 0) = false.
Proof. intro. apply N.eqb_neq. lia. Qed.
Lemma eqb_nz z : z <> 0%Z -> Z.eqb z 0 = false.
Proof. apply Z.eqb_neq. Qed.


Lemma init_comps z0 z1 z2 z3 z4 z5 z6 :
  init (MkIArgs z0 z1 z2 z3 z4 z5 z6 0 0) =
  let '(lg, sm, ng) := fold_left init_step [(L "YEAR", z0); (L "MONTH", z1); (L "DAY", z2); (L "HOUR", z3); (L "MINUTE", z4);
                                            (L "SECOND", z5); (L "MICROSECOND", z6)] (None, None, false) in
  MkIState [Z.abs_N z0; Z.abs_N z1; Z.abs_N z2; Z.abs_N z3; Z.abs_N z4; Z.abs_N z5; Z.abs_N z6] lg sm ng None None.
Proof. reflexivity. Qed.


Lemma sign_app (b : bool) (X : str) : (if b then 45 :: X else X) = (if b then [45] else []) ++ X.
Proof. destruct b; reflexivity. Qed.

Lemma lead_A0 v l : N_to_str v ++ rest l = [] ++ N_to_str v ++ rest l. Proof. reflexivity. Qed.
Lemma lead_A1 v l : N_to_str 0 ++ rest ((45, v) :: l) = [48;45] ++ N_to_str v ++ rest l. Proof. reflexivity. Qed.
Lemma lead_A2 v l : N_to_str 0 ++ rest ((45,0)::(45, v) :: l) = [48;45;48;45] ++ N_to_str v ++ rest l. Proof. reflexivity. Qed.
Lemma lead_A3 v l : N_to_str 0 ++ rest ((45,0)::(45,0)::(32, v) :: l) = [48;45;48;45;48;32] ++ N_to_str v ++ rest l. Proof. reflexivity. Qed.
Lemma lead_A4 v l : N_to_str 0 ++ rest ((45,0)::(45,0)::(32,0)::(58, v) :: l) = [48;45;48;45;48;32;48;58] ++ N_to_str v ++ rest l. Proof. reflexivity. Qed.
Lemma lead_A5 v l : N_to_str 0 ++ rest ((45,0)::(45,0)::(32,0)::(58,0)::(58, v) :: l) = [48;45;48;45;48;32;48;58;48;58] ++ N_to_str v ++ rest l. Proof. reflexivity. Qed.

Ltac pre_ok_tac := first [ left; reflexivity | right; repeat split; try reflexivity; try (simpl; lia); intro; reflexivity ].
Lemma pre_ok0 : pre_ok []. Proof. pre_ok_tac. Qed.
Lemma pre_ok1 : pre_ok [48;45]. Proof. pre_ok_tac. Qed.
Lemma pre_ok2 : pre_ok [48;45;48;45]. Proof. pre_ok_tac. Qed.
Lemma pre_ok3 : pre_ok [48;45;48;45;48;32]. Proof. pre_ok_tac. Qed.
Lemma pre_ok4 : pre_ok [48;45;48;45;48;32;48;58]. Proof. pre_ok_tac. Qed.
Lemma pre_ok5 : pre_ok [48;45;48;45;48;32;48;58;48;58]. Proof. pre_ok_tac. Qed.
Global Hint Resolve pre_ok0 pre_ok1 pre_ok2 pre_ok3 pre_ok4 pre_ok5 : preok.

Ltac seps_tac := repeat (apply Forall_cons; [reflexivity|]); apply Forall_nil.

Ltac comp_ostr := repeat match goal with |- context [ostr_eqb ?a ?b] =>
    let v := eval vm_compute in (ostr_eqb a b) in change (ostr_eqb a b) with v end.

Lemma core' d (neg : bool) (vA : N) (lAB : list (char * N)) (u : str) (i j : nat) :
  vA <> 0 \/ neg = false -> seps_ok lAB -> nosp u = true ->
  read_unit u = Some (i, j) -> map fst lAB = firstn (j - i) (skipn i std_seps) ->
  read_interval d (let '(p1, p2, p3) := template d in p1 ++ ((if neg then [45] else []) ++ N_to_str vA ++ rest lAB) ++ p2 ++ u ++ p3)
  = Some (IV neg (label_from i (vA :: map snd lAB))).
Proof. exact (core d neg vA lAB u i j). Qed.


Lemma Z_to_str_sign q : q <> 0%Z -> Z_to_str q = (if (q <? 0)%Z then [45] else []) ++ N_to_str (Z.abs_N q).
Proof. destruct q; [congruence| |]; intros _; reflexivity. Qed.

Ltac norm_rhs HA HB :=
  unfold denote; change (negb (0 =? 0)%Z) with false; cbv iota;
  cbn [map label_from]; change (Z.abs_N 0) with 0;
  cbn [drop_lead0]; change (0 =? 0) with true; cbv iota; rewrite ?(absN_eqb _ HA);
  cbn [drop_trail0]; change (0 =? 0) with true; cbv iota; rewrite ?(absN_eqb _ HB), ?(absN_eqb _ HA);
  unfold first_nonzero_neg; cbn [filter]; change (0 =? 0)%Z with true; cbn [negb]; rewrite ?(eqb_nz _ HA); cbn [negb].

Ltac norm_init HA HB :=
  unfold interval_sql; rewrite init_comps; cbn [fold_left];
  rewrite ?init_step_zero;
  rewrite init_step_first by assumption;
  rewrite ?init_step_some;
  rewrite ?(eqb_nz _ HA), ?(eqb_nz _ HB);
  change (0 =? 0)%Z with true; cbv iota;
  unfold expr_unit; cbn [st_largest st_smallest st_negative st_quarters st_weeks st_vals];
  comp_ostr; cbn [negb]; cbv iota.

Lemma core_single d (neg : bool) (vA : N) (u : str) (i : nat) :
  vA <> 0 \/ neg = false -> nosp u = true -> read_unit u = Some (i, i) ->
  read_interval d (let '(p1, p2, p3) := template d in p1 ++ ((if neg then [45] else []) ++ N_to_str vA) ++ p2 ++ u ++ p3)
  = Some (IV neg [(i, vA)]).
Proof.
  intros Hv Hu Hr. pose proof (core' d neg vA [] u i i Hv (Forall_nil _) Hu Hr) as H.
  rewrite Nat.sub_diag in H. specialize (H eq_refl). unfold rest in H. simpl in H. rewrite app_nil_r in H. exact H.
Qed.

Ltac finish_core HA :=
  erewrite core'; [reflexivity | left; apply absN_nz; exact HA | seps_tac | reflexivity | vm_compute; reflexivity | reflexivity].

(* first non-zero component A (hypothesis HA), last non-zero component B (HB); A < 6 or B > A *)
Ltac solve_comp HA HB :=
  norm_rhs HA HB; norm_init HA HB;
  rewrite sign_app, fmt7_rest; change (Z.abs_N 0) with 0;
  first [rewrite lead_A5 | rewrite lead_A4 | rewrite lead_A3 | rewrite lead_A2 | rewrite lead_A1 | rewrite lead_A0];
  (rewrite trim_fields; [|apply absN_nz; exact HA|seps_tac|auto with preok]);
  cbn [trimr]; change (0 =? 0) with true; cbv iota; rewrite ?(absN_eqb _ HB);
  finish_core HA.

(* only microseconds are non-zero: the dedicated branch of get_sql *)
Ltac solve_micro HA :=
  norm_rhs HA HA; norm_init HA HA;
  cbn [nthN nth];
  erewrite core_single; [reflexivity | left; apply absN_nz; exact HA | reflexivity | vm_compute; reflexivity].

Ltac rs HA l :=
  match l with
  | tt => solve_comp HA HA
  | (?z, ?r) => let Hz := fresh "Hz" in let HB := fresh "HB" in
                destruct (Z.eq_dec z 0) as [Hz|HB]; [subst z; rs HA r | solve_comp HA HB]
  end.

Lemma components_ok d z0 z1 z2 z3 z4 z5 z6 :
  read_interval d (interval_sql d (MkIArgs z0 z1 z2 z3 z4 z5 z6 0 0)) = Some (denote [z0; z1; z2; z3; z4; z5; z6] 0 0).
Proof.
  destruct (Z.eq_dec z0 0) as [E0|HA]; [subst z0|rs HA (z6, (z5, (z4, (z3, (z2, (z1, tt))))))].
  destruct (Z.eq_dec z1 0) as [E1|HA]; [subst z1|rs HA (z6, (z5, (z4, (z3, (z2, tt)))))].
  destruct (Z.eq_dec z2 0) as [E2|HA]; [subst z2|rs HA (z6, (z5, (z4, (z3, tt))))].
  destruct (Z.eq_dec z3 0) as [E3|HA]; [subst z3|rs HA (z6, (z5, (z4, tt)))].
  destruct (Z.eq_dec z4 0) as [E4|HA]; [subst z4|rs HA (z6, (z5, tt))].
  destruct (Z.eq_dec z5 0) as [E5|HA]; [subst z5|rs HA (z6, tt)].
  destruct (Z.eq_dec z6 0) as [E6|HA]; [subst z6|solve_micro HA].
  destruct d; vm_compute; reflexivity.
Qed.

(* ---- quarters and weeks ---- *)
Lemma quarters_ok d z0 z1 z2 z3 z4 z5 z6 q w : q <> 0%Z ->
  read_interval d (interval_sql d (MkIArgs z0 z1 z2 z3 z4 z5 z6 q w)) = Some (denote [z0; z1; z2; z3; z4; z5; z6] q w).
Proof.
  intro Hq. unfold denote, interval_sql, init. cbn [a_quarters a_weeks]. rewrite (eqb_nz _ Hq). cbn [negb]. cbv iota.
  unfold expr_unit. cbn [st_largest st_smallest st_negative st_quarters st_weeks st_vals]. comp_ostr. cbv iota.
  rewrite Z_to_str_sign by assumption.
  erewrite core_single; [reflexivity | left; apply absN_nz; exact Hq | reflexivity | vm_compute; reflexivity].
Qed.

Lemma weeks_ok d z0 z1 z2 z3 z4 z5 z6 w : w <> 0%Z ->
  read_interval d (interval_sql d (MkIArgs z0 z1 z2 z3 z4 z5 z6 0 w)) = Some (denote [z0; z1; z2; z3; z4; z5; z6] 0 w).
Proof.
  intro Hw. unfold denote, interval_sql, init. cbn [a_quarters a_weeks]. change (negb (0 =? 0)%Z) with false. cbv iota.
  rewrite (eqb_nz _ Hw). cbn [negb]. cbv iota.
  unfold expr_unit. cbn [st_largest st_smallest st_negative st_quarters st_weeks st_vals]. comp_ostr. cbv iota.
  rewrite Z_to_str_sign by assumption.
  erewrite core_single; [reflexivity | left; apply absN_nz; exact Hw | reflexivity | vm_compute; reflexivity].
Qed.

Theorem interval_roundtrip d a :
  read_interval d (interval_sql d a) = Some (denote (comps a) (a_quarters a) (a_weeks a)).
Proof.
  destruct a as [z0 z1 z2 z3 z4 z5 z6 q w]. unfold comps. cbn [a_years a_months a_days a_hours a_minutes a_seconds a_microseconds a_quarters a_weeks].
  destruct (Z.eq_dec q 0) as [->|Hq]; [|apply quarters_ok; assumption].
  destruct (Z.eq_dec w 0) as [->|Hw]; [|apply weeks_ok; assumption].
  apply components_ok.
Qed.

(* ---- the denotation keeps every component (specification-side sanity) ---- *)
Fixpoint lookup (i : nat) (l : list (nat * N)) : N :=
  match l with
  | [] => 0
  | (k, v) :: r => if Nat.eqb k i then v else lookup i r
  end.

Lemma lookup_label_from_lt i k vs : (i < k)%nat -> lookup i (label_from k vs) = 0.
Proof.
  revert k. induction vs as [|v vs IH]; intros k H; simpl; [reflexivity|].
  destruct (Nat.eqb_spec k i); [lia|]. apply IH. lia.
Qed.

Lemma lookup_label_from k vs i : lookup (k + i) (label_from k vs) = nth i vs 0.
Proof.
  revert k i. induction vs as [|v vs IH]; intros k i; simpl.
  - destruct i; reflexivity.
  - destruct i as [|i].
    + rewrite Nat.add_0_r, Nat.eqb_refl. reflexivity.
    + destruct (Nat.eqb_spec k (k + S i)); [lia|]. replace (k + S i)%nat with (S k + i)%nat by lia. apply IH.
Qed.

Lemma lookup_drop_lead0 i k vs : lookup i (drop_lead0 (label_from k vs)) = lookup i (label_from k vs).
Proof.
  revert k. induction vs as [|v vs IH]; intro k; [reflexivity|]. simpl.
  destruct (N.eqb_spec v 0) as [->|Hv]; [|reflexivity].
  rewrite IH. destruct (Nat.eqb_spec k i) as [->|]; [|reflexivity].
  apply lookup_label_from_lt. lia.
Qed.

Lemma lookup_drop_trail0 i l : lookup i (drop_trail0 l) = lookup i l.
Proof.
  induction l as [|[k v] l IH]; [reflexivity|]. simpl. destruct (drop_trail0 l) eqn:E.
  - simpl in IH. destruct (N.eqb_spec v 0) as [->|Hv]; simpl; rewrite <- IH; destruct (Nat.eqb k i); reflexivity.
  - rewrite <- IH. reflexivity.
Qed.

Definition ival_component (iv : ival) (i : nat) : N := match iv with IV _ fs => lookup i fs end.
Definition ival_neg (iv : ival) : bool := match iv with IV n _ => n end.

Lemma denote_components zs i :
  ival_component (denote zs 0 0) i = nth i (map Z.abs_N zs) 0.
Proof.
  unfold denote. change (negb (0 =? 0)%Z) with false. cbv iota.
  pose proof (lookup_drop_trail0 i (drop_lead0 (label_from 0 (map Z.abs_N zs)))) as H.
  rewrite lookup_drop_lead0 in H. rewrite (lookup_label_from 0 _ i) in H.
  destruct (drop_trail0 (drop_lead0 (label_from 0 (map Z.abs_N zs)))) eqn:E.
  - simpl in H. unfold ival_component, lookup. rewrite <- H.
    destruct (Nat.eqb 2 i); [|reflexivity]. reflexivity.
  - exact H.
Qed.

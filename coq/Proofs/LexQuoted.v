(* Proofs/LexQuoted.v — the quoted-token lemmas: a quote-doubled (and, for MySQL strings,
   backslash-doubled) text between two quote characters is read by the reference lexer as exactly
   one token whose decoded content is the original string — for ALL strings. *)
From PT Require Import Base.Str Model.Types Ref.Lexer.
From Coq Require Import Lia ZifyBool.
Open Scope N_scope.

Definition no_bs_issue (cfg : lexcfg) (k : qkind) (s : str) : Prop :=
  lc_bs cfg = false \/ k = KId \/ forallb (fun c => negb (c =? 92)) s = true.

Lemma no_bs_issue_tl cfg k c s : no_bs_issue cfg k (c :: s) -> no_bs_issue cfg k s.
Proof.
  intros [H|[H|H]]; [left|right; left|right; right]; try assumption.
  simpl in H. apply andb_true_iff in H. tauto.
Qed.

Lemma run_dbl_body cfg q k s acc out :
  no_bs_issue cfg k s ->
  run cfg (MQ q k acc, out) (dbl q s) = (MQ q k (rev s ++ acc), out).
Proof.
  revert acc. induction s as [|c s IH]; intros acc Hb; [reflexivity|].
  pose proof (no_bs_issue_tl _ _ _ _ Hb) as Hb'.
  cbn [dbl]. destruct (N.eqb_spec c q) as [->|Hc].
  - rewrite !run_cons. cbn [step]. rewrite N.eqb_refl. cbn [step]. rewrite N.eqb_refl.
    rewrite IH by assumption. cbn [rev]. rewrite <- app_assoc. reflexivity.
  - rewrite run_cons. cbn [step]. rewrite (proj2 (N.eqb_neq c q) Hc).
    assert (Hbs : (c =? 92) && lc_bs cfg && match k with KStr => true | KId => false end = false).
    { destruct Hb as [H|[H|H]].
      - rewrite H, andb_false_r. reflexivity.
      - subst k. rewrite andb_false_r. reflexivity.
      - simpl in H. apply andb_true_iff in H as [H _]. apply negb_true_iff in H. rewrite H. reflexivity. }
    rewrite Hbs, IH by assumption. cbn [rev]. rewrite <- app_assoc. reflexivity.
Qed.

(* MySQL strings: quotes doubled, then backslashes doubled *)
Lemma run_dbl_bs_body cfg q s acc out :
  lc_bs cfg = true -> q <> 92 ->
  run cfg (MQ q KStr acc, out) (dbl 92 (dbl q s)) = (MQ q KStr (rev s ++ acc), out).
Proof.
  intros Hbs Hq. revert acc. induction s as [|c s IH]; intro acc; [reflexivity|].
  cbn [dbl]. destruct (N.eqb_spec c q) as [->|Hc].
  - cbn [dbl]. rewrite (proj2 (N.eqb_neq q 92) Hq).
    rewrite !run_cons. cbn [step]. rewrite N.eqb_refl. cbn [step]. rewrite N.eqb_refl.
    rewrite IH. cbn [rev]. rewrite <- app_assoc. reflexivity.
  - cbn [dbl]. destruct (N.eqb_spec c 92) as [->|Hc2].
    + rewrite !run_cons. cbn [step]. rewrite (proj2 (N.eqb_neq 92 q)) by congruence.
      rewrite Hbs. cbn [N.eqb Pos.eqb andb step]. rewrite IH. cbn [rev]. rewrite <- app_assoc. reflexivity.
    + rewrite run_cons. cbn [step]. rewrite (proj2 (N.eqb_neq c q) Hc), (proj2 (N.eqb_neq c 92) Hc2).
      cbn [andb]. rewrite IH. cbn [rev]. rewrite <- app_assoc. reflexivity.
Qed.

(* which mode the opening quote enters *)
Definition opens (cfg : lexcfg) (q : char) : option qkind :=
  if q =? 39 then Some KStr
  else if q =? 34 then Some (if lc_dq_string cfg then KStr else KId)
  else if q =? 96 then (if lc_backtick cfg then Some KId else None)
  else None.

Lemma start_quote cfg out q k : opens cfg q = Some k -> start cfg out q = (MQ q k [], out).
Proof.
  unfold opens, start. intro H.
  destruct (N.eqb_spec q 39) as [->|H39]; [inversion H; reflexivity|].
  destruct (N.eqb_spec q 34) as [->|H34]; [inversion H; reflexivity|].
  destruct (N.eqb_spec q 96) as [->|H96]; [|discriminate].
  destruct (lc_backtick cfg); [inversion H; reflexivity|discriminate].
Qed.

(* KEYSTONE (generic quoting): q ++ double(q, s) ++ q is one token decoding to s *)
Theorem lex_quoted cfg q k s :
  opens cfg q = Some k -> no_bs_issue cfg k s ->
  lexc cfg (q :: dbl q s ++ [q]) = Some [mk_q k s].
Proof.
  intros Ho Hb. unfold lexc. rewrite run_cons. cbn [step]. rewrite (start_quote _ _ _ _ Ho).
  rewrite run_app, run_dbl_body by assumption. rewrite app_nil_r.
  rewrite run_cons. cbn [step run fold_left]. rewrite N.eqb_refl. cbn [flush rev app].
  rewrite rev_involutive. reflexivity.
Qed.

(* KEYSTONE (MySQL strings): q ++ double(\, double(q, s)) ++ q is one string token decoding to s *)
Theorem lex_quoted_mysql cfg q s :
  opens cfg q = Some KStr -> lc_bs cfg = true -> q <> 92 ->
  lexc cfg (q :: dbl 92 (dbl q s) ++ [q]) = Some [TStr s].
Proof.
  intros Ho Hbs Hq. unfold lexc. rewrite run_cons. cbn [step]. rewrite (start_quote _ _ _ _ Ho).
  rewrite run_app, run_dbl_bs_body by assumption. rewrite app_nil_r.
  rewrite run_cons. cbn [step run fold_left]. rewrite N.eqb_refl. cbn [flush rev app].
  rewrite rev_involutive. reflexivity.
Qed.

(* in context: whatever follows, as long as it does not begin with the quote itself, the token
   is closed and the rest is lexed from the token boundary *)
Lemma run_quoted_then cfg q k s out c rest :
  opens cfg q = Some k -> no_bs_issue cfg k s -> c <> q ->
  run cfg (MNorm, out) (q :: dbl q s ++ q :: c :: rest) = run cfg (start cfg (mk_q k s :: out) c) rest.
Proof.
  intros Ho Hb Hc. rewrite run_cons. cbn [step]. rewrite (start_quote _ _ _ _ Ho).
  rewrite run_app, run_dbl_body by assumption. rewrite app_nil_r.
  rewrite !run_cons. cbn [step]. rewrite N.eqb_refl. cbn [step]. rewrite (proj2 (N.eqb_neq c q) Hc).
  rewrite rev_involutive. reflexivity.
Qed.

(* without doubling, a name that contains the quote character is NOT read back as one token:
   this is what utils.format_quotes does today for identifiers (known finding C07-quote-in-name) *)
Lemma lex_undoubled_refuted :
  lexc (lexcfg_of SQLITE) (34 :: L "we" ++ [34] ++ L "ird" ++ [34]) <> Some [TQId (L "we" ++ [34] ++ L "ird")].
Proof. vm_compute. discriminate. Qed.

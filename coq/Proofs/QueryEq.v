(* Proofs/QueryEq.v — equations about Model.Render.render_query and its clause definitions (Section Q of Model/Render.v):
   the Fixpoint is q_render applied to the bundle of recursive renderers; the flags of the embedding position
   reach the text only through one pair of parentheses and one alias around the statement. *)
From PT Require Import Base.Str Model.Types Model.Value Model.Interval Model.Syntax
     Gen.Ctx Gen.Enums Gen.Prec Gen.Placeholders Model.Render.
Open Scope N_scope.

Definition the_rens : rens :=
  MkRens render_o render_ts render_obys render_rows render_upds render_cupds render_joins render_ctes render_gbys.

Lemma render_query_eq : forall c0 p q, render_query c0 p q = q_render the_rens q c0 p.
Proof. intros c0 p q. destruct q; reflexivity. Qed.

(* ------------------------------------------------------------------------------------------------ *)
(* the embedding flags: one pair of parentheses and one alias around the statement                    *)

Definition wrap (c : ctx) (q : query) (sq wa : bool) (s : str) : str := alias_if wa c (paren_if sq s) (q_alias q).

Lemma wrap_id c q s : wrap c q false false s = s.
Proof. reflexivity. Qed.

Definition then_wrap (c : ctx) (q : query) (sq wa : bool) (r : res (str * pz)) : res (str * pz) :=
  match r with Ok (s, p') => Ok (wrap c q sq wa s, p') | Exn e => Exn e end.

Ltac bind_step :=
  match goal with
  | |- context [match ?X with Ok _ => _ | Exn _ => _ end] =>
      match X with
      | context [match _ with Ok _ => _ | Exn _ => _ end] => fail 1
      | _ => destruct X as [[? ?]|?]; cbn [then_wrap]; try reflexivity
      end
  end.

Lemma tail_wrap R q c sq wa qs p : q_on_conflict q = false ->
  tail_with R q c sq wa qs p = then_wrap c q sq wa (tail_with R q c false false qs p).
Proof.
  intro H. unfold tail_with. rewrite H. cbv zeta.
  repeat bind_step.
Qed.

(* a statement that can stand in an embedding position: a SELECT, DELETE or INSERT .. SELECT without upsert part - with or without RETURNING *)
Definition selectable (q : query) : bool :=
  negb (has_upd q) && negb (q_on_conflict q) && negb (has_ins q && has_vals q).

Lemma generic_wrap R q c sq wa p : selectable q = true ->
  generic_with R q c sq wa p = then_wrap c q sq wa (generic_with R q c false false p).
Proof.
  unfold selectable. intro H.
  apply andb_prop in H; destruct H as [H Hiv].
  apply andb_prop in H; destruct H as [Hupd Hoc].
  apply negb_true_iff in Hupd, Hoc, Hiv.
  unfold generic_with. rewrite Hupd. cbv zeta.
  destruct (q_delete_from q); [apply tail_wrap; exact Hoc|].
  destruct (negb (q_select_into q) && has_ins q) eqn:E.
  - apply andb_prop in E; destruct E as [_ Hins]. rewrite Hins in Hiv. cbn [andb] in Hiv. rewrite Hiv.
    repeat bind_step. all: apply tail_wrap; exact Hoc.
  - repeat bind_step. all: apply tail_wrap; exact Hoc.
Qed.

Lemma main_wrap R q c0 c0' c sq wa p : selectable q = true ->
  main_with R q c0 c sq wa p = then_wrap c q sq wa (main_with R q c0' c false false p).
Proof.
  intro Hs. pose proof Hs as H. unfold selectable in H.
  apply andb_prop in H; destruct H as [H Hiv].
  apply andb_prop in H; destruct H as [Hupd Hoc].
  apply negb_true_iff in Hupd, Hoc, Hiv.
  unfold main_with, returning. rewrite Hupd.
  destruct (q_returns q) as [|r0 rs] eqn:Er; cbn [is_nonempty_terms]; cbv zeta.
  - rewrite !(generic_wrap R q c sq wa p Hs).
    destruct (generic_with R q c false false p) as [[s p']|e]; cbn [then_wrap]; destruct (q_cls q); try reflexivity.
    all: destruct s; cbn [then_wrap]; try reflexivity.
    all: match goal with |- context [match ?X with [] => _ | _ :: _ => _ end] => destruct X end; reflexivity.
  - destruct (q_cls q) eqn:Ec.
    all: try (rewrite !(generic_wrap R q c sq wa p Hs); destruct (generic_with R q c false false p) as [[s p']|e]; cbn [then_wrap]; try reflexivity;
              destruct s; cbn [then_wrap]; try reflexivity;
              match goal with |- context [match ?X with [] => _ | _ :: _ => _ end] => destruct X end; reflexivity).
    destruct (generic_with R q c false false p) as [[s p']|e]; cbn [then_wrap]; [|reflexivity].
    repeat bind_step.
Qed.

(* ------------------------------------------------------------------------------------------------ *)
(* embedded = stand-alone, wrapped                                                                    *)

(* the context of a stand-alone rendering under the same dialect conventions: the four flags of an embedding position off *)
Definition standalone (c : ctx) : ctx :=
  set_with_namespace false (set_subquery false (set_with_alias false (set_subcriterion false c))).

(* q_render's guard: the builder has a statement to render *)
Definition complete (q : query) : bool :=
  negb (negb (has_sel q || has_ins q || q_delete_from q || has_upd q)
        || (has_ins q && negb (has_sel q || has_vals q))
        || (has_upd q && negb (has_updates q))).

Definition embed (c0 : ctx) (q : query) (s : str) : str :=
  wrap (clause_ctx q (adjust_ctx q c0)) q (subquery c0) (with_alias c0) s.

Lemma clause_ctx_conventions_only : forall (q : query) (c0 c0' : ctx),
  quote_char c0 = quote_char c0' -> secondary_quote_char c0 = secondary_quote_char c0' -> alias_quote_char c0 = alias_quote_char c0' ->
  dialect c0 = dialect c0' -> as_keyword c0 = as_keyword c0' -> groupby_alias c0 = groupby_alias c0' -> orderby_alias c0 = orderby_alias c0' ->
  clause_ctx q (adjust_ctx q c0) = clause_ctx q (adjust_ctx q c0').
Proof.
  intros q [a1 a2 a3 a4 a5 a6 a7 a8 a9 a10 a11] [b1 b2 b3 b4 b5 b6 b7 b8 b9 b10 b11]; cbn; intros; subst.
  unfold clause_ctx, adjust_ctx. destruct (q_cls q); reflexivity.
Qed.

Lemma clause_ctx_standalone q c0 : clause_ctx q (adjust_ctx q (standalone c0)) = clause_ctx q (adjust_ctx q c0).
Proof. apply clause_ctx_conventions_only; destruct c0; reflexivity. Qed.

Lemma adjust_flags q c0 : subquery (adjust_ctx q c0) = subquery c0 /\ with_alias (adjust_ctx q c0) = with_alias c0.
Proof. unfold adjust_ctx; destruct (q_cls q), c0; split; reflexivity. Qed.

Lemma embedded_is_standalone : forall (c0 : ctx) (p : pz) (q : query),
  selectable q = true ->
  render_query c0 p q =
    match render_query (standalone c0) p q with
    | Ok (s, p') => Ok ((if complete q then embed c0 q s else s), p')
    | Exn e => Exn e
    end.
Proof.
  intros c0 p q Hs. rewrite !render_query_eq. unfold q_render, complete.
  destruct (negb (has_sel q || has_ins q || q_delete_from q || has_upd q)); [reflexivity|].
  destruct (has_ins q && negb (has_sel q || has_vals q)); [reflexivity|].
  destruct (has_upd q && negb (has_updates q)); [reflexivity|].
  cbv zeta. cbn [orb negb].
  rewrite clause_ctx_standalone.
  destruct (adjust_flags q c0) as [-> ->]. destruct (adjust_flags q (standalone c0)) as [-> ->].
  replace (subquery (standalone c0)) with false by (destruct c0; reflexivity).
  replace (with_alias (standalone c0)) with false by (destruct c0; reflexivity).
  rewrite (main_wrap the_rens q (adjust_ctx q c0) (adjust_ctx q (standalone c0)) _ (subquery c0) (with_alias c0) p Hs).
  unfold then_wrap, embed. reflexivity.
Qed.

(* ------------------------------------------------------------------------------------------------ *)
(* set operations                                                                                     *)

Lemma render_setop_eq : forall c p base ops obs lim off alias,
  render c p (TSetOp base ops obs lim off alias) = setop_render render_query render_sops render_obys render_o c p base ops obs lim off alias.
Proof. reflexivity. Qed.

Lemma setop_ctx_standalone c : setop_ctx (standalone c) = setop_ctx c.
Proof. destruct c as [a1 a2 a3 d a5 a6 a7 a8 a9 a10 a11]. unfold setop_ctx, standalone; cbn. destruct d; reflexivity. Qed.

Lemma setop_embedded_is_standalone : forall (c0 : ctx) (p : pz) base ops obs lim off alias,
  render c0 p (TSetOp base ops obs lim off alias) =
    match render (standalone c0) p (TSetOp base ops obs lim off alias) with
    | Ok (s, p') => Ok (alias_if (with_alias c0) (setop_ctx c0) (paren_if (subquery c0) s) alias, p')
    | Exn e => Exn e
    end.
Proof.
  intros. rewrite !render_setop_eq. unfold setop_render. cbv zeta. rewrite setop_ctx_standalone.
  replace (subquery (standalone c0)) with false by (destruct c0; reflexivity).
  replace (with_alias (standalone c0)) with false by (destruct c0; reflexivity).
  destruct (setop_body _ _ _ _ _ _ _ _ _ _ _) as [[s p5]|e]; reflexivity.
Qed.

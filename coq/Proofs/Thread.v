(* Proofs/Thread.v — the parameterizer is threaded: every renderer of Model.Render only APPENDS to the list of values
   (and never changes the placeholder factory), for all terms, statements, contexts and parameterizer states; in inline
   mode (no parameterizer) it stays absent.  By mutual induction over the 16 sorts; the statement case goes through the
   clause definitions of Section Q (Model/Render.v) with the recursive renderers abstract. *)
From PT Require Import Base.Str Model.Types Model.Value Model.Interval Model.Syntax Gen.Ctx Gen.Enums Gen.Prec Gen.Placeholders
     Model.Render Proofs.Thr Proofs.QueryEq.
Open Scope N_scope.

Ltac inv1 H :=
  match type of H with
  | Ok _ = Ok _ => inversion H; subst; clear H
  | Exn _ = Ok _ => discriminate H
  | (match ?X with Ok _ => _ | Exn _ => _ end) = Ok _ =>
      let E := fresh "E" in destruct X as [[? ?]|?] eqn:E; [|discriminate H]
  | (let '(_, _) := ?X in _) = Ok _ => let E := fresh "C" in destruct X eqn:E
  | (if ?b then _ else _) = Ok _ => destruct b eqn:?
  | (match ?X with _ => _ end) = Ok _ => destruct X eqn:?
  end.
Ltac inv H := repeat (inv1 H).
Ltac inv_all :=
  repeat match goal with
  | E : ?T |- _ =>
      match T with
      | Ok _ = Ok _ => inv1 E
      | Exn _ = Ok _ => inv1 E
      | (match _ with Ok _ => _ | Exn _ => _ end) = Ok _ => inv1 E
      | (let '(_, _) := _ in _) = Ok _ => inv1 E
      | (if _ then _ else _) = Ok _ => inv1 E
      | (match _ with _ => _ end) = Ok _ => inv1 E
      end
  end.

Ltac conv :=
  repeat match goal with
  | E : _ = Ok (_, _) |- _ =>
     match goal with
     | IH : forall c, WT _ |- _ => apply (IH _ _ _ _) in E
     | IH : forall c sel b, WT _ |- _ => apply (IH _ _ _ _ _ _) in E
     | IH : forall cf cv, WT _ |- _ => apply (IH _ _ _ _ _) in E
     | IH : forall cf cv mq, WT _ |- _ => apply (IH _ _ _ _ _ _) in E
     | IH : forall c n, WT _ |- _ => apply (IH _ _ _ _ _) in E
     end
  end.
Ltac chain := solve [apply thr_refl | eassumption | eapply thr_trans; [eassumption| chain] ].
Ltac params :=
  repeat match goal with
  | C : create_param ?c ?z ?v = (_, ?z') |- _ =>
      let T := fresh "T" in pose proof (wt_create c z v) as T; rewrite C in T; cbn [snd] in T; clear C
  end.
Lemma from_o t : (forall c, WT (fun p => render_o c p (SomeT t))) -> forall c, WT (fun p => render c p t).
Proof. intros H c p s p' E. apply (H c p (Some s) p'). cbn [render_o]. rewrite E. reflexivity. Qed.
Ltac unwrap_o :=
  repeat match goal with
  | IH : forall c, WT (fun p => render_o c p (SomeT ?t)) |- _ => pose proof (from_o t IH); clear IH
  end.
Ltac fin := unwrap_o; conv; params; chain.

Ltac leaf :=
  first
  [ eassumption
  | match goal with
    | IH : forall c, WT (fun p => render_o c p (SomeT ?t)) |- WT (fun p => render _ p ?t) => apply (from_o t IH)
    | IH : _ |- _ => apply IH
    end ].

Ltac wtg :=
  lazymatch goal with
  | |- WT (fun p => Ok (_, p)) => apply wt_ret
  | |- WT (fun p => Exn _) => apply wt_exn
  | |- WT (fun p => match _ with Ok _ => _ | Exn _ => Exn _ end) => apply wt_bind; [wtg | intro; wtg]
  | |- WT (fun p => if ?b then _ else _) => destruct b; wtg
  | |- WT (fun p => let '(_, _) := ?x in _) => destruct x; wtg
  | |- WT (fun p => match ?x with _ => _ end) => destruct x; wtg
  | |- _ => first [ leaf | progress cbn [render_o]; wtg ]
  end.

(* ------------------------------------------------------------------------------------------------ *)
(* a statement: the clauses thread the parameterizer if the renderers do so on the statement's fields  *)
Section QueryThread.
Variable R : rens.
Variable q : query.
Hypothesis Hfrom : forall c, WT (fun p => r_ts R c p (q_from q)).
Hypothesis Hselects : forall c, WT (fun p => r_ts R c p (q_selects q)).
Hypothesis Hforce : forall c, WT (fun p => r_ts R c p (q_force_idx q)).
Hypothesis Huse : forall c, WT (fun p => r_ts R c p (q_use_idx q)).
Hypothesis Hcolumns : forall c, WT (fun p => r_ts R c p (q_columns q)).
Hypothesis Hcfields : forall c, WT (fun p => r_ts R c p (q_conflict_fields q)).
Hypothesis Hreturns : forall c, WT (fun p => r_ts R c p (q_returns q)).
Hypothesis Hdistinct_on : forall c, WT (fun p => r_ts R c p (q_distinct_on q)).
Hypothesis Hwheres : forall c, WT (fun p => r_o R c p (q_wheres q)).
Hypothesis Hprewheres : forall c, WT (fun p => r_o R c p (q_prewheres q)).
Hypothesis Hhavings : forall c, WT (fun p => r_o R c p (q_havings q)).
Hypothesis Hlim : forall c, WT (fun p => r_o R c p (q_lim q)).
Hypothesis Hoff : forall c, WT (fun p => r_o R c p (q_off q)).
Hypothesis Hinsert_table : forall c, WT (fun p => r_o R c p (q_insert_table q)).
Hypothesis Hupdate_table : forall c, WT (fun p => r_o R c p (q_update_table q)).
Hypothesis Hcwheres : forall c, WT (fun p => r_o R c p (q_conflict_wheres q)).
Hypothesis Hcuwheres : forall c, WT (fun p => r_o R c p (q_conflict_update_wheres q)).
Hypothesis Horderbys : forall c sel b, WT (fun p => r_obys R c sel b p (q_orderbys q)).
Hypothesis Hvalues : forall c, WT (fun p => r_rows R c p (q_values q)).
Hypothesis Hupdates : forall cf cv, WT (fun p => r_upds R cf cv p (q_updates q)).
Hypothesis Hcupdates : forall cf cv mq, WT (fun p => r_cupds R cf cv mq p (q_conflict_updates q)).
Hypothesis Hjoins : forall c, WT (fun p => r_joins R c p (q_joins_ q)).
Hypothesis Hwiths : forall c, WT (fun p => r_ctes R c p (q_withs q)).
Hypothesis Hgroupbys : forall c, WT (fun p => r_gbys R c p (q_groupbys q)).
(* the temporal clauses of the UPDATE target, rendered on their own by the PostgreSQL / SQLite UPDATE .. FROM form *)
Hypothesis Hupd_parts : match q_update_table q with
                        | SomeT (TTable _ f fp) => (forall c, WT (fun p => r_o R c p f)) /\ (forall c, WT (fun p => r_o R c p fp))
                        | _ => True
                        end.

Ltac go := cbv zeta; wtg.

Lemma with_sql_wt c : WT (with_sql R q c).                 Proof. unfold with_sql. go. Qed.
Lemma distinct_sql_wt c : WT (distinct_sql R q c).         Proof. unfold distinct_sql. go. Qed.
Lemma select_sql_wt c : WT (select_sql R q c).
Proof. pose proof distinct_sql_wt. unfold select_sql. go. Qed.
Lemma from_sql_wt c : WT (from_sql R q c).                 Proof. unfold from_sql, from_list_sql. go. Qed.
Lemma joins_sql_wt c : WT (joins_sql R q c).               Proof. unfold joins_sql. go. Qed.
Lemma where_sql_wt c : WT (where_sql R q c).               Proof. unfold where_sql. go. Qed.
Lemma prewhere_sql_wt c : WT (prewhere_sql R q c).         Proof. unfold prewhere_sql. go. Qed.
Lemma set_sql_wt c : WT (set_sql R q c).                   Proof. unfold set_sql. go. Qed.
Lemma orderby_sql_c_wt cc : WT (orderby_sql_c R q cc).     Proof. unfold orderby_sql_c. go. Qed.
Lemma orderby_sql_wt c : WT (orderby_sql R q c).           Proof. unfold orderby_sql. apply orderby_sql_c_wt. Qed.
Lemma limit_kw_sql_c_wt cc : WT (limit_kw_sql_c R q cc).   Proof. unfold limit_kw_sql_c. go. Qed.
Lemma limit_kw_sql_wt c : WT (limit_kw_sql R q c).         Proof. unfold limit_kw_sql. apply limit_kw_sql_c_wt. Qed.
Lemma offset_kw_sql_wt c : WT (offset_kw_sql R q c).       Proof. unfold offset_kw_sql. go. Qed.
Lemma pagination_wt c : WT (pagination R q c).
Proof. pose proof offset_kw_sql_wt. pose proof limit_kw_sql_wt. unfold pagination. go. Qed.
Lemma table_sql_ins_wt cc : WT (fun p => table_sql R cc p (q_insert_table q)).  Proof. unfold table_sql. go. Qed.
Lemma table_sql_upd_wt cc : WT (fun p => table_sql R cc p (q_update_table q)).  Proof. unfold table_sql. go. Qed.
Lemma on_conflict_sql_wt c : WT (on_conflict_sql R q c).   Proof. unfold on_conflict_sql. go. Qed.
Lemma on_conflict_action_sql_wt c : WT (on_conflict_action_sql R q c).  Proof. unfold on_conflict_action_sql. go. Qed.
Lemma generic_update_wt c : WT (generic_update R q c).
Proof.
  pose proof with_sql_wt. pose proof table_sql_upd_wt. pose proof joins_sql_wt. pose proof set_sql_wt. pose proof from_sql_wt. pose proof where_sql_wt.
  unfold generic_update. go.
Qed.
Lemma pg_sqlite_update_wt c : WT (pg_sqlite_update R q c).
Proof.
  pose proof with_sql_wt. pose proof table_sql_upd_wt. pose proof joins_sql_wt. pose proof set_sql_wt. pose proof from_sql_wt. pose proof where_sql_wt.
  pose proof orderby_sql_wt. pose proof limit_kw_sql_wt.
  unfold pg_sqlite_update. cbv zeta.
  destruct (q_update_table q) as [|[]]; try (destruct Hupd_parts); wtg.
Qed.
Lemma tail_with_wt c sq wa qs : WT (tail_with R q c sq wa qs).
Proof.
  pose proof from_sql_wt. pose proof joins_sql_wt. pose proof prewhere_sql_wt. pose proof where_sql_wt. pose proof orderby_sql_wt. pose proof pagination_wt.
  pose proof on_conflict_sql_wt. pose proof on_conflict_action_sql_wt.
  unfold tail_with. go.
Qed.
Lemma generic_with_wt c sq wa : WT (generic_with R q c sq wa).
Proof.
  pose proof generic_update_wt. pose proof tail_with_wt. pose proof with_sql_wt. pose proof table_sql_ins_wt. pose proof select_sql_wt.
  pose proof on_conflict_sql_wt. pose proof on_conflict_action_sql_wt.
  unfold generic_with. go.
Qed.
Lemma returning_wt c qs : WT (returning R q c qs).         Proof. unfold returning. go. Qed.
Lemma main_with_wt c0 c sq wa : WT (main_with R q c0 c sq wa).
Proof.
  pose proof pg_sqlite_update_wt. pose proof generic_with_wt. pose proof returning_wt. pose proof orderby_sql_c_wt. pose proof limit_kw_sql_c_wt.
  unfold main_with. go.
Qed.
Lemma q_render_wt c00 : WT (q_render R q c00).
Proof. pose proof main_with_wt. unfold q_render. go. Qed.

End QueryThread.

(* ------------------------------------------------------------------------------------------------ *)
(* all sorts, by mutual induction                                                                     *)

(* what the UPDATE .. FROM form needs of a table term: its temporal clauses are rendered on their own *)
Definition sub_ok (t : term) : Prop :=
  match t with
  | TTable _ f fp => (forall c, WT (fun p => render_o c p f)) /\ (forall c, WT (fun p => render_o c p fp))
  | _ => True
  end.
Definition P_term (t : term) := (forall c, WT (fun p => render c p t)) /\ sub_ok t.
Definition P_oterm (o : oterm) := (forall c, WT (fun p => render_o c p o)) /\ match o with SomeT t => sub_ok t | NoT => True end.
Definition P_terms (l : terms) := forall c, WT (fun p => render_ts c p l).
Definition P_cases (l : cases) := forall c, WT (fun p => render_cases c p l).
Definition P_obys (l : obys) := forall c sel b, WT (fun p => render_obys c sel b p l).
Definition P_gbys (l : gbys) := forall c, WT (fun p => render_gbys c p l).
Definition P_oover (o : oover) := forall c, WT (fun p => render_over c p o).
Definition P_rows (l : rows) := forall c, WT (fun p => render_rows c p l).
Definition P_upds (l : upds) := forall cf cv, WT (fun p => render_upds cf cv p l).
Definition P_cupds (l : cupds) := forall cf cv mq, WT (fun p => render_cupds cf cv mq p l).
Definition P_joinc (j : joinc) := forall c, WT (fun p => render_join c p j).
Definition P_joins (l : joins) := forall c, WT (fun p => render_joins c p l).
Definition P_sops (l : sops) := forall c n, WT (fun p => render_sops c n p l).
Definition P_ctes (l : ctes) := forall c, WT (fun p => render_ctes c p l).
Definition P_cols (l : cols) := forall c, WT (fun p => render_cols c p l).
Definition P_query (q : query) := forall c, WT (fun p => render_query c p q).
Definition P_qflags (f : qflags) := True.

Ltac start := unfold P_term, P_oterm, P_terms, P_cases, P_obys, P_gbys, P_oover, P_rows, P_upds, P_cupds, P_joinc, P_joins, P_sops, P_ctes, P_cols, P_query, P_qflags in *;
  intros; repeat match goal with H : _ /\ _ |- _ => destruct H end.

Ltac one :=
  match goal with
  | |- WT _ => let H := fresh "HR" in
       unfold WT; intros ? ? ? H;
       cbn [render render_o render_ts render_cases render_obys render_gbys render_over render_rows render_upds render_cupds render_join render_joins render_sops render_ctes render_cols] in H;
       try rewrite render_setop_eq in H; unfold setop_render, setop_body in H;
       inv H; inv_all; unwrap_o; cbn [render_o] in *; inv_all; fin
  end.

Theorem thread_all : forall t, P_term t.
Proof.
  apply (term_mut P_term P_oterm P_terms P_cases P_obys P_gbys P_oover P_rows P_upds P_cupds P_joinc P_joins P_sops P_ctes P_cols P_query P_qflags);
    start; try exact I.
  all: try (split; [intro; one | first [exact I | assumption | split; assumption]]).
  all: try (intros; one).
  { split; [|exact I]. intros c p s p' HR. cbn [render] in HR.
    destruct hasterm; [|destruct p as [z|]]; inv HR; inv_all; fin. }
  apply (wt_ext _ (q_render the_rens (MkQ cls fl from withs selects force_idx use_idx columns values wheres prewheres havings groupbys orderbys joins_ lim off
        updates insert_table update_table conflict_fields conflict_updates conflict_wheres conflict_update_wheres returns distinct_on) c)); [intro; apply render_query_eq|].
  apply q_render_wt; try (cbn; assumption).
Qed.

Corollary thread_term : forall t c p s p', render c p t = Ok (s, p') -> thr p p'.
Proof. intros t c p s p' H. exact (proj1 (thread_all t) c p s p' H). Qed.

Theorem thread_query : forall q c p s p', render_query c p q = Ok (s, p') -> thr p p'.
Proof. intros q c p s p' H. apply (thread_term (TQuery q) c p s p'). cbn [render]. exact H. Qed.

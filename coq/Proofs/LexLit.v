(* Proofs/LexLit.v — literals and identifiers as the library prints them (Model.Value) are read
   back by the reference lexer (Ref.Lexer) as ONE token decoding to the original — for all
   strings, all integers, in every dialect; and the context-independence of a quoted token. *)
From PT Require Import Base.Str Model.Types Model.Value Ref.Lexer Proofs.LexQuoted.
From Coq Require Import Lia ZifyBool.
Open Scope N_scope.

(* ---------- quoting as the library does it ---------- *)

Lemma fquote_single q s : fquote [q] s = q :: dbl q s ++ [q].
Proof. reflexivity. Qed.

(* the three quote characters the library ever uses *)
Definition lib_quote (q : char) : Prop := q = 39 \/ q = 34 \/ q = 96.

Lemma dbl_bs_no_issue_id cfg s : no_bs_issue cfg KId s.
Proof. right; left; reflexivity. Qed.

(* KEYSTONE C07: any name, quoted by format_quotes with a quote character that opens an identifier in
   the dialect, is exactly one identifier token denoting exactly that name *)
Theorem ident_roundtrip cfg q name :
  opens cfg q = Some KId -> lexc cfg (fquote [q] name) = Some [TQId name].
Proof.
  intro Ho. rewrite fquote_single. apply (lex_quoted cfg q KId name Ho). apply dbl_bs_no_issue_id.
Qed.

(* KEYSTONE C05 (strings, no backslash escapes in the dialect) *)
Theorem string_roundtrip cfg s :
  lc_bs cfg = false -> lexc cfg (fquote [39] s) = Some [TStr s].
Proof.
  intro Hb. rewrite fquote_single. apply (lex_quoted cfg 39 KStr s); [reflexivity|left; exact Hb].
Qed.

(* dbl commutes: doubling backslashes then quotes = doubling quotes then backslashes (different characters) *)
Lemma dbl_comm a b s : a <> b -> dbl a (dbl b s) = dbl b (dbl a s).
Proof.
  intro Hab. assert (Hab1 : (a =? b) = false) by (apply N.eqb_neq; congruence).
  assert (Hba1 : (b =? a) = false) by (apply N.eqb_neq; congruence).
  induction s as [|c s IH]; [reflexivity|].
  cbn [dbl]. destruct (N.eqb_spec c b) as [Hcb|Hcb]; destruct (N.eqb_spec c a) as [Hca|Hca].
  - congruence.
  - subst c. cbn [dbl]. rewrite ?Hba1, ?N.eqb_refl. cbn [dbl]. rewrite ?Hba1, ?N.eqb_refl. congruence.
  - subst c. cbn [dbl]. rewrite ?Hab1, ?N.eqb_refl. cbn [dbl]. rewrite ?Hab1, ?N.eqb_refl. congruence.
  - cbn [dbl]. rewrite (proj2 (N.eqb_neq _ _) Hcb), (proj2 (N.eqb_neq _ _) Hca). congruence.
Qed.

(* KEYSTONE C05 (MySQL: backslashes doubled by the value path, quotes doubled by format_quotes) *)
Theorem string_roundtrip_mysql cfg s :
  lc_bs cfg = true -> lexc cfg (fquote [39] (dbl 92 s)) = Some [TStr s].
Proof.
  intro Hb. rewrite fquote_single. rewrite (dbl_comm 39 92) by lia.
  apply (lex_quoted_mysql cfg 39 s); [reflexivity|exact Hb|lia].
Qed.

(* ---------- numbers ---------- *)

Lemma run_digits cfg acc out s :
  all_digits s = true -> run cfg (MNum NInt acc, out) s = (MNum NInt (rev s ++ acc), out).
Proof.
  revert acc. induction s as [|c s IH]; intros acc H; [reflexivity|].
  simpl in H. apply andb_true_iff in H as [Hc Hs].
  rewrite run_cons. cbn [step]. rewrite Hc. rewrite IH by assumption. cbn [rev]. rewrite <- app_assoc. reflexivity.
Qed.

Lemma lex_digits cfg c s : is_digit c = true -> all_digits s = true -> lexc cfg (c :: s) = Some [TNum (c :: s)].
Proof.
  intros Hc Hs. unfold lexc. rewrite run_cons. cbn [step].
  assert (Hst : start cfg [] c = (MNum NInt [c], [])).
  { unfold start. assert (is_space c = false) by (unfold is_space, is_digit in *; lia).
    assert (c =? 39 = false) by (unfold is_digit in *; lia). assert (c =? 34 = false) by (unfold is_digit in *; lia).
    assert (c =? 96 = false) by (unfold is_digit in *; lia). rewrite H, H0, H1, H2, Hc. reflexivity. }
  rewrite Hst, run_digits by assumption. cbn [flush rev app]. rewrite rev_app_distr, rev_involutive. reflexivity.
Qed.

Lemma N_to_str_cons n : exists c r, N_to_str n = c :: r /\ is_digit c = true /\ all_digits r = true.
Proof.
  pose proof (N_to_str_digits n) as Hd. pose proof (N_to_str_nonnil n) as Hn.
  destruct (N_to_str n) as [|c r]; [congruence|]. simpl in Hd. apply andb_true_iff in Hd as [H1 H2]. eauto.
Qed.

(* KEYSTONE C05 (integers): a non-negative integer is one numeric token spelling it in decimal *)
Theorem nat_roundtrip cfg n : lexc cfg (N_to_str n) = Some [TNum (N_to_str n)] /\ read_dec (N_to_str n) = Some n.
Proof.
  destruct (N_to_str_cons n) as (c & r & E & Hc & Hr). split; [|apply read_dec_N_to_str].
  rewrite E. apply lex_digits; assumption.
Qed.

Lemma start_minus cfg out : start cfg out 45 = (MOp [45], out).
Proof. unfold start. cbn. destruct (lc_qmark cfg), (lc_pct_s cfg), (lc_dollar cfg), (lc_hash cfg); reflexivity. Qed.

Lemma step_op_digit cfg out c : is_digit c = true -> step cfg (MOp [45], out) c = (MNum NInt [c], TOp [45] :: out).
Proof.
  intro Hc. cbn [step].
  assert (Ho : is_opchar c = false).
  { unfold is_opchar, is_digit in *. cbn [existsb]. lia. }
  rewrite Ho. cbn [andb]. unfold start.
  assert (is_space c = false) by (unfold is_space, is_digit in *; lia).
  assert (c =? 39 = false) by (unfold is_digit in *; lia). assert (c =? 34 = false) by (unfold is_digit in *; lia).
  assert (c =? 96 = false) by (unfold is_digit in *; lia). rewrite H, H0, H1, H2, Hc. reflexivity.
Qed.

(* a negative integer is a minus sign followed by the numeric token of its magnitude *)
Theorem neg_roundtrip cfg p :
  lexc cfg (Z_to_str (Zneg p)) = Some [TOp [45]; TNum (N_to_str (Npos p))].
Proof.
  cbn [Z_to_str]. destruct (N_to_str_cons (Npos p)) as (c & r & E & Hc & Hr). rewrite E.
  unfold lexc. rewrite run_cons. cbn [step]. rewrite start_minus. rewrite run_cons, step_op_digit by assumption.
  rewrite run_digits by assumption. cbn [flush rev app]. rewrite rev_app_distr, rev_involutive. reflexivity.
Qed.

(* ---------- a quoted token does not depend on what surrounds it ---------- *)

(* lexer states in which the next character starts a fresh token (after flushing the pending one) *)
Definition pending (st : mode * list ltok) : option (list ltok) :=
  let '(m, out) := st in
  match m with
  | MNorm => Some out
  | MWord acc => Some (TWord (rev acc) :: out)
  | MNum NInt acc | MNum NFrac acc | MNum NExp acc => Some (TNum (rev acc) :: out)
  | MOp acc => Some (TOp acc :: out)
  | _ => None
  end.

Lemma step_opens_quote cfg st q k out' :
  pending st = Some out' -> opens cfg q = Some k -> step cfg st q = (MQ q k [], out').
Proof.
  intros Hp Ho. destruct st as [m out].
  assert (Hq : lib_quote q).
  { unfold opens in Ho. unfold lib_quote.
    destruct (N.eqb_spec q 39); [tauto|]. destruct (N.eqb_spec q 34); [tauto|]. destruct (N.eqb_spec q 96); [tauto|discriminate]. }
  assert (Hw : is_word q = false) by (destruct Hq as [ -> | [ -> | -> ] ]; reflexivity).
  assert (Hd : is_digit q = false) by (destruct Hq as [ -> | [ -> | -> ] ]; reflexivity).
  assert (Hdot : (q =? 46) = false) by (destruct Hq as [ -> | [ -> | -> ] ]; reflexivity).
  assert (He : is_e q = false) by (destruct Hq as [ -> | [ -> | -> ] ]; reflexivity).
  assert (Hop : is_opchar q = false) by (destruct Hq as [ -> | [ -> | -> ] ]; reflexivity).
  destruct m; cbn [pending] in Hp; try discriminate.
  - inversion Hp; subst. cbn [step]. apply start_quote; assumption.
  - inversion Hp; subst. cbn [step]. rewrite Hw. apply start_quote; assumption.
  - destruct st; inversion Hp; subst; cbn [step]; rewrite ?Hd, ?Hdot, ?He; apply start_quote; assumption.
  - inversion Hp; subst. cbn [step]. rewrite Hop. cbn [andb]. apply start_quote; assumption.
Qed.

(* CONTEXT INDEPENDENCE: whatever precedes (as long as the lexer is not inside a quoted token or a comment)
   and whatever follows (as long as it does not begin with the quote character itself), the quoted text is
   read as exactly one token decoding to s, and lexing continues from a token boundary *)
Theorem quoted_in_context cfg st out' q k s c rest :
  pending st = Some out' -> opens cfg q = Some k -> no_bs_issue cfg k s -> c <> q ->
  run cfg st (fquote [q] s ++ c :: rest) = run cfg (start cfg (mk_q k s :: out') c) rest.
Proof.
  intros Hp Ho Hb Hc. rewrite fquote_single. cbn [app]. rewrite run_cons, (step_opens_quote _ _ _ _ _ Hp Ho).
  rewrite <- app_assoc. rewrite run_app, run_dbl_body by assumption. rewrite app_nil_r.
  cbn [app]. rewrite !run_cons. cbn [step]. rewrite N.eqb_refl. cbn [step]. rewrite (proj2 (N.eqb_neq c q) Hc).
  rewrite rev_involutive. reflexivity.
Qed.

(* and at the end of the text *)
Theorem quoted_at_end cfg st out' q k s :
  pending st = Some out' -> opens cfg q = Some k -> no_bs_issue cfg k s ->
  flush (run cfg st (fquote [q] s)) = Some (rev (mk_q k s :: out')).
Proof.
  intros Hp Ho Hb. rewrite fquote_single. rewrite run_cons, (step_opens_quote _ _ _ _ _ Hp Ho).
  rewrite run_app, run_dbl_body by assumption. rewrite app_nil_r.
  rewrite run_cons. cbn [step run fold_left]. rewrite N.eqb_refl. cbn [flush]. rewrite rev_involutive. reflexivity.
Qed.

(* ---------- JSON strings: json.dumps(s, ensure_ascii=False) decodes back to s ---------- *)

(* reference decoder of a JSON string body (RFC 8259 escapes) as a fold over characters *)
Inductive jmode := JN | JEsc | JU (k : nat) (acc : N) | JErr.
Definition hexval (c : char) : option N :=
  if is_digit c then Some (c - 48) else if (97 <=? c) && (c <=? 102) then Some (c - 87) else None.
Definition jstep (st : jmode * str) (c : char) : jmode * str :=
  let '(m, out) := st in
  match m with
  | JErr => (JErr, out)
  | JN => if c =? 92 then (JEsc, out) else if (c =? 34) || (c <? 32) then (JErr, out) else (JN, c :: out)
  | JEsc =>
      if c =? 34 then (JN, 34 :: out) else if c =? 92 then (JN, 92 :: out) else if c =? 47 then (JN, 47 :: out)
      else if c =? 110 then (JN, 10 :: out) else if c =? 114 then (JN, 13 :: out) else if c =? 116 then (JN, 9 :: out)
      else if c =? 98 then (JN, 8 :: out) else if c =? 102 then (JN, 12 :: out)
      else if c =? 117 then (JU 4 0, out) else (JErr, out)
  | JU k acc =>
      match hexval c with
      | Some v => match k with
                  | 1%nat => (JN, acc * 16 + v :: out)
                  | S k' => (JU k' (acc * 16 + v), out)
                  | O => (JErr, out)
                  end
      | None => (JErr, out)
      end
  end.
Definition jrun (st : jmode * str) (s : str) : jmode * str := fold_left jstep s st.
Definition json_body_decode (s : str) : option str :=
  match jrun (JN, []) s with (JN, out) => Some (rev out) | _ => None end.

Lemma jrun_app st a b : jrun st (a ++ b) = jrun (jrun st a) b.
Proof. apply fold_left_app. Qed.

Lemma hexdig_val n : n < 16 -> hexval (hexdig n) = Some n.
Proof.
  intro H. unfold hexdig, hexval, is_digit. destruct (N.ltb_spec n 10).
  - assert (E : (48 <=? 48 + n) && (48 + n <=? 57) = true) by lia. rewrite E. f_equal. lia.
  - assert (E : (48 <=? 87 + n) && (87 + n <=? 57) = false) by lia. rewrite E.
    assert (E2 : (97 <=? 87 + n) && (87 + n <=? 102) = true) by lia. rewrite E2. f_equal. lia.
Qed.

Lemma jrun_esc_char c out : jrun (JN, out) (json_esc_char c) = (JN, c :: out).
Proof.
  unfold json_esc_char.
  destruct (N.eqb_spec c 34) as [->|H34]; [reflexivity|].
  destruct (N.eqb_spec c 92) as [->|H92]; [reflexivity|].
  destruct (N.eqb_spec c 10) as [->|H10]; [reflexivity|].
  destruct (N.eqb_spec c 13) as [->|H13]; [reflexivity|].
  destruct (N.eqb_spec c 9) as [->|H9]; [reflexivity|].
  destruct (N.eqb_spec c 8) as [->|H8]; [reflexivity|].
  destruct (N.eqb_spec c 12) as [->|H12]; [reflexivity|].
  destruct (N.ltb_spec c 32) as [Hlt|Hge].
  - (* \u00XY *)
    assert (Hd : c / 16 < 16) by (apply N.div_lt_upper_bound; lia).
    assert (Hm : c mod 16 < 16) by (apply N.mod_lt; lia).
    unfold jrun. cbn -[hexdig N.div N.modulo N.mul N.add hexval].
    assert (H48 : hexval 48 = Some 0) by reflexivity.
    rewrite H48. cbn -[hexdig N.div N.modulo N.mul N.add hexval].
    rewrite H48. cbn -[hexdig N.div N.modulo N.mul N.add hexval].
    rewrite (hexdig_val _ Hd). cbn -[hexdig N.div N.modulo N.mul N.add hexval].
    rewrite (hexdig_val _ Hm). f_equal. f_equal.
    pose proof (N.div_mod c 16). lia.
  - unfold jrun. cbn [fold_left jstep]. rewrite (proj2 (N.eqb_neq c 92) H92), (proj2 (N.eqb_neq c 34) H34).
    assert (E : (c <? 32) = false) by lia. rewrite E. reflexivity.
Qed.

Lemma jrun_esc s out : jrun (JN, out) (flat (map json_esc_char s)) = (JN, rev s ++ out).
Proof.
  revert out. induction s as [|c s IH]; intro out; [reflexivity|].
  cbn [map flat concat]. change (concat (map json_esc_char s)) with (flat (map json_esc_char s)).
  rewrite jrun_app, jrun_esc_char, IH. cbn [rev]. rewrite <- app_assoc. reflexivity.
Qed.

(* every string: the body that json.dumps(ensure_ascii=False) writes decodes to the string *)
Theorem json_string_roundtrip s :
  exists body, json_str s = [34] ++ body ++ [34] /\ json_body_decode body = Some s.
Proof.
  exists (flat (map json_esc_char s)). split; [reflexivity|].
  unfold json_body_decode. rewrite jrun_esc. rewrite app_nil_r, rev_involutive. reflexivity.
Qed.

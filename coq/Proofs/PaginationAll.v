(* Proofs/PaginationAll.v — the row-limiting clause of EVERY statement of the model (any clauses, any limit / offset terms, any
   context and parameterizer state) is the reference clause text (Ref.RowLimit.ref_pagination) applied to what its limit and offset
   terms render to, the two rendered in the order of their slots. *)
From PT Require Import Base.Str Model.Types Model.Value Model.Interval Model.Syntax Gen.Ctx Gen.Enums Gen.Prec Gen.Placeholders
     Model.Render Proofs.QueryEq Ref.Lexer Ref.RowLimit.
Open Scope N_scope.

Definition offset_slot_first (b : bcls) : bool := match b with BMSSQL | BOracle => true | _ => false end.
Definition has_order (q : query) : bool := match q_orderbys q with ONil => false | _ => true end.

Lemma pagination_is_reference : forall (q : query) (c : ctx) (p : pz),
  pagination the_rens q c p =
    if offset_slot_first (q_cls q) then
      do (oo, p1) <- render_o c p (q_off q); do (ol, p2) <- render_o c p1 (q_lim q);
      Ok (ref_pagination (q_cls q) ol oo (has_order q), p2)
    else
      do (ol, p1) <- render_o c p (q_lim q); do (oo, p2) <- render_o c p1 (q_off q);
      Ok (ref_pagination (q_cls q) ol oo (has_order q), p2).
Proof.
  intros q c p.
  unfold pagination, offset_kw_sql, limit_kw_sql, limit_kw_sql_c, has_order, ref_pagination, style_of, offset_slot_first. cbv zeta.
  cbn [r_o the_rens].
  destruct (q_cls q), (q_lim q) as [|tl], (q_off q) as [|to], (q_orderbys q); cbn [render_o is_some_t orb];
    repeat match goal with
    | |- context [render ?c ?p ?t] => destruct (render c p t) as [[? ?]|?]; cbn [render_o]
    end;
    rewrite ?app_nil_r, <- ?app_assoc; try reflexivity.
Qed.

(* ------------------------------------------------------------------------------------------------ *)
(* set operations: the clause of the whole operation is the reference clause too *)
Definition setop_style_cls (d : dial) : bcls := match d with MSSQL => BMSSQL | ORACLE => BOracle | _ => BGeneric end.
Definition nonempty_strs (l : list str) : bool := match l with [] => false | _ => true end.
Definition setop_orderby_text (sob : list str) : str := match sob with [] => [] | _ => L " ORDER BY " ++ join [44] sob end.

Lemma setop_pagination_is_reference : forall (c : ctx) (p : pz) base ops obs lim off alias,
  render c p (TSetOp base ops obs lim off alias) =
    let c1 := setop_ctx c in
    let set_ctx := set_subquery (query_wrap_setops base && negb (dial_eqb (dialect c1) MYSQL)) c1 in
    do (sb, p1) <- render_query (if query_has_tail base then set_subquery true set_ctx else set_ctx) p base;
    do (so, p2) <- render_sops set_ctx (query_selects_len base) p1 ops;
    do (sob, p3) <- render_obys c1 (query_select_aliases base) false p2 obs;
    do (pag, p5) <- (if offset_slot_first (setop_style_cls (dialect c1)) then
                       do (oo, p4) <- render_o c1 p3 off; do (ol, p5) <- render_o c1 p4 lim;
                       Ok (ref_pagination (setop_style_cls (dialect c1)) ol oo (nonempty_strs sob), p5)
                     else
                       do (ol, p4) <- render_o c1 p3 lim; do (oo, p5) <- render_o c1 p4 off;
                       Ok (ref_pagination (setop_style_cls (dialect c1)) ol oo (nonempty_strs sob), p5));
    Ok (alias_if (with_alias c) c1 (paren_if (subquery c) (sb ++ so ++ setop_orderby_text sob ++ pag)) alias, p5).
Proof.
  intros. rewrite render_setop_eq. unfold setop_render, setop_body. cbv zeta.
  set (c1 := setop_ctx c).
  destruct (render_query _ p base) as [[sb p1]|]; [|reflexivity].
  destruct (render_sops _ _ p1 ops) as [[so p2]|]; [|reflexivity].
  destruct (render_obys c1 _ false p2 obs) as [[sob p3]|]; [|reflexivity].
  unfold ref_pagination, style_of, offset_slot_first, setop_style_cls, setop_orderby_text, nonempty_strs.
  destruct (dialect c1), lim as [|tl], off as [|to]; cbn [render_o];
    repeat match goal with
    | |- context [render ?cc ?pp ?t] => destruct (render cc pp t) as [[? ?]|?]; cbn [render_o]
    end;
    destruct sob; rewrite ?app_nil_r, <- ?app_assoc; try reflexivity.
Qed.

(* Proofs/PaginationAll.v — the row-limiting clause of EVERY statement of the model (any clauses, any limit / offset terms, any
   context and parameterizer state) is the reference clause text (Ref.RowLimit.ref_pagination) applied to what its limit and offset
   terms render to, the two rendered in the order of their slots. *)
From PT Require Import Base.Str Model.Types Model.Value Model.Interval Model.Syntax Gen.Ctx Gen.Enums Gen.Prec Gen.Placeholders
     Model.Render Proofs.QueryEq Ref.Lexer Ref.RowLimit.
Open Scope N_scope.

Definition offset_slot_first (b : bcls) : bool := match b with BMSSQL | BOracle => true | _ => false end.
Definition has_order (q : query) : bool := match q_orderbys q with ONil => false | _ => true end.

Lemma pagination_is_reference : forall (q : query) (c : ctx) (p : pz),
  pagination the_rens q c p =
    if offset_slot_first (q_cls q) then
      do (oo, p1) <- render_o c p (q_off q); do (ol, p2) <- render_o c p1 (q_lim q);
      Ok (ref_pagination (q_cls q) ol oo (has_order q), p2)
    else
      do (ol, p1) <- render_o c p (q_lim q); do (oo, p2) <- render_o c p1 (q_off q);
      Ok (ref_pagination (q_cls q) ol oo (has_order q), p2).
Proof.
  intros q c p.
  unfold pagination, offset_kw_sql, limit_kw_sql, limit_kw_sql_c, has_order, ref_pagination, style_of, offset_slot_first. cbv zeta.
  cbn [r_o the_rens].
  destruct (q_cls q), (q_lim q) as [|tl], (q_off q) as [|to], (q_orderbys q); cbn [render_o is_some_t orb];
    repeat match goal with
    | |- context [render ?c ?p ?t] => destruct (render c p t) as [[? ?]|?]; cbn [render_o]
    end;
    rewrite ?app_nil_r, <- ?app_assoc; try reflexivity.
Qed.

From PT Require Import Base.Str Model.Types Model.Value Model.Interval Model.Syntax Gen.Ctx Gen.Enums Gen.Prec Gen.Placeholders Model.Render.
Open Scope N_scope.

Definition thr (p p' : pz) : Prop :=
  match p, p' with
  | None, None => True
  | Some z, Some z' => pz_factory z' = pz_factory z /\ exists ext, pz_vals z' = pz_vals z ++ ext
  | _, _ => False
  end.

Lemma thr_refl p : thr p p.
Proof. destruct p as [z|]; simpl; auto. split; auto. exists []. rewrite app_nil_r. reflexivity. Qed.
Lemma thr_trans a b c : thr a b -> thr b c -> thr a c.
Proof.
  destruct a as [x|], b as [y|], c as [z|]; simpl; try tauto.
  intros [F1 [e1 E1]] [F2 [e2 E2]]. split; [congruence|]. exists (e1 ++ e2). rewrite E2, E1, app_assoc. reflexivity.
Qed.

Definition WT {A} (f : pz -> res (A * pz)) : Prop := forall p a p', f p = Ok (a, p') -> thr p p'.

Lemma wt_ret {A} (a : A) : WT (fun p => Ok (a, p)).
Proof. intros p a' p' H. inversion H; subst. apply thr_refl. Qed.
Lemma wt_exn {A} e : WT (fun p => @Exn (A * pz) e).
Proof. intros p a p' H. discriminate. Qed.
Lemma wt_bind {A B} (f : pz -> res (A * pz)) (g : A -> pz -> res (B * pz)) :
  WT f -> (forall a, WT (g a)) -> WT (fun p => do (a, p1) <- f p; g a p1).
Proof.
  intros Hf Hg p b p' H. destruct (f p) as [[a p1]|e] eqn:E; [|discriminate].
  eapply thr_trans; [eapply Hf; eassumption|eapply Hg; eassumption].
Qed.
Lemma wt_ext {A} (f g : pz -> res (A * pz)) : (forall p, f p = g p) -> WT g -> WT f.
Proof. intros E H p a p' Hf. rewrite E in Hf. eapply H; eassumption. Qed.

Lemma wt_create c z vid : thr (Some z) (Some (snd (create_param c z vid))).
Proof. unfold create_param. simpl. split; [reflexivity|]. eexists; reflexivity. Qed.

(* Proofs/ReplaceLaws.v — laws of the replace_table specification (Ref/Replace.v), for ALL terms and statements of the object language, by
   mutual induction over its 17 sorts:
     rep_nothing_else : where no replaceable reference to `old` occurs, nothing changes;
     rep_every_reference : after the replacement no replaceable reference to `old` is left (when new is not == old);
     rep_idempotent : replacing twice is replacing once. *)
From PT Require Import Base.Str Model.Types Model.Value Model.Interval Model.Syntax Ref.Replace.
Open Scope N_scope.

Section Laws.
Variables (old new : tref).
Notation rep' := (rep old new).
Notation occ' := (occ old).

Lemma rot_same tb : occ_ot old tb = false -> rot old new tb = tb.
Proof. destruct tb as [r|]; [|reflexivity]. cbn [occ_ot rot]. unfold occ_t, rt. intro H. rewrite H. reflexivity. Qed.
Lemma rot_gone tb : tref_eqb new old = false -> occ_ot old (rot old new tb) = false.
Proof. intro Hn. destruct tb as [r|]; [|reflexivity]. cbn [occ_ot rot]. unfold occ_t, rt. destruct (tref_eqb r old) eqn:E; [exact Hn|exact E]. Qed.

Definition L1 {A} (r : A -> A) (o : A -> bool) (x : A) : Prop := o x = false -> r x = x.
Definition L2 {A} (r : A -> A) (o : A -> bool) (x : A) : Prop := tref_eqb new old = false -> o (r x) = false.
Definition PP {A} (r : A -> A) (o : A -> bool) (x : A) : Prop := L1 r o x /\ L2 r o x.

Ltac split_or H := repeat (apply Bool.orb_false_elim in H; let H2 := fresh "Ho" in destruct H as [H H2]).
Ltac use_ih1 := repeat match goal with
  | IH : PP ?r ?o ?x, H : ?o ?x = false |- _ => rewrite (proj1 IH H); clear IH
  end.
Ltac use_ih2 Hn := repeat match goal with
  | IH : PP ?r ?o ?x |- _ => rewrite (proj2 IH Hn); clear IH
  end.

Ltac fold_all := fold (rep old new) (rep_o old new) (rep_ts old new) (rep_cases old new) (rep_obys old new) (rep_gbys old new) (rep_over old new)
  (rep_rows old new) (rep_upds old new) (rep_cupds old new) (rep_joinc old new) (rep_joins old new) (rep_sops old new) (rep_ctes old new) (rep_q old new)
  (occ old) (occ_o old) (occ_ts old) (occ_cases old) (occ_obys old) (occ_gbys old) (occ_over old) (occ_rows old) (occ_upds old) (occ_cupds old)
  (occ_joinc old) (occ_joins old) (occ_sops old) (occ_ctes old) (occ_q old) in *.

Ltac solve1 :=
  let H := fresh "H" in intro H; cbn [occ occ_o occ_ts occ_cases occ_obys occ_gbys occ_over occ_rows occ_upds occ_cupds occ_joinc occ_joins occ_sops occ_ctes occ_q] in H; fold_all;
  cbn [rep rep_o rep_ts rep_cases rep_obys rep_gbys rep_over rep_rows rep_upds rep_cupds rep_joinc rep_joins rep_sops rep_ctes rep_q];
  fold_all; try reflexivity; split_or H;
  repeat match goal with
  | IH : PP ?r ?o ?x, Hx : ?o ?x = false |- _ => rewrite (proj1 IH Hx); clear IH
  end; try reflexivity.
Ltac solve2 :=
  let Hn := fresh "Hn" in intro Hn;
  cbn [rep rep_o rep_ts rep_cases rep_obys rep_gbys rep_over rep_rows rep_upds rep_cupds rep_joinc rep_joins rep_sops rep_ctes rep_q];
  cbn [occ occ_o occ_ts occ_cases occ_obys occ_gbys occ_over occ_rows occ_upds occ_cupds occ_joinc occ_joins occ_sops occ_ctes occ_q];
  fold_all; try reflexivity;
  repeat match goal with
  | IH : PP ?r ?o ?x |- _ => rewrite (proj2 IH Hn); clear IH
  end; try reflexivity.

Theorem rep_laws : forall t, PP rep' occ' t.
Proof.
  apply (term_mut (PP rep' occ') (PP (rep_o old new) (occ_o old)) (PP (rep_ts old new) (occ_ts old)) (PP (rep_cases old new) (occ_cases old))
          (PP (rep_obys old new) (occ_obys old)) (PP (rep_gbys old new) (occ_gbys old)) (PP (rep_over old new) (occ_over old))
          (PP (rep_rows old new) (occ_rows old)) (PP (rep_upds old new) (occ_upds old)) (PP (rep_cupds old new) (occ_cupds old))
          (PP (rep_joinc old new) (occ_joinc old)) (PP (rep_joins old new) (occ_joins old)) (PP (rep_sops old new) (occ_sops old))
          (PP (rep_ctes old new) (occ_ctes old)) (fun _ => True) (PP (rep_q old new) (occ_q old)) (fun _ => True));
    intros; try exact I; (split; [unfold L1; solve1 | unfold L2; solve2]).
  - match goal with Hx : occ_ot _ _ = false |- _ => rewrite (rot_same _ Hx) end. reflexivity.
  - apply rot_gone; assumption.
  - match goal with Hx : occ_ot _ _ = false |- _ => rewrite (rot_same _ Hx) end. reflexivity.
  - apply rot_gone; assumption.
  - match goal with Hx : occ_t _ _ = false |- _ => unfold occ_t in Hx; rewrite Hx end. reflexivity.
  - destruct (tref_eqb r old) eqn:E; cbn [occ]; unfold occ_t; assumption.
Qed.

Theorem rep_nothing_else : forall t, occ' t = false -> rep' t = t.
Proof. intros t. exact (proj1 (rep_laws t)). Qed.
Theorem rep_every_reference : forall t, tref_eqb new old = false -> occ' (rep' t) = false.
Proof. intros t. exact (proj2 (rep_laws t)). Qed.
Theorem rep_idempotent : forall t, tref_eqb new old = false -> rep' (rep' t) = rep' t.
Proof. intros t Hn. apply rep_nothing_else. apply rep_every_reference. exact Hn. Qed.

(* the same for statements *)
Theorem rep_q_laws : forall q, (occ_q old q = false -> rep_q old new q = q) /\ (tref_eqb new old = false -> occ_q old (rep_q old new q) = false).
Proof.
  intro q. destruct (rep_laws (TQuery q)) as [H1 H2]. split.
  - intro H. specialize (H1 H). cbn [rep] in H1. injection H1. auto.
  - intro Hn. exact (H2 Hn).
Qed.
End Laws.

(* Proofs/IntervalLemmas.v — generic lemmas for C18: how trim acts on a formatted field list, and
   how the reference reader reads one back. *)
From PT Require Import Base.Str Model.Types Model.Interval Ref.IntervalRead.
From Coq Require Import Lia ZifyBool.
Open Scope N_scope.

(* ---------- character classes ---------- *)
Lemma nz_facts c : is_nzdigit c = true ->
  in_cls c = false /\ in_sep4 c = false /\ (c =? 46) = false /\ (c =? 48) = false /\ (c =? 45) = false /\ is_digit c = true.
Proof. unfold is_nzdigit, in_cls, in_sep4, is_digit. intros. lia. Qed.

Lemma digit_facts c : is_digit c = true -> in_sep4 c = false /\ (c =? 46) = false /\ (c =? 45) = false /\ (c =? 39) = false /\ (c =? 32) = false.
Proof. unfold is_digit, in_sep4. intros. lia. Qed.

Lemma sep4_facts c : in_sep4 c = true -> in_cls c = true /\ is_digit c = false /\ (c =? 48) = false /\ (c =? 39) = false.
Proof. unfold in_sep4, in_cls, is_digit. intros. lia. Qed.

(* ---------- printed numbers ---------- *)
Lemma N_to_str_zero_or_nz v :
  (v = 0 /\ N_to_str v = [48]) \/ (v <> 0 /\ exists c r, N_to_str v = c :: r /\ is_nzdigit c = true /\ all_digits r = true).
Proof.
  destruct (N.eq_dec v 0) as [->|Hv]; [left; split; reflexivity|right; split; [assumption|]].
  destruct (N_to_str_pos v) as (c & r & E & Hc); [lia|].
  exists c, r. repeat split; try assumption.
  pose proof (N_to_str_digits v) as Hd. rewrite E in Hd. simpl in Hd. apply andb_true_iff in Hd. tauto.
Qed.

Lemma cls_N_to_str v : forallb in_cls (N_to_str v) = (v =? 0).
Proof.
  destruct (N_to_str_zero_or_nz v) as [[-> E]|[Hv (c & r & E & Hc & _)]]; rewrite E; [reflexivity|].
  simpl. destruct (nz_facts c Hc) as (H1 & _). rewrite H1. simpl. symmetry. apply N.eqb_neq. assumption.
Qed.

Lemma allzero_cls s : all_zero s = true -> forallb in_cls s = true.
Proof.
  induction s as [|c s IH]; simpl; [reflexivity|]. intro H. apply andb_true_iff in H as [H1 H2].
  rewrite (IH H2). unfold in_cls. rewrite H1. reflexivity.
Qed.

(* ---------- field lists ---------- *)
Definition rest (l : list (char * N)) : str := flat (map (fun p => fst p :: N_to_str (snd p)) l).
Fixpoint trimr (l : list (char * N)) : list (char * N) :=
  match l with
  | [] => []
  | (s, v) :: r => match trimr r with
                   | [] => if v =? 0 then [] else [(s, v)]
                   | r' => (s, v) :: r'
                   end
  end.
Definition seps_ok (l : list (char * N)) : Prop := Forall (fun p => in_sep4 (fst p) = true) l.
Definition allz (l : list (char * N)) : bool := forallb (fun p => snd p =? 0) l.

Lemma rest_cons s v l : rest ((s, v) :: l) = s :: N_to_str v ++ rest l.
Proof. reflexivity. Qed.

Lemma rest_cls l : seps_ok l -> forallb in_cls (rest l) = allz l.
Proof.
  induction 1 as [|[s v] l Hs Hl IH]; [reflexivity|].
  rewrite rest_cons. simpl. rewrite forallb_app, cls_N_to_str, IH.
  simpl in Hs. destruct (sep4_facts s Hs) as (H1 & _). rewrite H1. reflexivity.
Qed.

Lemma trimr_nil l : trimr l = [] <-> allz l = true.
Proof.
  induction l as [|[s v] l IH]; simpl; [tauto|].
  destruct (trimr l) eqn:E.
  - destruct (v =? 0); simpl; split; intro H; try discriminate; try (apply IH; reflexivity).
    reflexivity.
  - split; [discriminate|]. intro H. apply andb_true_iff in H as [_ H]. apply IH in H. discriminate.
Qed.

(* ---------- scan ---------- *)
Lemma scan_digit c r : is_digit c = true -> scan (c :: r) = c :: scan r.
Proof.
  intro Hc. destruct (digit_facts c Hc) as (H4 & H46 & _).
  cbn [scan]. unfold alt2, alt4. rewrite H4, H46. destruct r; reflexivity.
Qed.

Lemma scan_digits F R : all_digits F = true -> scan (F ++ R) = F ++ scan R.
Proof.
  unfold all_digits. induction F as [|c F IH]; [reflexivity|]. cbn [forallb app]. intro H. apply andb_true_iff in H as [Hc HF].
  rewrite scan_digit by assumption. rewrite IH by assumption. reflexivity.
Qed.

Lemma scan_sep s T : in_sep4 s = true -> T <> [] ->
  scan (s :: T) = if forallb in_cls T then [] else s :: scan T.
Proof.
  intros Hs HT. cbn [scan]. unfold alt2, alt4. destruct T as [|t T']; [congruence|].
  rewrite Hs. cbn [andb].
  destruct (forallb in_cls (t :: T')) eqn:E.
  - rewrite orb_true_r. reflexivity.
  - rewrite orb_false_r.
    destruct ((s =? 46) && all_zero (t :: T')) eqn:E2; [|reflexivity].
    apply andb_true_iff in E2 as [_ E2]. apply allzero_cls in E2. congruence.
Qed.

Lemma scan_rest l : seps_ok l -> scan (rest l) = rest (trimr l).
Proof.
  induction 1 as [|[s v] l Hs Hl IH]; [reflexivity|].
  simpl in Hs. rewrite rest_cons.
  assert (HT : N_to_str v ++ rest l <> []).
  { pose proof (N_to_str_nonnil v). destruct (N_to_str v); simpl; congruence. }
  rewrite scan_sep by assumption.
  rewrite forallb_app, cls_N_to_str, rest_cls by assumption.
  rewrite scan_digits by apply N_to_str_digits. rewrite IH.
  cbn [trimr]. destruct (trimr l) eqn:E.
  - assert (Hz : allz l = true) by (apply trimr_nil; assumption). rewrite Hz, andb_true_r.
    destruct (v =? 0); [reflexivity|]. unfold rest. simpl. reflexivity.
  - assert (Hz : allz l = false).
    { destruct (allz l) eqn:Ez; [|reflexivity]. apply trimr_nil in Ez. congruence. }
    rewrite Hz, andb_false_r. rewrite <- E. reflexivity.
Qed.

(* ---------- the anchored alternatives on a zero prefix ---------- *)
Lemma last_sep3_app pre c X :
  forallb in_cls pre = true -> in_cls c = false -> last_sep3 (pre ++ c :: X) = last_sep3 pre.
Proof.
  intros Hp Hc. induction pre as [|p pre IH]; simpl.
  - rewrite Hc. reflexivity.
  - simpl in Hp. apply andb_true_iff in Hp as [Hp1 Hp2]. rewrite Hp1, IH by assumption. reflexivity.
Qed.

Lemma skipn_app_len {A} (a b : list A) : skipn (length a) (a ++ b) = b.
Proof. induction a; simpl; auto. Qed.

(* a non-empty all-cls prefix that ends in a sep3 character is removed as a whole *)
Lemma trim_strip pre c X :
  forallb in_cls pre = true -> last_sep3 pre = Some (length pre) -> (2 <= length pre)%nat ->
  in_cls c = false ->
  alt1 (pre ++ c :: X) = None -> alt2 (pre ++ c :: X) = false ->
  trim (pre ++ c :: X) = scan (c :: X).
Proof.
  intros Hp Hl Hlen Hc H1 H2. unfold trim. rewrite H1, H2. unfold alt3.
  rewrite last_sep3_app, Hl by assumption.
  destruct (Nat.leb_spec 2 (length pre)); [|lia]. rewrite skipn_app_len. reflexivity.
Qed.

(* no prefix to remove: the string starts with a non-zero digit *)
Lemma trim_nostrip c X : is_nzdigit c = true -> trim (c :: X) = scan (c :: X).
Proof.
  intro Hc. destruct (nz_facts c Hc) as (Hcls & H4 & H46 & H48 & _).
  unfold trim, alt1, alt2, alt3. cbn [zeros_then_dot last_sep3]. rewrite H48, H46, Hcls. cbn [andb].
  destruct X; reflexivity.
Qed.

(* ---------- the reference reader on a printed field list ---------- *)
Lemma span_digits_app F R : all_digits F = true -> (match R with [] => True | c :: _ => is_digit c = false end) ->
  span_digits (F ++ R) = (F, R).
Proof.
  intros HF HR. induction F as [|c F IH]; simpl.
  - destruct R as [|c R]; [reflexivity|]. simpl. rewrite HR. reflexivity.
  - simpl in HF. apply andb_true_iff in HF as [Hc HF]. rewrite Hc, IH by assumption. reflexivity.
Qed.

Lemma read_fields_rest v l : seps_ok l ->
  read_fields (map fst l) (N_to_str v ++ rest l) = Some (v :: map snd l).
Proof.
  intro Hl. revert v. induction Hl as [|[s w] l Hs Hl IH]; intro v.
  - unfold rest. simpl. rewrite app_nil_r.
    rewrite <- (app_nil_r (N_to_str v)) at 1. rewrite span_digits_app; [|apply N_to_str_digits|exact I].
    rewrite read_dec_N_to_str. reflexivity.
  - rewrite rest_cons. cbn [map fst snd read_fields]. simpl in Hs.
    destruct (sep4_facts s Hs) as (_ & Hd & _).
    rewrite span_digits_app; [|apply N_to_str_digits|exact Hd].
    rewrite read_dec_N_to_str, N.eqb_refl, IH. reflexivity.
Qed.

(* ---------- unwrapping the dialect template ---------- *)
Lemma split_at_app c a b : forallb (fun x => negb (x =? c)) a = true -> split_at c (a ++ c :: b) = Some (a, b).
Proof.
  induction a as [|x a IH]; simpl; intro H.
  - rewrite N.eqb_refl. reflexivity.
  - apply andb_true_iff in H as [Hx Ha]. apply negb_true_iff in Hx. rewrite Hx, IH by assumption. reflexivity.
Qed.

Lemma split_last_app c a b : forallb (fun x => negb (x =? c)) b = true -> split_last c (a ++ c :: b) = Some (a, b).
Proof.
  intro H. unfold split_last. rewrite rev_app_distr. simpl. rewrite <- app_assoc. simpl.
  rewrite split_at_app.
  - rewrite !rev_involutive. reflexivity.
  - rewrite forallb_forall in *. intros x Hx. apply H. apply in_rev. assumption.
Qed.

Definition wrap (t : str * str * str) (e u : str) : str := let '(p1, p2, p3) := t in p1 ++ e ++ p2 ++ u ++ p3.

Lemma strip_prefix_app p s : strip_prefix p (p ++ s) = Some s.
Proof. induction p; simpl; [reflexivity|]. rewrite N.eqb_refl. assumption. Qed.

Lemma read_interval_kind1 d e u :
  quote_inside_unit d = true ->
  forallb (fun x => negb (x =? 32)) u = true ->
  read_interval d (L "INTERVAL '" ++ e ++ L " " ++ u ++ L "'") = read_expr u e.
Proof.
  intros Hd Hu. unfold read_interval. rewrite strip_prefix_app, Hd.
  replace (e ++ L " " ++ u ++ L "'") with ((e ++ 32 :: u) ++ [39]) by (simpl; rewrite <- app_assoc; reflexivity).
  rewrite rev_app_distr. simpl. rewrite rev_involutive, split_last_app by assumption. reflexivity.
Qed.

Lemma read_interval_kind2 d e u :
  quote_inside_unit d = false ->
  forallb (fun x => negb (x =? 39)) e = true ->
  read_interval d (L "INTERVAL '" ++ e ++ L "' " ++ u ++ []) = read_expr u e.
Proof.
  intros Hd He. unfold read_interval. rewrite strip_prefix_app, Hd, app_nil_r.
  change (e ++ L "' " ++ u) with (e ++ 39 :: 32 :: u).
  rewrite split_at_app by assumption. reflexivity.
Qed.

(* Proofs/ClassFree.v — which builder class built a SELECT statement does not matter to its text, as long as the statement uses none of the
   class-specific features (row limit, TOP, MySQL modifiers, DISTINCT ON, upsert, RETURNING): every convention is read from the CONTEXT. *)
From PT Require Import Base.Str Model.Types Model.Value Model.Interval Model.Syntax Gen.Ctx Gen.Enums Gen.Prec Gen.Placeholders
     Model.Render Proofs.Thr Proofs.QueryEq Proofs.Thread Proofs.PaginationAll Proofs.ClauseOrder Ref.Lexer Ref.RowLimit.
Open Scope N_scope.

Definition with_cls (D : bcls) (q : query) : query :=
  match q with
  | MkQ _ fl from withs selects force_idx use_idx columns values wheres prewheres havings groupbys orderbys joins_ lim off
        updates insert_table update_table conflict_fields conflict_updates conflict_wheres conflict_update_wheres returns distinct_on =>
    MkQ D fl from withs selects force_idx use_idx columns values wheres prewheres havings groupbys orderbys joins_ lim off
        updates insert_table update_table conflict_fields conflict_updates conflict_wheres conflict_update_wheres returns distinct_on
  end.

Definition is_none_z (o : option Z) : bool := match o with None => true | Some _ => false end.
Definition is_nil_strs (l : list str) : bool := match l with [] => true | _ => false end.
Definition class_free (q : query) : bool :=
  plain_select q && negb (is_some_t (q_lim q)) && negb (is_some_t (q_off q)) && is_none_z (q_top q) &&
  is_nil_strs (q_modifiers q) && negb (is_nonempty_terms (q_distinct_on q)).

Section CF.
Variables (D : bcls) (q : query) (c : ctx).
Let R := the_rens.

Ltac cf := destruct q; reflexivity.
Lemma cf_with : with_sql R (with_cls D q) c = with_sql R q c.            Proof. cf. Qed.
Lemma cf_from : from_sql R (with_cls D q) c = from_sql R q c.            Proof. cf. Qed.
Lemma cf_joins : joins_sql R (with_cls D q) c = joins_sql R q c.         Proof. cf. Qed.
Lemma cf_where : where_sql R (with_cls D q) c = where_sql R q c.         Proof. cf. Qed.
Lemma cf_prewhere : prewhere_sql R (with_cls D q) c = prewhere_sql R q c. Proof. cf. Qed.
Lemma cf_orderby : orderby_sql R (with_cls D q) c = orderby_sql R q c.   Proof. cf. Qed.
Lemma cf_forupd : for_update_sql (with_cls D q) c = for_update_sql q c.  Proof. cf. Qed.
Lemma cf_ns : clause_ctx (with_cls D q) c = clause_ctx q c.              Proof. cf. Qed.
Lemma cf_plain : plain_select (with_cls D q) = plain_select q.           Proof. cf. Qed.
Lemma cf_free : class_free (with_cls D q) = class_free q.                Proof. cf. Qed.
Lemma cf_alias : q_alias (with_cls D q) = q_alias q.                     Proof. cf. Qed.
End CF.

Ltac open_q q :=
  destruct q as [cls fl from withs selects force_idx use_idx columns values wheres prewheres havings groupbys orderbys joins_ lim off
                 updates insert_table update_table conflict_fields conflict_updates conflict_wheres conflict_update_wheres returns distinct_on];
  destruct fl as [alias delete_from replace_ distinct for_update nowait skip_locked with_totals mysql_rollup select_into foreign_table
                  on_conflict do_nothing wrap_setops for_update_of modifiers top wrapper].

(* the class-specific features are absent *)
Ltac use_free H :=
  unfold class_free in H; cbn [q_lim q_off q_top q_modifiers q_distinct_on] in H;
  repeat (apply andb_prop in H; let H' := fresh "F" in destruct H as [H H']);
  repeat match goal with
  | X : negb (is_some_t ?o) = true |- _ => destruct o; [clear X | discriminate X]
  | X : is_none_z ?o = true |- _ => destruct o; [discriminate X | clear X]
  | X : is_nil_strs ?l = true |- _ => destruct l; [clear X | discriminate X]
  | X : negb (is_nonempty_terms ?l) = true |- _ => destruct l; [clear X | discriminate X]
  end.

Lemma cf_select D q c : class_free q = true -> select_sql the_rens (with_cls D q) c = select_sql the_rens q c.
Proof. intro H. open_q q. use_free H. destruct D, cls; reflexivity. Qed.

Lemma cf_pagination D q c p : class_free q = true -> pagination the_rens (with_cls D q) c p = Ok ([], p).
Proof. intro H. open_q q. use_free H. destruct D; reflexivity. Qed.
Lemma cf_pagination0 q c p : class_free q = true -> pagination the_rens q c p = Ok ([], p).
Proof. intro H. open_q q. use_free H. destruct cls; reflexivity. Qed.

Lemma cf_tail D q c qs p : class_free q = true ->
  tail_with the_rens (with_cls D q) c false false qs p = tail_with the_rens q c false false qs p.
Proof.
  intro H. unfold tail_with. cbv zeta.
  rewrite cf_from, cf_joins, cf_prewhere, cf_where, cf_orderby, cf_forupd.
  destruct (from_sql the_rens q c p) as [[sf p1]|]; [|reflexivity].
  open_q q. pose proof H as Hfree. use_free H. cbn [with_cls q_force_idx q_use_idx q_groupbys q_havings q_with_totals q_mysql_rollup q_on_conflict q_alias].
  assert (Hoc : on_conflict = false).
  { unfold plain_select in H. repeat (apply andb_prop in H; destruct H as [H ?]). cbn [q_on_conflict] in *.
    match goal with X : negb on_conflict = true |- _ => apply negb_true_iff in X; exact X end. }
  subst on_conflict.
  repeat match goal with
  | |- match ?X with Ok _ => _ | Exn _ => _ end = match ?X with Ok _ => _ | Exn _ => _ end => destruct X as [[? ?]|]; [|reflexivity]
  end.
  match goal with |- context [pagination the_rens (MkQ D ?f ?a1 ?a2 ?a3 ?a4 ?a5 ?a6 ?a7 ?a8 ?a9 ?a10 ?a11 ?a12 ?a13 ?a14 ?a15 ?a16 ?a17 ?a18 ?a19 ?a20 ?a21 ?a22 ?a23 ?a24) ?cc ?pp] =>
    change (pagination the_rens (MkQ D f a1 a2 a3 a4 a5 a6 a7 a8 a9 a10 a11 a12 a13 a14 a15 a16 a17 a18 a19 a20 a21 a22 a23 a24) cc pp)
      with (pagination the_rens (with_cls D (MkQ cls f a1 a2 a3 a4 a5 a6 a7 a8 a9 a10 a11 a12 a13 a14 a15 a16 a17 a18 a19 a20 a21 a22 a23 a24)) cc pp)
  end.
  rewrite cf_pagination, cf_pagination0; first [reflexivity | exact Hfree].
Qed.

Lemma plain_selectable q : plain_select q = true -> selectable q = true.
Proof.
  unfold plain_select, selectable. intro H. repeat (apply andb_prop in H; destruct H as [H ?]).
  repeat match goal with X : negb _ = true |- _ => apply negb_true_iff in X end.
  repeat match goal with X : _ = false |- _ => rewrite X end. reflexivity.
Qed.

(* the classes whose get_sql copies the context first (no GROUP BY alias) *)
Definition adjusts (b : bcls) : bool := match b with BMSSQL | BOracle => true | _ => false end.
Lemma adjust_noop D q c : (adjusts D = true -> groupby_alias c = false) -> adjust_ctx (with_cls D q) c = c.
Proof. intro H. destruct q, c; cbn in *; destruct D; cbn in *; try reflexivity; rewrite H; reflexivity. Qed.
Lemma adjust_noop0 q c : (adjusts (q_cls q) = true -> groupby_alias c = false) -> adjust_ctx q c = c.
Proof. intro H. destruct q as [cls], c; cbn in *; destruct cls; cbn in *; try reflexivity; rewrite H; reflexivity. Qed.

Lemma cf_complete D q : complete (with_cls D q) = complete q.   Proof. destruct q; reflexivity. Qed.

(* the normal form of a class-free SELECT: no reference to the class left *)
Lemma class_free_render D q c p : class_free q = true ->
  (adjusts D = true -> groupby_alias c = false) -> (adjusts (q_cls q) = true -> groupby_alias c = false) ->
  render_query c p (with_cls D q) = render_query c p q.
Proof.
  intros Hf Hg Hg0.
  assert (Hp : plain_select q = true) by (unfold class_free in Hf; do 5 (apply andb_prop in Hf; destruct Hf as [Hf ?]); exact Hf).
  assert (HpD : plain_select (with_cls D q) = true) by (rewrite cf_plain; exact Hp).
  assert (Hc : complete q = true) by (unfold plain_select in Hp; apply andb_prop in Hp; tauto).
  rewrite !render_query_eq. unfold q_render.
  pose proof (cf_complete D q) as HcD. rewrite Hc in HcD.
  unfold complete in Hc, HcD.
  apply negb_true_iff in Hc. apply orb_false_iff in Hc. destruct Hc as [Hc Hc3]. apply orb_false_iff in Hc. destruct Hc as [Hc1 Hc2].
  apply negb_true_iff in HcD. apply orb_false_iff in HcD. destruct HcD as [HcD HcD3]. apply orb_false_iff in HcD. destruct HcD as [HcD1 HcD2].
  rewrite Hc1, Hc2, Hc3, HcD1, HcD2, HcD3. cbv zeta.
  rewrite adjust_noop, adjust_noop0 by assumption. rewrite cf_ns.
  set (cc := clause_ctx q c).
  rewrite (main_wrap the_rens (with_cls D q) c c cc _ _ p (plain_selectable _ HpD)).
  rewrite (main_wrap the_rens q c c cc (subquery c) (with_alias c) p (plain_selectable _ Hp)).
  rewrite (main_plain_select the_rens (with_cls D q) c cc p HpD), (main_plain_select the_rens q c cc p Hp).
  rewrite cf_with. destruct (with_sql the_rens q cc p) as [[sw p1]|]; [|reflexivity].
  rewrite (cf_select D q cc Hf). destruct (select_sql the_rens q cc p1) as [[ssel p2]|]; [|reflexivity].
  rewrite (cf_tail D q cc _ p2 Hf).
  unfold then_wrap, wrap. rewrite cf_alias. reflexivity.
Qed.

Lemma with_cls_twice D D' q : with_cls D (with_cls D' q) = with_cls D q.   Proof. destruct q; reflexivity. Qed.
Lemma with_cls_cls D q : q_cls (with_cls D q) = D.                           Proof. destruct q; reflexivity. Qed.

Theorem builder_class_irrelevant : forall (D D' : bcls) (q : query) (c : ctx) (p : pz),
  class_free q = true ->
  (adjusts D || adjusts D' = true -> groupby_alias c = false) ->
  render_query c p (with_cls D q) = render_query c p (with_cls D' q).
Proof.
  intros D D' q c p Hf Hg.
  rewrite <- (with_cls_twice D BGeneric q), <- (with_cls_twice D' BGeneric q).
  assert (HfG : class_free (with_cls BGeneric q) = true) by (rewrite cf_free; exact Hf).
  rewrite (class_free_render D (with_cls BGeneric q) c p HfG), (class_free_render D' (with_cls BGeneric q) c p HfG); try reflexivity.
  all: rewrite ?with_cls_cls; cbn [adjusts]; try discriminate.
  all: intro A; apply Hg; rewrite A; try reflexivity; apply orb_true_r.
Qed.

(* Proofs/Frame.v — the frame argument for builder calls (C01, C15) and render calls (C02), over
   an abstract object heap: locations are numbers, `old l` says that l existed before the call.
   A builder call first copies the receiver (utils.builder: copy.copy, or the class's __copy__):
   the copy self' is a fresh location whose attributes hold the same values, except that every
   attribute re-copied by the copy rule holds a fresh container.  The method body is then
   abstracted by its may-write effects (tools/gen_effects.py).  `cells` gives the heap cells an
   effect may write in a given environment; the theorem says that for a method accepted by
   Model.Effects.builder_ok_from every such cell is either fresh or the alias field of an argument
   whose alias was None — the one side effect the property permits. *)
From PT Require Import Base.Str Model.Effects.
From Coq Require Import Lia.
Open Scope N_scope.

Section Frame.
Variable classes : list classrec.
Variable mn : list str.                 (* names of mutating non-builder methods *)
Variable c : classrec.

Definition loc := nat.
Variable old : loc -> bool.             (* existed before the call *)
Variable self' : loc.                   (* the shallow copy made by the decorator *)
Variable argloc : str -> list str -> loc.   (* object reached from a named argument through a path *)
Variable alias_is_none : loc -> bool.   (* in the heap before the call *)

(* the environment threads, for each attribute of self', the location of the object it holds *)
Definition env := str -> loc.

Inductive cell := Cell (l : loc) (field : str) | Whole (l : loc).   (* one field / any part of an object *)

Definition cell_loc (x : cell) : loc := match x with Cell l _ | Whole l => l end.

(* cells an effect may write, and the environment after it *)
Definition cells (e : env) (eff : effect) : list cell :=
  match eff with
  | EStore RSelf [] a _ _ => [Cell self' a]
  | EMutate RSelf [] => [Whole self']
  | EMutate RSelf [a] => [Whole (e a)]
  | EAugMutate RSelf [a] => if mem a (containers_of classes c) then [Whole (e a); Cell self' a] else [Cell self' a]
  | EStore (RArg x) path a guard _ =>
      (* a store under the guard `<arg>.alias is None` executes only when that alias is None *)
      if guard && negb (alias_is_none (argloc x path)) then [] else [Cell (argloc x path) a]
  | _ => []        (* deeper paths and argument mutation are rejected by the checker; calls are judged by name *)
  end.

(* a permitted write: to something that did not exist before, or the None alias of an argument *)
Definition permitted (x : cell) : Prop :=
  old (cell_loc x) = false \/
  (exists l, x = Cell l (L "alias") /\ alias_is_none l = true).

(* hypotheses on the environment: what the copy rule (and earlier unconditional rebinding) made fresh *)
Definition env_ok (rebound : list str) (e : env) : Prop :=
  forall a, mem a (recopied c) = true \/ mem a rebound = true -> old (e a) = false.

Hypothesis self_fresh : old self' = false.

(* environment update: an unconditional store of a fresh container makes that attribute fresh *)
Variable fresh_loc : loc.
Hypothesis fresh_loc_fresh : old fresh_loc = false.
Definition upd (e : env) (eff : effect) : env :=
  match eff with
  | EStore RSelf [] a _ true => fun b => if seqb a b then fresh_loc else e b
  | _ => e
  end.

Fixpoint all_cells (e : env) (effs : list effect) : list cell :=
  match effs with
  | [] => []
  | x :: r => cells e x ++ all_cells (upd e x) r
  end.

Lemma mem_cons_true a b l : mem a (b :: l) = true -> seqb a b = true \/ mem a l = true.
Proof. unfold mem. simpl. intro H. apply orb_true_iff in H. exact H. Qed.

Theorem builder_frame : forall effs rebound e,
  builder_ok_from classes mn c rebound effs = true ->
  env_ok rebound e ->
  Forall permitted (all_cells e effs).
Proof.
  induction effs as [|eff effs IH]; intros rebound e Hok Henv; [constructor|].
  cbn [builder_ok_from] in Hok. apply andb_true_iff in Hok as [Hhere Hrest].
  cbn [all_cells]. apply Forall_app. split.
  - (* the cells of this effect *)
    destruct eff as [r path a g f|r path|r path|r path|n gs|r path n]; cbn [cells]; try apply Forall_nil.
    + destruct r as [|x].
      * destruct path; [|discriminate]. apply Forall_cons; [|apply Forall_nil]. left. exact self_fresh.
      * apply andb_true_iff in Hhere as [Ha Hg]. apply seqb_eq in Ha. subst a g. cbn [andb].
        destruct (alias_is_none (argloc x path)) eqn:E; cbn [negb]; [|apply Forall_nil].
        apply Forall_cons; [|apply Forall_nil]. right. exists (argloc x path). split; [reflexivity|exact E].
    + destruct r as [|x]; [|discriminate].
      destruct path as [|a [|b path]]; try discriminate.
      * apply Forall_cons; [|apply Forall_nil]. left. exact self_fresh.
      * apply Forall_cons; [|apply Forall_nil]. left. apply Henv. apply orb_true_iff in Hhere. exact Hhere.
    + destruct r as [|x]; [|discriminate].
      destruct path as [|a [|b path]]; try discriminate.
      destruct (mem a (containers_of classes c)).
      * apply Forall_cons; [|apply Forall_cons; [|apply Forall_nil]]; left; [|exact self_fresh].
        apply Henv. apply orb_true_iff in Hhere. exact Hhere.
      * apply Forall_cons; [|apply Forall_nil]. left. exact self_fresh.
  - (* the rest, in the updated environment *)
    apply (IH (match eff with EStore RSelf [] a _ true => a :: rebound | _ => rebound end)); [exact Hrest|].
    intros a Ha. unfold upd.
    destruct eff as [r path b g f|r path|r path|r path|n gs|r path n]; try (apply Henv; exact Ha).
    destruct r; try (apply Henv; exact Ha).
    destruct path; try (apply Henv; exact Ha).
    destruct f; try (apply Henv; exact Ha).
    destruct (seqb b a) eqn:E; [exact fresh_loc_fresh|].
    apply Henv. destruct Ha as [Ha|Ha]; [left; exact Ha|].
    apply mem_cons_true in Ha as [Ha|Ha]; [|right; exact Ha].
    apply seqb_eq in Ha. subst. rewrite seqb_refl in E. discriminate.
Qed.

(* ---- render calls: a method accepted by render_ok writes no cell at all (the one exception,
   ctx.parameterizer.create_param, is a call on the caller's parameterizer and is judged by name) ---- *)
Definition render_cells (eff : effect) : list cell :=
  match eff with
  | EStore RSelf path a _ _ => [Cell self' a]
  | EStore (RArg x) path a _ _ => [Cell (argloc x path) a]
  | EMutate RSelf _ | EAugMutate RSelf _ => [Whole self']
  | EMutate (RArg x) path | EAugMutate (RArg x) path => [Whole (argloc x path)]
  | _ => []
  end.

Theorem render_frame : forall effs, forallb (render_ok_eff classes mn c) effs = true -> flat (map render_cells effs) = [].
Proof.
  induction effs as [|eff effs IH]; [reflexivity|]. cbn [forallb map flat concat]. intro H.
  apply andb_true_iff in H as [H1 H2]. unfold flat in *. rewrite (IH H2), app_nil_r.
  destruct eff as [r path a g f|r path|r path|r path|n gs|r path n]; try discriminate; reflexivity.
Qed.

End Frame.

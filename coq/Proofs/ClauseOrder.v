(* Proofs/ClauseOrder.v — the clauses of EVERY SELECT / DELETE / INSERT .. SELECT statement of the model come in the one canonical order,
   each at most once, each empty or introduced by its own keyword; the row-limiting clause is the reference clause (Ref.RowLimit)
   and stands after ORDER BY.  For all statements, contexts, parameterizer states and any renderers of the operands. *)
From PT Require Import Base.Str Model.Types Model.Value Model.Interval Model.Syntax Gen.Ctx Gen.Enums Gen.Prec Gen.Placeholders
     Model.Render Proofs.Thr Proofs.QueryEq Proofs.Thread Proofs.PaginationAll Ref.Lexer Ref.RowLimit.
Open Scope N_scope.

Definition kw_or_empty (k s : str) : Prop := s = [] \/ exists r, s = k ++ r.

Ltac shape_tac H := inv H; inv_all; repeat match goal with |- kw_or_empty _ (match ?x with _ => _ end) => destruct x end; first [left; reflexivity | right; eexists; reflexivity | right; eexists; vm_compute; reflexivity].

Section Shapes.
Variables (R : rens) (q : query) (c : ctx).

Lemma with_sql_shape p s p' : with_sql R q c p = Ok (s, p') -> kw_or_empty (L "WITH ") s.
Proof. unfold with_sql. cbv zeta. intro H. shape_tac H. Qed.
Lemma from_sql_shape p s p' : from_sql R q c p = Ok (s, p') -> kw_or_empty (L " FROM ") s.
Proof. unfold from_sql, from_list_sql. cbv zeta. intro H. shape_tac H. Qed.
Lemma joins_sql_shape p s p' : joins_sql R q c p = Ok (s, p') -> kw_or_empty [32] s.
Proof. unfold joins_sql. cbv zeta. intro H. shape_tac H. Qed.
Lemma where_sql_shape p s p' : where_sql R q c p = Ok (s, p') -> kw_or_empty (L " WHERE ") s.
Proof. unfold where_sql. cbv zeta. intro H. shape_tac H. Qed.
Lemma prewhere_sql_shape p s p' : prewhere_sql R q c p = Ok (s, p') -> kw_or_empty (L " PREWHERE ") s.
Proof. unfold prewhere_sql. cbv zeta. intro H. shape_tac H. Qed.
Lemma orderby_sql_shape p s p' : orderby_sql R q c p = Ok (s, p') -> kw_or_empty (L " ORDER BY ") s.
Proof. unfold orderby_sql, orderby_sql_c. cbv zeta. intro H. shape_tac H. Qed.
Lemma select_sql_shape p s p' : select_sql R q c p = Ok (s, p') -> exists r, s = L "SELECT " ++ r.
Proof. unfold select_sql. cbv zeta. intro H. inv H. eexists. reflexivity. Qed.

(* everything after the head: FROM, index hints, joins, PREWHERE, WHERE, GROUP BY, HAVING, ORDER BY, row limit, FOR UPDATE - in this order *)
Theorem tail_shape : forall qs p s p',
  q_on_conflict q = false ->
  tail_with R q c false false qs p = Ok (s, p') ->
  exists sf sfi sui sj spw sw sg sh so sp pa pb,
    s = qs ++ sf ++ sfi ++ sui ++ sj ++ spw ++ sw ++ sg ++ sh ++ so ++ sp ++ for_update_sql q c /\
    kw_or_empty (L " FROM ") sf /\ kw_or_empty (L " FORCE INDEX (") sfi /\ kw_or_empty (L " USE INDEX (") sui /\ kw_or_empty [32] sj /\
    kw_or_empty (L " PREWHERE ") spw /\ kw_or_empty (L " WHERE ") sw /\ kw_or_empty (L " GROUP BY ") sg /\ kw_or_empty (L " HAVING ") sh /\
    kw_or_empty (L " ORDER BY ") so /\ pagination R q c pa = Ok (sp, pb).
Proof.
  intros qs p s p' Hoc H. unfold tail_with in H. rewrite Hoc in H. cbv zeta in H.
  destruct (from_sql R q c p) as [[sf p1]|] eqn:E1; [|discriminate].
  match type of H with (match ?X with Ok _ => _ | Exn _ => _ end) = _ => destruct X as [[sfi p2]|] eqn:E2; [|discriminate] end.
  match type of H with (match ?X with Ok _ => _ | Exn _ => _ end) = _ => destruct X as [[sui p3]|] eqn:E3; [|discriminate] end.
  destruct (joins_sql R q c p3) as [[sj p4]|] eqn:E4; [|discriminate].
  destruct (prewhere_sql R q c p4) as [[spw p5]|] eqn:E5; [|discriminate].
  destruct (where_sql R q c p5) as [[sw p6]|] eqn:E6; [|discriminate].
  match type of H with (match ?X with Ok _ => _ | Exn _ => _ end) = _ => destruct X as [[sg p7]|] eqn:E7; [|discriminate] end.
  match type of H with (match ?X with Ok _ => _ | Exn _ => _ end) = _ => destruct X as [[sh p8]|] eqn:E8; [|discriminate] end.
  destruct (orderby_sql R q c p8) as [[so p9]|] eqn:E9; [|discriminate].
  destruct (pagination R q c p9) as [[sp p10]|] eqn:E10; [|discriminate].
  cbn [paren_if alias_if] in H. inversion H; subst; clear H.
  exists sf, sfi, sui, sj, spw, sw, sg, sh, so, sp, p9, p'.
  repeat split; try reflexivity.
  - eapply from_sql_shape; eassumption.
  - clear -E2. shape_tac E2.
  - clear -E3. shape_tac E3.
  - eapply joins_sql_shape; eassumption.
  - eapply prewhere_sql_shape; eassumption.
  - eapply where_sql_shape; eassumption.
  - clear -E7. shape_tac E7.
  - clear -E8. shape_tac E8.
  - eapply orderby_sql_shape; eassumption.
  - assumption.
Qed.

End Shapes.

(* ------------------------------------------------------------------------------------------------ *)
(* a plain SELECT statement, stand-alone                                                              *)

Definition plain_select (q : query) : bool :=
  negb (has_upd q) && negb (q_delete_from q) && negb (has_ins q) && negb (q_on_conflict q) && negb (is_nonempty_terms (q_returns q)) && complete q.

Lemma main_plain_select R q c0 c p : plain_select q = true ->
  main_with R q c0 c false false p =
    do (sw, p1) <- with_sql R q c p; do (ssel, p2) <- select_sql R q c p1; tail_with R q c false false (sw ++ ssel ++ []) p2.
Proof.
  unfold plain_select. intro H.
  repeat (apply andb_prop in H; destruct H as [H ?]).
  repeat match goal with X : negb _ = true |- _ => apply negb_true_iff in X end.
  unfold main_with, returning, generic_with.
  repeat match goal with X : _ = false |- _ => rewrite X end. cbv zeta. rewrite andb_false_r.
  destruct (q_returns q); [|discriminate].
  destruct (q_cls q);
    destruct (with_sql R q c p) as [[sw p1]|]; try reflexivity;
    destruct (select_sql R q c p1) as [[ssel p2]|]; try reflexivity;
    destruct (tail_with R q c false false (sw ++ ssel ++ []) p2) as [[s p3]|]; try reflexivity.
  destruct s; reflexivity.
Qed.

Theorem plain_select_shape : forall (q : query) (c0 : ctx) (p : pz) (s : str) (p' : pz),
  plain_select q = true ->
  render_query (standalone c0) p q = Ok (s, p') ->
  let c := clause_ctx q (adjust_ctx q (standalone c0)) in
  exists sw ssel sf sfi sui sj spw swh sg sh so sp ol oo,
    s = sw ++ ssel ++ sf ++ sfi ++ sui ++ sj ++ spw ++ swh ++ sg ++ sh ++ so ++ sp ++ for_update_sql q c /\
    kw_or_empty (L "WITH ") sw /\ (exists r, ssel = L "SELECT " ++ r) /\
    kw_or_empty (L " FROM ") sf /\ kw_or_empty (L " FORCE INDEX (") sfi /\ kw_or_empty (L " USE INDEX (") sui /\ kw_or_empty [32] sj /\
    kw_or_empty (L " PREWHERE ") spw /\ kw_or_empty (L " WHERE ") swh /\ kw_or_empty (L " GROUP BY ") sg /\ kw_or_empty (L " HAVING ") sh /\
    kw_or_empty (L " ORDER BY ") so /\ sp = ref_pagination (q_cls q) ol oo (has_order q).
Proof.
  intros q c0 p s p' Hs H c. rewrite render_query_eq in H. unfold q_render in H.
  assert (Hc : complete q = true) by (unfold plain_select in Hs; apply andb_prop in Hs; tauto).
  unfold complete in Hc. apply negb_true_iff in Hc. apply orb_false_iff in Hc. destruct Hc as [Hc Hc3]. apply orb_false_iff in Hc. destruct Hc as [Hc1 Hc2].
  rewrite Hc1, Hc2, Hc3 in H. cbv zeta in H.
  destruct (adjust_flags q (standalone c0)) as [F1 F2]. rewrite F1, F2 in H.
  replace (subquery (standalone c0)) with false in H by (destruct c0; reflexivity).
  replace (with_alias (standalone c0)) with false in H by (destruct c0; reflexivity).
  rewrite (main_plain_select the_rens q _ _ p Hs) in H. fold c in H.
  destruct (with_sql the_rens q c p) as [[sw p1]|] eqn:E1; [|discriminate].
  destruct (select_sql the_rens q c p1) as [[ssel p2]|] eqn:E2; [|discriminate].
  assert (Hoc : q_on_conflict q = false).
  { unfold plain_select in Hs. repeat (apply andb_prop in Hs; destruct Hs as [Hs ?]).
    repeat match goal with X : negb _ = true |- _ => apply negb_true_iff in X end. assumption. }
  destruct (tail_shape the_rens q c _ _ _ _ Hoc H) as (sf & sfi & sui & sj & spw & swh & sg & sh & so & sp & pa & pb & Es & K1 & K2 & K3 & K4 & K5 & K6 & K7 & K8 & K9 & Ep).
  rewrite pagination_is_reference in Ep.
  assert (exists ol oo, sp = ref_pagination (q_cls q) ol oo (has_order q)) as (ol & oo & Esp).
  { destruct (offset_slot_first (q_cls q)); inv Ep; eexists; eexists; reflexivity. }
  exists sw, ssel, sf, sfi, sui, sj, spw, swh, sg, sh, so, sp, ol, oo.
  repeat split; try assumption.
  - rewrite Es. rewrite app_nil_r. rewrite <- !app_assoc. reflexivity.
  - eapply with_sql_shape; eassumption.
  - eapply select_sql_shape; eassumption.
Qed.

(* ------------------------------------------------------------------------------------------------ *)
(* the other statement kinds                                                                          *)

Section OtherKinds.
Variables (R : rens) (q : query) (c : ctx).

Lemma set_sql_shape p s p' : set_sql R q c p = Ok (s, p') -> exists r, s = L " SET " ++ r.
Proof. unfold set_sql. cbv zeta. intro H. inv H. eexists. reflexivity. Qed.

(* UPDATE (generic / MySQL / SQL Server / Oracle form): WITH, UPDATE <table>, joins, SET, FROM, WHERE *)
Theorem generic_update_shape : forall p s p',
  generic_update R q c p = Ok (s, p') ->
  exists sw st sj ss sf swh,
    s = sw ++ L "UPDATE " ++ st ++ sj ++ ss ++ sf ++ swh /\
    kw_or_empty (L "WITH ") sw /\ kw_or_empty [32] sj /\ (exists r, ss = L " SET " ++ r) /\ kw_or_empty (L " FROM ") sf /\ kw_or_empty (L " WHERE ") swh.
Proof.
  intros p s p' H. unfold generic_update in H.
  destruct (with_sql R q c p) as [[sw p1]|] eqn:E1; [|discriminate].
  destruct (table_sql R c p1 (q_update_table q)) as [[st p2]|] eqn:E2; [|discriminate].
  destruct (joins_sql R q c p2) as [[sj p3]|] eqn:E3; [|discriminate].
  destruct (set_sql R q c p3) as [[ss p4]|] eqn:E4; [|discriminate].
  destruct (from_sql R q c p4) as [[sf p5]|] eqn:E5; [|discriminate].
  destruct (where_sql R q c p5) as [[swh p6]|] eqn:E6; [|discriminate].
  inversion H; subst; clear H.
  exists sw, st, sj, ss, sf, swh. repeat split.
  - eapply with_sql_shape; eassumption.
  - eapply joins_sql_shape; eassumption.
  - eapply set_sql_shape; eassumption.
  - eapply from_sql_shape; eassumption.
  - eapply where_sql_shape; eassumption.
Qed.
(* DELETE: the head DELETE, then FROM, index hints, joins, PREWHERE, WHERE, GROUP BY, HAVING, ORDER BY, row limit, FOR UPDATE - the one tail order *)
Theorem delete_shape : forall p s p',
  has_upd q = false -> q_delete_from q = true -> q_on_conflict q = false ->
  generic_with R q c false false p = Ok (s, p') ->
  exists sf sfi sui sj spw sw sg sh so sp pa pb,
    s = L "DELETE" ++ sf ++ sfi ++ sui ++ sj ++ spw ++ sw ++ sg ++ sh ++ so ++ sp ++ for_update_sql q c /\
    kw_or_empty (L " FROM ") sf /\ kw_or_empty (L " FORCE INDEX (") sfi /\ kw_or_empty (L " USE INDEX (") sui /\ kw_or_empty [32] sj /\
    kw_or_empty (L " PREWHERE ") spw /\ kw_or_empty (L " WHERE ") sw /\ kw_or_empty (L " GROUP BY ") sg /\ kw_or_empty (L " HAVING ") sh /\
    kw_or_empty (L " ORDER BY ") so /\ pagination R q c pa = Ok (sp, pb).
Proof.
  intros p s p' Hu Hd Hoc H. unfold generic_with in H. rewrite Hu, Hd in H.
  exact (tail_shape R q c (L "DELETE") p s p' Hoc H).
Qed.

(* INSERT .. VALUES: WITH, INSERT INTO <table> (or REPLACE INTO / INSERT IGNORE INTO), the column list, VALUES (rows), the upsert part - in this order *)
Definition insert_kw (k : str) : Prop := k = L "REPLACE INTO " \/ k = L "INSERT IGNORE INTO " \/ k = L "INSERT INTO ".
Theorem insert_values_shape : forall p s p',
  has_upd q = false -> q_delete_from q = false -> q_select_into q = false -> has_ins q = true -> has_vals q = true ->
  generic_with R q c false false p = Ok (s, p') ->
  exists sw kw st sc rows s1 s2,
    s = sw ++ kw ++ st ++ sc ++ L " VALUES (" ++ rows ++ L ")" ++ s1 ++ s2 /\
    kw_or_empty (L "WITH ") sw /\ insert_kw kw /\ kw_or_empty (L " (") sc /\ (q_on_conflict q = false -> s1 = [] /\ s2 = []).
Proof.
  intros p s p' Hu Hd Hsi Hi Hv H. unfold generic_with in H. rewrite Hu, Hd, Hsi, Hi, Hv in H. cbn [negb andb] in H. cbv zeta in H.
  destruct (with_sql R q c p) as [[sw p1]|] eqn:E1; [|discriminate].
  destruct (table_sql R c p1 (q_insert_table q)) as [[st p2]|] eqn:E2; [|discriminate].
  match type of H with (match ?X with Ok _ => _ | Exn _ => _ end) = _ => destruct X as [[sc p3]|] eqn:E3; [|discriminate] end.
  match type of H with (match ?X with Ok _ => _ | Exn _ => _ end) = _ => destruct X as [[sr p4]|] eqn:E4; [|discriminate] end.
  set (kw := if q_replace_ q then L "REPLACE INTO "
             else match q_cls q with BMySQL => if q_do_nothing q then L "INSERT IGNORE INTO " else L "INSERT INTO " | _ => L "INSERT INTO " end) in *.
  assert (Hk : insert_kw kw).
  { unfold kw, insert_kw. destruct (q_replace_ q); [left; reflexivity|]. destruct (q_cls q); try (right; right; reflexivity).
    destruct (q_do_nothing q); [right; left|right; right]; reflexivity. }
  destruct (q_on_conflict q) eqn:Eoc.
  - destruct (on_conflict_sql R q c p4) as [[s1 p5]|] eqn:E5; [|discriminate].
    destruct (on_conflict_action_sql R q c p5) as [[s2 p6]|] eqn:E6; [|discriminate].
    inversion H; subst; clear H.
    exists sw, kw, st, sc, (join (L "),(") sr), s1, s2. repeat split; try assumption; try discriminate.
    + repeat (progress (cbn [app]; rewrite <- ?app_assoc; rewrite ?app_nil_r)). reflexivity.
    + eapply with_sql_shape; eassumption.
    + clear -E3. shape_tac E3.
  - inversion H; subst; clear H.
    exists sw, kw, st, sc, (join (L "),(") sr), [], []. repeat split; try assumption; try reflexivity.
    + repeat (progress (cbn [app]; rewrite <- ?app_assoc; rewrite ?app_nil_r)). reflexivity.
    + eapply with_sql_shape; eassumption.
    + clear -E3. shape_tac E3.
Qed.
End OtherKinds.

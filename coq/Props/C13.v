(* Props/C13.v — C13: statements are well-formed and independent of the order of commuting calls.

   Judged on implementation outputs by ./check C13: Ref.Clauses.wellformed in Coq on every statement (clause order, no repetition, balanced brackets,
   closed quotes); incomplete builders render ""; the EXHAUSTIVE sweep over ordered pairs of builder methods (both orders give the same SQL where the
   calls address different clauses; repeated calls accumulate in call order).

   Proved here: (iii) for ALL builders of the model, an incomplete one renders the empty string in every context; (iv) the frame theorem - two state
   transformers whose read/write footprints do not interfere commute, on any store - and, by computation on the footprints regenerated from /repo on
   every run, which pairs of builder methods it applies to. *)
From PT Require Import Base.Str Model.Types Model.Value Model.Interval Model.Syntax Gen.Ctx Gen.Enums Gen.Prec Gen.Placeholders Model.Render
     Ref.Lexer Ref.Clauses Gen.Footprints Ref.RowLimit Proofs.QueryEq Proofs.PaginationAll Proofs.ClauseOrder.
Open Scope N_scope.

(* ---- (iii) an incomplete builder renders the empty string ---- *)
Definition incomplete (q : query) : bool :=
  match q with
  | MkQ _ (MkFl _ delete_from _ _ _ _ _ _ _ _ _ _ _ _ _ _ _ _) _ _ selects _ _ _ values _ _ _ _ _ _ _ _ updates insert_table update_table _ _ _ _ _ _ =>
      let has_sel := is_nonempty_terms selects in let has_ins := is_some_t insert_table in let has_upd := is_some_t update_table in
      negb (has_sel || has_ins || delete_from || has_upd) ||
      (has_ins && negb (has_sel || match values with RNil => false | _ => true end)) ||
      (has_upd && negb (match updates with UNil => false | _ => true end))
  end.
Theorem C13_incomplete_is_empty : forall q c p, incomplete q = true -> render_query c p q = Ok ([], p).
Proof.
  intros q c p H. destruct q as [cls fl from withs selects force_idx use_idx columns values wheres prewheres havings groupbys orderbys joins_ lim off
        updates insert_table update_table conflict_fields conflict_updates conflict_wheres conflict_update_wheres returns distinct_on].
  destruct fl.
  destruct selects, insert_table, update_table, delete_from, values, updates; try discriminate H; reflexivity.
Qed.
Print Assumptions C13_incomplete_is_empty.

(* ---- (iv) the frame theorem: non-interfering transformers commute ---- *)
Section Frame.
  Variables (attr val : Type) (mem : attr -> list attr -> bool).
  Definition store := attr -> val.
  (* f writes only W, and what it writes depends only on R *)
  Definition respects (f : store -> store) (R W : list attr) : Prop :=
    (forall s a, mem a W = false -> f s a = s a) /\
    (forall s s', (forall a, mem a R = true -> s a = s' a) -> forall a, mem a W = true -> f s a = f s' a).
  Definition disjoint (X Y : list attr) : Prop := forall a, mem a X = true -> mem a Y = false.

  Theorem frame_commute : forall f g Rf Wf Rg Wg,
    respects f Rf Wf -> respects g Rg Wg ->
    disjoint Wf Rg -> disjoint Wf Wg -> disjoint Wg Rf -> disjoint Wg Wf ->
    forall s a, f (g s) a = g (f s) a.
  Proof.
    intros f g Rf Wf Rg Wg [Ff Df] [Fg Dg] H1 H2 H3 H4 s a.
    destruct (mem a Wf) eqn:Ef; destruct (mem a Wg) eqn:Eg.
    - rewrite (H2 a Ef) in Eg. discriminate.
    - (* a written by f only *)
      rewrite (Fg (f s) a Eg). apply Df; [|exact Ef]. intros b Hb. apply Fg.
      destruct (mem b Wg) eqn:E; [|reflexivity]. rewrite (H3 b E) in Hb. discriminate.
    - rewrite (Ff (g s) a Ef). symmetry. apply Dg; [|exact Eg]. intros b Hb. apply Ff.
      destruct (mem b Wf) eqn:E; [|reflexivity]. rewrite (H1 b E) in Hb. discriminate.
    - rewrite (Ff (g s) a Ef), (Fg s a Eg), (Fg (f s) a Eg), (Ff s a Ef). reflexivity.
  Qed.
End Frame.
Print Assumptions frame_commute.

(* ---- the computed table: which pairs of builder methods the frame theorem applies to ---- *)
Definition memb (x : str) (l : list str) : bool := existsb (seqb x) l.
Definition inter (a b : list str) : bool := existsb (fun x => memb x b) a.
Definition fp := (str * str * list str * list str * bool)%type.
Definition noninterfering (x y : fp) : bool :=
  let '(_, _, r1, w1, u1) := x in let '(_, _, r2, w2, u2) := y in
  negb u1 && negb u2 && negb (inter w1 r2) && negb (inter w1 w2) && negb (inter w2 r1).
Definition of_class (c : str) : list fp := filter (fun e => let '(cn, _, _, _, _) := e in seqb cn c) footprints.
Definition name_of (e : fp) : str := let '(_, m, _, _, _) := e in m.
Definition commuting_pairs (c : str) : list (str * str) :=
  flat (map (fun x => flat (map (fun y => if noninterfering x y then [(name_of x, name_of y)] else []) (of_class c))) (of_class c)).

(* the clause-setting calls that by their footprints cannot interfere: proved to commute by frame_commute (given that the footprints describe the methods) *)
Definition must_commute : list (str * str) :=
  [ (L "limit", L "offset"); (L "limit", L "where"); (L "offset", L "orderby"); (L "distinct", L "where"); (L "distinct", L "groupby");
    (L "having", L "orderby"); (L "having", L "where"); (L "groupby", L "orderby"); (L "for_update", L "where"); (L "force_index", L "use_index");
    (L "force_index", L "where"); (L "limit", L "having"); (L "with_", L "where"); (L "with_totals", L "having"); (L "select", L "where");
    (L "select", L "orderby"); (L "select", L "limit"); (L "select", L "having"); (L "groupby", L "having"); (L "set", L "where"); (L "columns", L "insert");
    (L "join+on", L "limit"); (L "join+on", L "distinct"); (L "orderby", L "where"); (L "groupby", L "where") ].
Definition pair_in (p : str * str) (l : list (str * str)) : bool :=
  existsb (fun q => (seqb (fst p) (fst q) && seqb (snd p) (snd q)) || (seqb (fst p) (snd q) && seqb (snd p) (fst q))) l.
Theorem C13_footprints_allow_commutation :
  forallb (fun c => forallb (fun p => pair_in p (commuting_pairs c)) must_commute)
          [L "QueryBuilder"; L "MySQLQueryBuilder"; L "PostgreSQLQueryBuilder"; L "SQLLiteQueryBuilder"; L "MSSQLQueryBuilder"; L "OracleQueryBuilder"] = true.
Proof. vm_compute. reflexivity. Qed.
Print Assumptions C13_footprints_allow_commutation.

(* (ii) clause order, for EVERY plain SELECT statement of the model (any clauses and operands, any context, any parameterizer state): the text is
   WITH, SELECT, FROM, index hints, joins, PREWHERE, WHERE, GROUP BY, HAVING, ORDER BY, row limit, FOR UPDATE - in this one order, each clause at most
   once, each empty or introduced by its own keyword, the row limit being the dialect's reference clause.  The statement holds clauses in fields, so
   the order in which the builder calls were made cannot reach the text except through the contents of the fields. *)
Theorem C13_select_clause_order : forall (q : query) (c0 : ctx) (p : pz) (s : str) (p' : pz),
  plain_select q = true ->
  render_query (standalone c0) p q = Ok (s, p') ->
  let c := clause_ctx q (adjust_ctx q (standalone c0)) in
  exists sw ssel sf sfi sui sj spw swh sg sh so sp ol oo,
    s = sw ++ ssel ++ sf ++ sfi ++ sui ++ sj ++ spw ++ swh ++ sg ++ sh ++ so ++ sp ++ for_update_sql q c /\
    kw_or_empty (L "WITH ") sw /\ (exists r, ssel = L "SELECT " ++ r) /\
    kw_or_empty (L " FROM ") sf /\ kw_or_empty (L " FORCE INDEX (") sfi /\ kw_or_empty (L " USE INDEX (") sui /\ kw_or_empty [32] sj /\
    kw_or_empty (L " PREWHERE ") spw /\ kw_or_empty (L " WHERE ") swh /\ kw_or_empty (L " GROUP BY ") sg /\ kw_or_empty (L " HAVING ") sh /\
    kw_or_empty (L " ORDER BY ") so /\ sp = ref_pagination (q_cls q) ol oo (has_order q).
Proof. exact plain_select_shape. Qed.
Print Assumptions C13_select_clause_order.


(* the same for EVERY UPDATE statement of the generic / MySQL / SQL Server / Oracle form: WITH, UPDATE <table>, joins, SET, FROM, WHERE *)
Theorem C13_update_clause_order : forall (q : query) (c : ctx) (p : pz) (s : str) (p' : pz),
  generic_update the_rens q c p = Ok (s, p') ->
  exists sw st sj ss sf swh,
    s = sw ++ L "UPDATE " ++ st ++ sj ++ ss ++ sf ++ swh /\
    kw_or_empty (L "WITH ") sw /\ kw_or_empty [32] sj /\ (exists r, ss = L " SET " ++ r) /\ kw_or_empty (L " FROM ") sf /\ kw_or_empty (L " WHERE ") swh.
Proof. intros q c. exact (generic_update_shape the_rens q c). Qed.
Print Assumptions C13_update_clause_order.


(* EVERY DELETE statement: DELETE, then FROM, index hints, joins, PREWHERE, WHERE, GROUP BY, HAVING, ORDER BY, row limit, FOR UPDATE *)
Theorem C13_delete_clause_order : forall (q : query) (c : ctx) (p : pz) (s : str) (p' : pz),
  has_upd q = false -> q_delete_from q = true -> q_on_conflict q = false ->
  generic_with the_rens q c false false p = Ok (s, p') ->
  exists sf sfi sui sj spw sw sg sh so sp pa pb,
    s = L "DELETE" ++ sf ++ sfi ++ sui ++ sj ++ spw ++ sw ++ sg ++ sh ++ so ++ sp ++ for_update_sql q c /\
    kw_or_empty (L " FROM ") sf /\ kw_or_empty (L " FORCE INDEX (") sfi /\ kw_or_empty (L " USE INDEX (") sui /\ kw_or_empty [32] sj /\
    kw_or_empty (L " PREWHERE ") spw /\ kw_or_empty (L " WHERE ") sw /\ kw_or_empty (L " GROUP BY ") sg /\ kw_or_empty (L " HAVING ") sh /\
    kw_or_empty (L " ORDER BY ") so /\ pagination the_rens q c pa = Ok (sp, pb).
Proof. intros q c. exact (delete_shape the_rens q c). Qed.
Print Assumptions C13_delete_clause_order.

(* EVERY INSERT .. VALUES statement: WITH, INSERT INTO / REPLACE INTO / INSERT IGNORE INTO <table>, the column list, VALUES (rows), the upsert part *)
Theorem C13_insert_clause_order : forall (q : query) (c : ctx) (p : pz) (s : str) (p' : pz),
  has_upd q = false -> q_delete_from q = false -> q_select_into q = false -> has_ins q = true -> has_vals q = true ->
  generic_with the_rens q c false false p = Ok (s, p') ->
  exists sw kw st sc rows s1 s2,
    s = sw ++ kw ++ st ++ sc ++ L " VALUES (" ++ rows ++ L ")" ++ s1 ++ s2 /\
    kw_or_empty (L "WITH ") sw /\ insert_kw kw /\ kw_or_empty (L " (") sc /\ (q_on_conflict q = false -> s1 = [] /\ s2 = []).
Proof. intros q c. exact (insert_values_shape the_rens q c). Qed.
Print Assumptions C13_insert_clause_order.

(* ---- the specification on examples ---- *)
Example C13_wellformed_examples :
  wellformed SQLITE BGeneric (L "WITH c AS (SELECT ""a"" FROM ""t"") SELECT DISTINCT ""a"",COUNT(*) FROM ""t"" JOIN ""u"" ON ""t"".""a""=""u"".""a"" LEFT JOIN ""v"" USING (""a"") WHERE ""b""=1 GROUP BY ""a"" HAVING COUNT(*)>1 ORDER BY ""a"" LIMIT 1 OFFSET 2 FOR UPDATE") = Some true /\
  wellformed SQLITE BGeneric (L "SELECT ""a"" FROM ""t"" WHERE ""b""=1 WHERE ""c""=2") = Some false /\
  wellformed SQLITE BGeneric (L "SELECT ""a"" FROM ""t"" ORDER BY ""a"" WHERE ""b""=1") = Some false /\
  wellformed SQLITE BGeneric (L "SELECT (""a"" FROM ""t""") = Some false /\
  wellformed SQLITE BGeneric (L "UPDATE ""t"" SET  WHERE ""a""=1") = Some true /\
  wellformed MSSQL BMSSQL (L "SELECT ""a"" FROM ""t"" ORDER BY ""a"" OFFSET 1 ROWS FETCH NEXT 2 ROWS ONLY") = Some true /\
  wellformed MSSQL BMSSQL (L "SELECT ""a"" FROM ""t"" FETCH NEXT 2 ROWS ONLY OFFSET 1 ROWS") = Some false /\
  wellformed POSTGRESQL BPostgreSQL (L "UPDATE ""t"" SET ""a""=1 FROM ""u"" JOIN ""v"" ON ""u"".""a""=""v"".""a"" WHERE ""t"".""b""=2 RETURNING ""t"".""a""") = Some true.
Proof. vm_compute. repeat split. Qed.

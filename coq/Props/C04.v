(* Props/C04.v — C04: parameterised rendering is equivalent to inline rendering.

   Statement judged on every implementation output by ./check C04: Ref.ParamEq.c04_ok (token walk of the two texts, placeholder
   style / count / order, plain values).

   Proved here:
   - C04_thread / C04_inline_none (Proofs/Thread.v): for EVERY term and statement of the model, rendering with a parameterizer only
     APPENDS to the value list (it never drops, reorders or rewrites earlier values, and keeps the caller's placeholder factory), and
     rendering without one produces no list;
   - shape theorems, for ALL values (any kind, symbolic) and all six classes: the parameterised text and the inline text are the SAME
     text around the holes, the k-th hole holding the k-th placeholder resp. the inline literal of the k-th listed value - including the
     shapes whose clauses are rendered out of textual order or late (SQL Server / Oracle offset before limit, MySQL UPDATE .. ORDER BY / LIMIT);
   - C04_styles: the placeholder table regenerated from /repo is the dialects' (numbered for PostgreSQL only). *)
From PT Require Import Base.Str Model.Types Model.Value Model.Interval Model.Syntax Gen.Ctx Gen.Enums Gen.Prec Gen.Placeholders Model.Render
     Ref.Lexer Ref.Align Ref.ParamEq Proofs.Thr Proofs.Thread.
Open Scope N_scope.
Definition tbl : term := TTable (MkTRef true (L "t") [] None 0) NoT NoT.
Definition fld (n : string) : term := TField (L n) None None.
Definition fl0 (cls : bcls) : qflags :=
  MkFl None false false false false false false false false false false false false (wrap_set_ops_of cls) [] [] None (wrapper_of cls).
Definition qn (cls : bcls) (n : string) : str := fquote (quote_char (ctx_of cls)) (L n).
Definition ph (cls : bcls) (k : N) : str := ph_text (placeholder_style (dialect (ctx_of cls))) k.
Definition my (cls : bcls) : bool := dial_eqb (dialect (ctx_of cls)) MYSQL.
Definition lit (cls : bcls) (w : wcls) (v : value) : str := value_sql w (my cls) (L "'") v.

(* SELECT <v1>,a FROM t WHERE b=<v2> ORDER BY a <pagination with v3 (limit) and v4 (offset)> *)
Definition sel_shape (cls : bcls) (v1 v2 v3 v4 : value) (i1 i2 i3 i4 : str) : query :=
  MkQ cls (fl0 cls) (TCons tbl TNil) WNil (TCons (TVal (wrapper_of cls) v1 i1 None true) (TCons (fld "a") TNil)) TNil TNil TNil RNil
      (SomeT (TBasic (CEq Eq) (fld "b") (TVal WPlain v2 i2 None true) None)) NoT NoT GNil (OCons (fld "a") None ONil) JNil
      (SomeT (TVal WPlain v3 i3 None true)) (SomeT (TVal WPlain v4 i4 None true)) UNil NoT NoT TNil CUNil NoT NoT TNil TNil.
(* the text around the four holes, per class: limit-style classes put the limit hole first, SQL Server and Oracle the offset hole *)
Definition sel_text (cls : bcls) (h1 h2 hlim hoff : str) : str :=
  L "SELECT " ++ h1 ++ L "," ++ qn cls "a" ++ L " FROM " ++ qn cls "t" ++ L " WHERE " ++ qn cls "b" ++ L "=" ++ h2 ++ L " ORDER BY " ++ qn cls "a" ++
  match cls with
  | BMSSQL | BOracle => L " OFFSET " ++ hoff ++ L " ROWS FETCH NEXT " ++ hlim ++ L " ROWS ONLY"
  | _ => L " LIMIT " ++ hlim ++ L " OFFSET " ++ hoff
  end.
Definition offset_first (cls : bcls) : bool := match cls with BMSSQL | BOracle => true | _ => false end.

Ltac norm := lazy -[value_sql should_parameterize app Z_to_str N_to_str]; cbn [app]; repeat rewrite <- app_assoc; rewrite ?app_nil_r; cbn [app]; rewrite ?app_nil_r.

Theorem C04_shape_select : forall cls v1 v2 v3 v4 i1 i2 i3 i4,
  should_parameterize v1 = true -> should_parameterize v2 = true -> should_parameterize v3 = true -> should_parameterize v4 = true ->
  render (ctx_of cls) None (TQuery (sel_shape cls v1 v2 v3 v4 i1 i2 i3 i4)) =
    Ok (sel_text cls (lit cls (wrapper_of cls) v1) (lit cls WPlain v2) (lit cls WPlain v3) (lit cls WPlain v4), None) /\
  render (ctx_of cls) (Some (MkPz None [])) (TQuery (sel_shape cls v1 v2 v3 v4 i1 i2 i3 i4)) =
    Ok (sel_text cls (ph cls 1) (ph cls 2) (ph cls (if offset_first cls then 4 else 3)) (ph cls (if offset_first cls then 3 else 4)),
        Some (MkPz None (if offset_first cls then [i1; i2; i4; i3] else [i1; i2; i3; i4]))).
Proof.
  intros cls v1 v2 v3 v4 i1 i2 i3 i4 H1 H2 H3 H4.
  Time destruct cls; (split; [norm; reflexivity | norm; rewrite ?H1, ?H2, ?H3, ?H4; norm; rewrite ?H1, ?H2, ?H3, ?H4; norm; rewrite ?H1, ?H2, ?H3, ?H4; norm; rewrite ?H1, ?H2, ?H3, ?H4; norm; reflexivity]).
Qed.
Print Assumptions C04_shape_select.

(* MySQL appends ORDER BY / LIMIT of an UPDATE after the generic statement, with the context it was called with *)
Definition upd_shape (cls : bcls) (v1 v2 v3 : value) (i1 i2 i3 : str) : query :=
  MkQ cls (fl0 cls) TNil WNil TNil TNil TNil TNil RNil
      (SomeT (TBasic (CEq Eq) (fld "c") (TVal WPlain v2 i2 None true) None)) NoT NoT GNil (OCons (fld "a") None ONil) JNil
      (SomeT (TVal WPlain v3 i3 None true)) NoT (UCons (fld "a") (TVal (wrapper_of cls) v1 i1 None true) UNil) NoT (SomeT tbl) TNil CUNil NoT NoT TNil TNil.
Definition upd_text (cls : bcls) (h1 h2 h3 : str) : str :=
  L "UPDATE " ++ qn cls "t" ++ L " SET " ++ qn cls "a" ++ L "=" ++ h1 ++ L " WHERE " ++ qn cls "c" ++ L "=" ++ h2 ++
  match cls with
  | BMySQL | BPostgreSQL | BSQLite => L " ORDER BY " ++ qn cls "a" ++ L " LIMIT " ++ h3
  | _ => []
  end.
Definition upd_has_limit (cls : bcls) : bool := match cls with BMySQL | BPostgreSQL | BSQLite => true | _ => false end.
Theorem C04_shape_mysql_update : forall cls v1 v2 v3 i1 i2 i3,
  should_parameterize v1 = true -> should_parameterize v2 = true -> should_parameterize v3 = true ->
  render (ctx_of cls) None (TQuery (upd_shape cls v1 v2 v3 i1 i2 i3)) =
    Ok (upd_text cls (lit cls (wrapper_of cls) v1) (lit cls WPlain v2) (lit cls WPlain v3), None) /\
  render (ctx_of cls) (Some (MkPz None [])) (TQuery (upd_shape cls v1 v2 v3 i1 i2 i3)) =
    Ok (upd_text cls (ph cls 1) (ph cls 2) (ph cls 3), Some (MkPz None (if upd_has_limit cls then [i1; i2; i3] else [i1; i2]))).
Proof.
  intros cls v1 v2 v3 i1 i2 i3 H1 H2 H3.
  destruct cls; (split; [norm; reflexivity | norm; rewrite ?H1, ?H2, ?H3; norm; rewrite ?H1, ?H2, ?H3; norm; rewrite ?H1, ?H2, ?H3; norm; reflexivity]).
Qed.
Print Assumptions C04_shape_mysql_update.

(* the SQL Server page clause alone (the offset literal 0 when only a limit is given is not a value) *)
Definition page_shape (cls : bcls) (v3 : value) (i3 : str) : query :=
  MkQ cls (fl0 cls) (TCons tbl TNil) WNil (TCons (fld "a") TNil) TNil TNil TNil RNil NoT NoT NoT GNil ONil JNil
      (SomeT (TVal WPlain v3 i3 None true)) NoT UNil NoT NoT TNil CUNil NoT NoT TNil TNil.
Theorem C04_shape_mssql_page : forall v3 i3, should_parameterize v3 = true ->
  render (ctx_of BMSSQL) None (TQuery (page_shape BMSSQL v3 i3)) =
    Ok (L "SELECT ""a"" FROM ""t"" ORDER BY (SELECT 0) OFFSET 0 ROWS FETCH NEXT " ++ lit BMSSQL WPlain v3 ++ L " ROWS ONLY", None) /\
  render (ctx_of BMSSQL) (Some (MkPz None [])) (TQuery (page_shape BMSSQL v3 i3)) =
    Ok (L "SELECT ""a"" FROM ""t"" ORDER BY (SELECT 0) OFFSET 0 ROWS FETCH NEXT " ++ ph BMSSQL 1 ++ L " ROWS ONLY", Some (MkPz None [i3])).
Proof. intros v3 i3 H3. split; [norm; reflexivity | norm; rewrite ?H3; norm; reflexivity]. Qed.

(* placeholder styles, regenerated from Parameter.IDX_PLACEHOLDERS *)
Theorem C04_styles :
  placeholder_style POSTGRESQL = PhNumbered (L "$") /\ placeholder_style MYSQL = PhConst (L "%s") /\
  placeholder_style SQLITE = PhConst (L "?") /\ placeholder_style MSSQL = PhConst (L "?") /\ placeholder_style ORACLE = PhConst (L "?") /\
  forall b k, let d := dialect (ctx_of b) in lex d (ph_text (placeholder_style d) (k mod 10)) = Some [TPh (ph_text (placeholder_style d) (k mod 10))].
Proof.
  repeat split. intros b k d. subst d. assert (H : k mod 10 < 10) by (apply N.mod_lt; discriminate).
  destruct (k mod 10) as [|p]; [destruct b; reflexivity|].
  do 4 (destruct p as [p|p|]; try (destruct b; reflexivity)); exfalso; revert H; clear; intro H; compute in H; destruct p; discriminate.
Qed.

(* ---- the parameterizer is threaded through EVERY term and statement (mutual induction over the 16 sorts, Proofs/Thread.v) ---- *)
Theorem C04_thread : forall (t : term) (c : ctx) (z : pzs) (s : str) (p' : pz),
  render c (Some z) t = Ok (s, p') ->
  exists z' ext, p' = Some z' /\ pz_factory z' = pz_factory z /\ pz_vals z' = pz_vals z ++ ext.
Proof.
  intros t c z s p' H. pose proof (thread_term t c (Some z) s p' H) as T. destruct p' as [z'|]; [|destruct T].
  destruct T as [F [ext E]]. exists z', ext. auto.
Qed.
Print Assumptions C04_thread.

Theorem C04_inline_none : forall (t : term) (c : ctx) (s : str) (p' : pz), render c None t = Ok (s, p') -> p' = None.
Proof. intros t c s p' H. pose proof (thread_term t c None s p' H) as T. destruct p'; [destruct T|reflexivity]. Qed.
Print Assumptions C04_inline_none.

Theorem C04_thread_statement : forall (q : query) (c : ctx) (z : pzs) (s : str) (p' : pz),
  render_query c (Some z) q = Ok (s, p') ->
  exists z' ext, p' = Some z' /\ pz_factory z' = pz_factory z /\ pz_vals z' = pz_vals z ++ ext.
Proof. intros q c z s p' H. apply (C04_thread (TQuery q) c z s p'). exact H. Qed.
Print Assumptions C04_thread_statement.

Example C04_nonvacuous :
  c04_ok POSTGRESQL (Some (placeholder_style POSTGRESQL)) (L "SELECT $1,""a"" FROM ""t"" WHERE ""b""=$2 AND ""c"" IN ($3,$4)")
         [PV (VStr (L "it's")); PV (VInt (-5)); PV (VBool true); PV VNone]
         (L "SELECT 'it''s',""a"" FROM ""t"" WHERE ""b""=-5 AND ""c"" IN (true,null)") = Some true /\
  c04_ok MYSQL (Some (placeholder_style MYSQL)) (L "SELECT %s FROM `t` WHERE `b`=%s") [PV (VInt 2); PV (VInt 1)] (L "SELECT 1 FROM `t` WHERE `b`=2") = Some false.
Proof. vm_compute. split; reflexivity. Qed.

(* Props/C15.v — C15: copy, deepcopy and pickle round-trips preserve and decouple objects.
   PARTIAL.  Proved: (i) decoupling — a duplicate is a pre-existing object for every later builder
   call, so C01's frame theorem applies to it (shallow copies share containers: exactly the case the
   copy rule must protect); (ii) every class with dynamic attribute lookup wraps it in ignore_copy
   and ignore_copy refuses every special name that copy/pickle look up on instances.
   Not expressible in the model: that copy.deepcopy / pickle rebuild an isomorphic graph is CPython
   machinery; ./check C15 exercises the three mechanisms on generated object graphs. *)
From PT Require Import Base.Str Model.Effects Gen.Effects Proofs.Frame.
Open Scope N_scope.

Theorem C15_dynamic_lookup_guarded : dyn_lookup_guarded classes ignore_copy_names = true.
Proof. vm_compute. reflexivity. Qed.
Print Assumptions C15_dynamic_lookup_guarded.

(* decoupling: whichever way the duplicate was made, later accepted builder calls write only fresh
   cells, hence never a cell of the original or of the duplicate *)
Theorem C15_decoupled :
  forall (mn : list str) (c : classrec) (old : loc -> bool) (self' : loc) (argloc : str -> list str -> loc)
         (alias_is_none : loc -> bool) (original duplicate : loc),
  old original = true -> old duplicate = true ->
  old self' = false ->
  forall (fresh_loc : loc), old fresh_loc = false ->
  forall effs e,
  builder_ok_from classes mn c [] effs = true -> env_ok c old [] e ->
  Forall (fun x => (cell_loc x = original \/ cell_loc x = duplicate) ->
                   exists l, x = Cell l (L "alias") /\ alias_is_none l = true)
         (all_cells classes c self' argloc alias_is_none fresh_loc e effs).
Proof.
  intros mn c old self' argloc an original duplicate Ho Hd Hs fl Hfl effs e Hok Henv.
  pose proof (builder_frame classes mn c old self' argloc an Hs fl Hfl effs [] e Hok Henv) as H.
  eapply Forall_impl; [|exact H]. intros x [Hx|Hx] Hloc; [|exact Hx].
  destruct Hloc as [E|E]; rewrite E in Hx; congruence.
Qed.
Print Assumptions C15_decoupled.

Example C15_nonvacuous : n_dyn_classes classes = 4%nat /\ all_builders_ok classes = true.
Proof. vm_compute. split; reflexivity. Qed.

(* Props/C11.v — C11: column references are qualified exactly when needed and always by the right name.

   Judged on every implementation output by ./check C11: Ref.Qualify.c11_ok (every marked column of the lexed statement carries exactly
   the qualifier the rule demands: the alias of an aliased source always, the table name iff more than one row source is in scope, nothing
   in the exempt positions).

   Proved here on the model of the renderers, for ALL names: the qualifier rule of a column reference and of table.*; and for SELECT
   statements of all six classes with columns in the select list, WHERE, GROUP BY, HAVING, ORDER BY and JOIN..ON: with one source every
   reference is bare, with a join every reference is qualified by its table's name, with an aliased source by the alias. *)
From PT Require Import Base.Str Model.Types Model.Value Model.Interval Model.Syntax Gen.Ctx Gen.Enums Gen.Prec Gen.Placeholders Model.Render
     Ref.Lexer Ref.Qualify.
Open Scope N_scope.

Definition qn (c : ctx) (s : str) : str := fquote (quote_char c) s.

(* the rule for one column reference, in every context *)
Theorem C11_field_rule : forall c p name r,
  render c p (TField name (Some r) None) =
  Ok (if with_namespace c || str_truthy (tr_alias r) then qn c (qualifier r) ++ [46] ++ qn c name else qn c name, p) /\
  (tr_istable r = true -> qualifier r = if str_truthy (tr_alias r) then ostr (tr_alias r) else tr_name r).
Proof. intros. split; [|intro H; unfold qualifier; rewrite H; reflexivity]. cbn [render alias_if]. destruct (with_namespace c || str_truthy (tr_alias r)), (with_alias c); reflexivity. Qed.

Theorem C11_field_without_table : forall c p name, render c p (TField name None None) = Ok (qn c name, p).
Proof. intros. cbn [render]. destruct (with_alias c); reflexivity. Qed.

(* statements: symbolic table and column names *)
Definition tb (n : str) (a : option str) : tref := MkTRef true n [] a 0.
Definition col (n : str) (r : tref) : term := TField n (Some r) None.
Definition fl0 (cls : bcls) : qflags :=
  MkFl None false false false false false false false false false false false false (wrap_set_ops_of cls) [] [] None (wrapper_of cls).
Definition eq_ (a b : term) : term := TBasic (CEq Eq) a b None.

(* SELECT c1 FROM t WHERE c2=c3 GROUP BY c4 HAVING c5=c6 ORDER BY c7   [JOIN u ON c8=c9] *)
Definition stmt (cls : bcls) (t u : tref) (join : bool) (c1 c2 c3 c4 c5 c6 c7 c8 c9 : str) : query :=
  MkQ cls (fl0 cls) (TCons (TTable t NoT NoT) TNil) WNil (TCons (col c1 t) TNil) TNil TNil TNil RNil
      (SomeT (eq_ (col c2 t) (col c3 t))) NoT (SomeT (eq_ (col c5 t) (col c6 t))) (GCons (col c4 t) NoT GNil) (OCons (col c7 t) None ONil)
      (if join then JCons (JOn (TTable u NoT NoT) JInner (eq_ (col c8 t) (col c9 u)) None) JNil else JNil)
      NoT NoT UNil NoT NoT TNil CUNil NoT NoT TNil TNil.

(* the reference text: every column written through `ref`, which qualifies or not *)
Definition text (cls : bcls) (tdef udef : str) (join : bool) (r1 r2 r3 r4 r5 r6 r7 r8 r9 : str) : str :=
  L "SELECT " ++ r1 ++ L " FROM " ++ tdef ++ (if join then L " JOIN " ++ udef ++ L " ON " ++ r8 ++ L "=" ++ r9 else []) ++
  L " WHERE " ++ r2 ++ L "=" ++ r3 ++ L " GROUP BY " ++ r4 ++ L " HAVING " ++ r5 ++ L "=" ++ r6 ++ L " ORDER BY " ++ r7.

Definition bare (cls : bcls) (n : str) : str := qn (ctx_of cls) n.
Definition qual (cls : bcls) (q n : str) : str := qn (ctx_of cls) q ++ [46] ++ qn (ctx_of cls) n.
Definition adef (cls : bcls) (n a : str) : str := qn (ctx_of cls) n ++ [32] ++ fquote (alias_q (ctx_of cls)) a.

Ltac norm := lazy -[dbl app]; cbn [app]; repeat (progress (rewrite <- ?app_assoc; cbn [app])); rewrite ?app_nil_r; reflexivity.

(* one un-aliased source: every reference is bare *)
Theorem C11_single_source_bare : forall cls tn c1 c2 c3 c4 c5 c6 c7,
  render (ctx_of cls) None (TQuery (stmt cls (tb tn None) (tb tn None) false c1 c2 c3 c4 c5 c6 c7 [] [])) =
  Ok (text cls (bare cls tn) [] false (bare cls c1) (bare cls c2) (bare cls c3) (bare cls c4) (bare cls c5) (bare cls c6) (bare cls c7) [] [], None).
Proof. intros. destruct cls; norm. Qed.
Print Assumptions C11_single_source_bare.

(* a join: every reference, in every clause, is qualified by its own table's name *)
Theorem C11_join_qualified : forall cls tn un c1 c2 c3 c4 c5 c6 c7 c8 c9,
  render (ctx_of cls) None (TQuery (stmt cls (tb tn None) (tb un None) true c1 c2 c3 c4 c5 c6 c7 c8 c9)) =
  Ok (text cls (bare cls tn) (bare cls un) true (qual cls tn c1) (qual cls tn c2) (qual cls tn c3) (qual cls tn c4) (qual cls tn c5) (qual cls tn c6)
           (qual cls tn c7) (qual cls tn c8) (qual cls un c9), None).
Proof. intros. destruct cls; norm. Qed.
Print Assumptions C11_join_qualified.

(* an aliased single source: qualified by the alias, never by the table name (a : a non-empty alias x :: xs) *)
Theorem C11_aliased_source : forall cls tn x xs c1 c2 c3 c4 c5 c6 c7,
  let a := x :: xs in
  render (ctx_of cls) None (TQuery (stmt cls (tb tn (Some a)) (tb tn None) false c1 c2 c3 c4 c5 c6 c7 [] [])) =
  Ok (text cls (adef cls tn a) [] false (qual cls a c1) (qual cls a c2) (qual cls a c3) (qual cls a c4) (qual cls a c5) (qual cls a c6) (qual cls a c7) [] [], None).
Proof. intros. subst a. destruct cls; norm. Qed.

(* the rule itself on examples; and the known finding (PostgreSQL UPDATE .. RETURNING qualifies with a single source) *)
Example C11_rule_examples :
  expected false (MkCol (L "c") (Some (L "t")) None false) = None /\ expected true (MkCol (L "c") (Some (L "t")) None false) = Some (L "t") /\
  expected false (MkCol (L "c") (Some (L "t")) (Some (L "a")) false) = Some (L "a") /\ expected true (MkCol (L "c") (Some (L "t")) (Some (L "a")) true) = None /\
  c11_ok SQLITE true [MkCol (L "c") (Some (L "t")) None false; MkCol (L "d") (Some (L "u")) (Some (L "ua")) false] []
         (L "SELECT ""t"".""c"" FROM ""t"" JOIN ""u"" ""ua"" ON ""t"".""c""=""ua"".""d""") = Some true /\
  c11_ok SQLITE true [MkCol (L "c") (Some (L "t")) None false; MkCol (L "d") (Some (L "u")) (Some (L "ua")) false] []
         (L "SELECT ""c"" FROM ""t"" JOIN ""u"" ""ua"" ON ""t"".""c""=""u"".""d""") = Some false.
Proof. vm_compute. repeat split. Qed.

(* ------------------------------------------------------------------------------------------------------------------------------------ *)
(* EVERY statement of the model (any class, sources, joins, clauses; any context handed down): the qualification decision of the whole
   statement is ns q, and the select list, FROM list, the filter clauses, GROUP BY and ORDER BY write every column reference - any number of
   them - qualified exactly when ns q holds or the column's row source carries an alias, by the name the source is referred by *)
From PT Require Import Proofs.QueryEq.

(* how a column `name` of row source r is written when the statement's qualification decision is b *)
Definition ref (qc : str) (b : bool) (r : tref) (name : str) : str :=
  if b || str_truthy (tr_alias r) then fquote qc (qualifier r) ++ [46] ++ fquote qc name else fquote qc name.
Definition colref (n : str) (r : tref) : term := TField n (Some r) None.

Lemma render_col : forall c p n r,
  render c p (colref n r) = Ok (alias_if (with_alias c) c (ref (quote_char c) (with_namespace c) r n) None, p).
Proof. intros c p n r. cbn [render colref]. unfold ref. destruct (with_namespace c || str_truthy (tr_alias r)); reflexivity. Qed.
Lemma alias_if_none b c s : alias_if b c s None = s.
Proof. destruct b; reflexivity. Qed.

(* the context of the clauses of statement q when the caller hands down c0 *)
Definition cc (q : query) (c0 : ctx) : ctx := clause_ctx q (adjust_ctx q c0).

Lemma cc_flags : forall q c0 b1 b2,
  with_namespace (set_with_alias b1 (set_subquery b2 (cc q c0))) = ns q /\
  quote_char (set_with_alias b1 (set_subquery b2 (cc q c0))) = quote_char c0.
Proof. intros q c0 b1 b2. unfold cc, clause_ctx, adjust_ctx. destruct (q_cls q), c0; repeat split; reflexivity. Qed.
Lemma cc_flags1 : forall q c0 b2,
  with_namespace (set_subquery b2 (cc q c0)) = ns q /\ quote_char (set_subquery b2 (cc q c0)) = quote_char c0.
Proof. intros q c0 b2. unfold cc, clause_ctx, adjust_ctx. destruct (q_cls q), c0; repeat split; reflexivity. Qed.

Fixpoint cols_ts (l : list (str * tref)) : terms := match l with [] => TNil | (n, r) :: l' => TCons (colref n r) (cols_ts l') end.
Fixpoint cols_gb (l : list (str * tref)) : gbys := match l with [] => GNil | (n, r) :: l' => GCons (colref n r) NoT (cols_gb l') end.
Fixpoint cols_ob (l : list (str * tref * option order)) : obys :=
  match l with [] => ONil | (n, r, o) :: l' => OCons (colref n r) o (cols_ob l') end.

Lemma render_ts_cols : forall l c p,
  render_ts c p (cols_ts l) = Ok (map (fun x => ref (quote_char c) (with_namespace c) (snd x) (fst x)) l, p).
Proof.
  induction l as [|[n r] l IH]; intros c p; [reflexivity|].
  cbn [cols_ts render_ts]. rewrite render_col, alias_if_none. rewrite IH. reflexivity.
Qed.
Lemma render_gbys_cols : forall l c p,
  render_gbys c p (cols_gb l) = Ok (map (fun x => ref (quote_char c) (with_namespace c) (snd x) (fst x)) l, p).
Proof.
  induction l as [|[n r] l IH]; intros c p; [reflexivity|].
  cbn [cols_gb render_gbys]. rewrite render_col, alias_if_none. rewrite IH. reflexivity.
Qed.
Lemma render_obys_cols : forall l c sel p,
  render_obys c sel true p (cols_ob l) =
  Ok (map (fun x => let s := ref (quote_char c) (with_namespace c) (snd (fst x)) (fst (fst x)) in
                    match snd x with Some d => s ++ [32] ++ order_sql d | None => s end) l, p).
Proof.
  induction l as [|[[n r] o] l IH]; intros c sel p; [reflexivity|].
  cbn [cols_ob render_obys term_alias colref alias_selected]. rewrite andb_false_r.
  change (TField n (Some r) None) with (colref n r). rewrite render_col, alias_if_none. rewrite IH. reflexivity.
Qed.

Theorem C11_statement_namespace : forall (q : query) (c0 : ctx),
  with_namespace (cc q c0) = ns q /\
  ns q = has_joins q || from_len_gt1 (q_from q) || from0_is_query (q_from q) || q_foreign_table q || (has_upd q && is_nonempty_terms (q_from q)).
Proof. intros q c0. split; [unfold cc, clause_ctx, adjust_ctx; destruct (q_cls q), c0; reflexivity | reflexivity]. Qed.

(* the select list and the FROM list of EVERY statement *)
Theorem C11_select_list_columns : forall (q : query) (c0 : ctx) (p : pz) l,
  r_ts the_rens (set_with_alias true (set_subquery true (cc q c0))) p (cols_ts l) =
  Ok (map (fun x => ref (quote_char c0) (ns q) (snd x) (fst x)) l, p).
Proof. intros. cbn [r_ts the_rens]. rewrite render_ts_cols. destruct (cc_flags q c0 true true) as [-> ->]. reflexivity. Qed.

(* the filter clauses (WHERE, PREWHERE, HAVING, ON CONFLICT .. WHERE) of EVERY statement: a comparison of two columns *)
Theorem C11_filter_clause_columns : forall (q : query) (c0 : ctx) (p : pz) e n1 r1 n2 r2,
  r_o the_rens (set_subquery true (cc q c0)) p (SomeT (TBasic (CEq e) (colref n1 r1) (colref n2 r2) None)) =
  Ok (Some (ref (quote_char c0) (ns q) r1 n1 ++ equality_sql e ++ ref (quote_char c0) (ns q) r2 n2), p).
Proof.
  intros. cbn [r_o the_rens render_o].
  change (render (set_subquery true (cc q c0)) p (TBasic (CEq e) (colref n1 r1) (colref n2 r2) None)) with
    (do (sl, p1) <- render (set_with_alias false (set_subquery true (cc q c0))) p (colref n1 r1);
     do (sr, p2) <- render (set_with_alias false (set_subquery true (cc q c0))) p1 (colref n2 r2);
     Ok (alias_if (with_alias (set_subquery true (cc q c0))) (set_subquery true (cc q c0)) (sl ++ cmp_sql (CEq e) ++ sr) None, p2)).
  rewrite !render_col, !alias_if_none. destruct (cc_flags q c0 false true) as [-> ->]. cbv beta iota. reflexivity.
Qed.

Theorem C11_where_columns : forall (q : query) (c0 : ctx) (p : pz) e n1 r1 n2 r2,
  q_wheres q = SomeT (TBasic (CEq e) (colref n1 r1) (colref n2 r2) None) ->
  where_sql the_rens q (cc q c0) p =
    Ok (L " WHERE " ++ ref (quote_char c0) (ns q) r1 n1 ++ equality_sql e ++ ref (quote_char c0) (ns q) r2 n2, p).
Proof. intros q c0 p e n1 r1 n2 r2 H. unfold where_sql. rewrite H, C11_filter_clause_columns. reflexivity. Qed.

(* GROUP BY and ORDER BY of EVERY statement, any number of columns *)
Theorem C11_groupby_columns : forall (q : query) (c0 : ctx) (p : pz) l,
  r_gbys the_rens (set_subquery true (cc q c0)) p (cols_gb l) = Ok (map (fun x => ref (quote_char c0) (ns q) (snd x) (fst x)) l, p).
Proof. intros. cbn [r_gbys the_rens]. rewrite render_gbys_cols. destruct (cc_flags1 q c0 true) as [-> ->]. reflexivity. Qed.

Theorem C11_orderby_columns : forall (q : query) (c0 : ctx) (p : pz) l,
  q_orderbys q = cols_ob l -> l <> [] ->
  orderby_sql the_rens q (cc q c0) p =
  Ok (L " ORDER BY " ++ join [44] (map (fun x => let s := ref (quote_char c0) (ns q) (snd (fst x)) (fst (fst x)) in
                                                 match snd x with Some d => s ++ [32] ++ order_sql d | None => s end) l), p).
Proof.
  intros q c0 p l H Hl. unfold orderby_sql, orderby_sql_c. rewrite H. destruct l as [|[[n r] o] l]; [congruence|].
  cbn [cols_ob]. cbn [r_obys the_rens]. change (OCons (colref n r) o (cols_ob l)) with (cols_ob ((n, r, o) :: l)).
  rewrite render_obys_cols. destruct (cc_flags1 q c0 true) as [-> ->]. reflexivity.
Qed.
(* JOIN .. ON of EVERY statement: the condition's column references follow the same rule (the joined item is rendered in the FROM-list context) *)
Lemma render_cmp_cols : forall (q : query) (c0 : ctx) (p : pz) e n1 r1 n2 r2,
  render (set_subquery true (cc q c0)) p (TBasic (CEq e) (colref n1 r1) (colref n2 r2) None) =
  Ok (ref (quote_char c0) (ns q) r1 n1 ++ equality_sql e ++ ref (quote_char c0) (ns q) r2 n2, p).
Proof.
  intros. pose proof (C11_filter_clause_columns q c0 p e n1 r1 n2 r2) as H. cbn [r_o the_rens render_o] in H.
  destruct (render (set_subquery true (cc q c0)) p (TBasic (CEq e) (colref n1 r1) (colref n2 r2) None)) as [[s p']|x]; [|discriminate H].
  inversion H; subst. reflexivity.
Qed.

Theorem C11_join_on_columns : forall (q : query) (c0 : ctx) (p : pz) item how e n1 r1 n2 r2 s p1,
  render (set_with_alias true (set_subquery true (cc q c0))) p item = Ok (s, p1) ->
  exists head, render_join (cc q c0) p (JOn item how (TBasic (CEq e) (colref n1 r1) (colref n2 r2) None) None) =
    Ok (head ++ L " ON " ++ ref (quote_char c0) (ns q) r1 n1 ++ equality_sql e ++ ref (quote_char c0) (ns q) r2 n2, p1).
Proof.
  intros q c0 p item how e n1 r1 n2 r2 s p1 H. cbn [render_join]. rewrite H. rewrite render_cmp_cols.
  exists (match jointype_sql how with [] => L "JOIN " ++ s | c1 :: l => (c1 :: l) ++ [32] ++ L "JOIN " ++ s end).
  cbv beta iota. rewrite app_nil_r. reflexivity.
Qed.
Print Assumptions C11_join_on_columns.
Print Assumptions C11_statement_namespace.
Print Assumptions C11_select_list_columns.
Print Assumptions C11_filter_clause_columns.
Print Assumptions C11_where_columns.
Print Assumptions C11_groupby_columns.
Print Assumptions C11_orderby_columns.

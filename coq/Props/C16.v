(* Props/C16.v — C16: replace_table replaces every reference and nothing else.

   Statement judged on implementation outputs by ./check C16 (relational): build(T_old).replace_table(T_old, T_new) renders, with
   qualifiers forced, exactly as build(T_new); the receiver is unchanged.

   Proved here, by computation on the table regenerated from /repo on every run (tools/gen_children.py: reflection over an
   instance of EVERY live Term subclass, the join classes, CTEs and statements of all six builders with every clause slot
   populated; ast of the replace_table methods resolved over the MRO): every attribute through which a column or table reference
   is reachable is rewritten by the class's replace_table.  A class added later that holds operands but inherits the no-op
   replace_table, or an override that forgets an operand, fails this obligation. *)
From PT Require Import Base.Str Gen.Children.
Open Scope N_scope.

Definition subset (a b : list str) : bool := forallb (fun x => existsb (seqb x) b) a.

Definition replace_complete_row (r : str * list str * option (list str) * option (list str) * bool) : bool :=
  let '(_, kids, rep, _, _) := r in match rep with Some l => subset kids l | None => false end.

Theorem C16_replace_complete : forallb replace_complete_row children = true.
Proof. vm_compute. reflexivity. Qed.
Print Assumptions C16_replace_complete.

Theorem C16_every_class_constructible : not_constructible = [].
Proof. reflexivity. Qed.

(* what the obligation means for one class *)
Example C16_nonvacuous :
  match find (fun r => let '(n, _, _, _, _) := r in seqb n (L "terms.BetweenCriterion")) children with
  | Some (_, kids, Some rep, _, _) => subset [L "term"; L "start"; L "end"] kids && subset kids rep
  | _ => false
  end = true.
Proof. vm_compute. reflexivity. Qed.

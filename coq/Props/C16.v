(* Props/C16.v — C16: replace_table replaces every reference and nothing else.

   Statement judged on implementation outputs by ./check C16 (relational): build(T_old).replace_table(T_old, T_new) renders, with
   qualifiers forced, exactly as build(T_new); the receiver is unchanged.

   Proved here, by computation on the table regenerated from /repo on every run (tools/gen_children.py: reflection over an
   instance of EVERY live Term subclass, the join classes, CTEs and statements of all six builders with every clause slot
   populated; ast of the replace_table methods resolved over the MRO): every attribute through which a column or table reference
   is reachable is rewritten by the class's replace_table.  A class added later that holds operands but inherits the no-op
   replace_table, or an override that forgets an operand, fails this obligation. *)
From PT Require Import Base.Str Gen.Children.
Open Scope N_scope.

Definition subset (a b : list str) : bool := forallb (fun x => existsb (seqb x) b) a.

Definition replace_complete_row (r : str * list str * option (list str) * option (list str) * bool) : bool :=
  let '(_, kids, rep, _, _) := r in match rep with Some l => subset kids l | None => false end.

Theorem C16_replace_complete : forallb replace_complete_row children = true.
Proof. vm_compute. reflexivity. Qed.
Print Assumptions C16_replace_complete.

Theorem C16_every_class_constructible : not_constructible = [].
Proof. reflexivity. Qed.

(* what the obligation means for one class *)
Example C16_nonvacuous :
  match find (fun r => let '(n, _, _, _, _) := r in seqb n (L "terms.BetweenCriterion")) children with
  | Some (_, kids, Some rep, _, _) => subset [L "term"; L "start"; L "end"] kids && subset kids rep
  | _ => false
  end = true.
Proof. vm_compute. reflexivity. Qed.

(* ------------------------------------------------------------------------------------------------------------------------------------ *)
(* The SPECIFICATION of replace_table on the object language (Ref/Replace.v: one structural map `rep old new` over all 17 sorts that exchanges
   the table of a column reference / star, and a table standing as a row source, when it == old), tied to the library's 29 replace_table
   methods by ./check C16: the receiver's tree mapped by rep IN COQ must render as the implementation renders what replace_table returned.
   Its laws, for ALL terms and statements, all tables old and new (Proofs/ReplaceLaws.v, by mutual induction): *)
From PT Require Import Model.Types Model.Value Model.Interval Model.Syntax Ref.Replace Proofs.ReplaceLaws.

(* "... and nothing else": where no reference to old occurs, the term is returned as it is *)
Theorem C16_nothing_else : forall (old new : tref) (t : term), occ old t = false -> rep old new t = t.
Proof. exact rep_nothing_else. Qed.
Print Assumptions C16_nothing_else.

(* "replaces every reference": afterwards no reference to old is left, at any depth (new not being == old) *)
Theorem C16_every_reference : forall (old new : tref) (t : term), tref_eqb new old = false -> occ old (rep old new t) = false.
Proof. exact rep_every_reference. Qed.
Print Assumptions C16_every_reference.

Theorem C16_idempotent : forall (old new : tref) (t : term), tref_eqb new old = false -> rep old new (rep old new t) = rep old new t.
Proof. exact rep_idempotent. Qed.

Theorem C16_statements : forall (old new : tref) (q : query),
  (occ_q old q = false -> rep_q old new q = q) /\ (tref_eqb new old = false -> occ_q old (rep_q old new q) = false).
Proof. exact rep_q_laws. Qed.
Print Assumptions C16_statements.

(* non-vacuity: a reference three levels down (a column inside a function call inside a comparison in the WHERE of a sub-query in FROM) is exchanged,
   the reference to another table of the same name in another schema is not *)
Example C16_spec_nonvacuous :
  let o := MkTRef true (L "old") [] None 0 in
  let o2 := MkTRef true (L "old") [L "s9"] None 1 in
  let n := MkTRef true (L "new") [] (Some (L "nw")) 2 in
  let fl := MkFl None false false false false false false false false false false false false true [] [] None WPlain in
  let inner c1 c2 := MkQ BGeneric fl (TCons (TTable c1 NoT NoT) TNil) WNil (TCons (TField (L "a") (Some c1) None) TNil) TNil TNil TNil RNil
             (SomeT (TBasic (CEq Eq) (TFunc (L "LOWER") (TCons (TField (L "b") (Some c1) None) TNil) SpNone NoT false NoT NoOver false None None)
                                     (TField (L "c") (Some c2) None) None))
             NoT NoT GNil ONil JNil NoT NoT UNil NoT NoT TNil CUNil NoT NoT TNil TNil in
  let outer c1 c2 := MkQ BGeneric fl (TCons (TQuery (inner c1 c2)) TNil) WNil (TCons (TStar None None) TNil) TNil TNil TNil RNil NoT NoT NoT GNil ONil JNil NoT NoT UNil
             NoT NoT TNil CUNil NoT NoT TNil TNil in
  rep_q o n (outer o o2) = outer n o2 /\ occ_q o (outer o o2) = true /\ occ_q o (outer n o2) = false.
Proof. vm_compute. repeat split. Qed.

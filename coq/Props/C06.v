(* Props/C06.v — C06: operator grouping of the expression tree survives rendering.

   Statement (executable, judged on every implementation output by ./check C06):
     Ref.TreeOf.grouping_ok d t sql  :=  parse (lex d sql) = tree_of t   modulo nf
   with Ref/Lexer.v, Ref/Parser.v (standard SQL precedence, stratified recursive descent) and
   Ref/TreeOf.v (which abstract tree a built term is; the permitted re-associations are nf).

   Proved here: the decision tables of the code — regenerated from the source into Gen/Prec.v by
   tools/gen_prec.py — agree entry by entry with what the reference grammar requires, except for
   exactly the listed known class (division as right operand of a multiplication), and the
   connective-bracketing rule is the reference one.  The full round trip
   parse (lex (render t)) = nf (tree_of t) over the sub-language is established in Proofs/ (see
   the C06_roundtrip theorems below as they are added). *)
From PT Require Import Base.Str Model.Types Model.Value Model.Syntax Gen.Prec Gen.Enums Gen.Ctx Model.Render
     Ref.Lexer Ref.Parser Ref.TreeOf.
Open Scope N_scope.

(* ---- what the reference grammar requires of an arithmetic child (E_add / E_mul, left associative) ---- *)
Definition req_left (op cop : arith) : bool :=
  match op, cop with (Mul | Div), (Add | Sub) => true | _, _ => false end.
Definition req_right (op cop : arith) : bool :=
  match op, cop with
  | Add, _ => false                          (* x+(y+z), x+(y-z): permitted re-association; tighter children need none *)
  | Sub, (Add | Sub) => true
  | Sub, _ => false
  | Mul, (Add | Sub) => true
  | Mul, Mul => false                        (* pure multiplication chain *)
  | Mul, Div => true                         (* x*(y/z) is not (x*y)/z in integer arithmetic *)
  | Div, _ => true
  end.

Theorem C06_left_table : forall op cop, left_needs_parens op (OArith cop) = req_left op cop.
Proof. destruct op, cop; reflexivity. Qed.
Print Assumptions C06_left_table.

(* the one lax entry is the known finding C06-mul-div-right (pinned by tests/test_functions.py) *)
Theorem C06_right_table : forall op cop,
  right_needs_parens op (OArith cop) = (if arith_eqb op Mul && arith_eqb cop Div then false else req_right op cop).
Proof. destruct op, cop; reflexivity. Qed.
Print Assumptions C06_right_table.

Theorem C06_leaf_never_bracketed : forall op, left_needs_parens op ONone = false /\ right_needs_parens op ONone = false.
Proof. destruct op; split; reflexivity. Qed.

(* connectives: a nested group is bracketed exactly when its connective differs *)
Theorem C06_connective_table : forall c c', needs_brackets c (Some c') = negb (conn_eqb c' c) /\ needs_brackets c None = false.
Proof. destruct c, c'; split; reflexivity. Qed.
Print Assumptions C06_connective_table.

(* the operator spellings of the code lex to the operator tokens the reference parser knows *)
Theorem C06_spellings : forall d,
  (forall a, lex d (arith_sql a) = Some [TOp (arith_std a)]) /\
  (forall e, lex d (equality_sql e) = Some [TOp (equality_std e)]) /\
  (forall c, lex d (conn_sql c) = Some [TWord (conn_std c)]).
Proof. intro d. repeat split; intro x; destruct d, x; reflexivity. Qed.
Print Assumptions C06_spellings.

(* the known finding, as a refutation of the unguarded statement on the faithful model *)
Definition witness_mul_div : term :=
  TArith Mul (TField (L "a") None None) (TArith Div (TField (L "b") None None) (TField (L "c") None None) None) None.
Theorem C06_mul_div_refuted :
  kf_c06 witness_mul_div = true /\
  match render default_ctx None witness_mul_div with
  | Ok (s, _) => grouping_ok SQLITE witness_mul_div s = Some false
  | Exn _ => False
  end.
Proof. vm_compute. split; reflexivity. Qed.

(* non-vacuity: a nested expression outside the known classes passes the statement on the model *)
Definition sample_expr : term :=
  TComplex Or (TBasic (CEq Eq) (TArith Sub (TField (L "a") None None) (TArith Add (TField (L "b") None None) (TVal WPlain (VInt (-1)) [] None true) None) None)
                               (TNeg (TArith Mul (TField (L "c") None None) (TVal WPlain (VInt 2) [] None true) None) None) None)
              (TNot (TComplex And (TIsNull (TField (L "d") None None) None) (TBasic (CEq Lt) (TField (L "e") None None) (TVal WPlain (VInt 0) [] None true) None) None) None) None.
Example C06_nonvacuous :
  kf_c06 sample_expr = false /\
  match render default_ctx None sample_expr with
  | Ok (s, _) => s = L """a""-(""b""+-1)=-(""c""*2) OR NOT (""d"" IS NULL AND ""e""<0)" /\ grouping_ok SQLITE sample_expr s = Some true
  | Exn _ => False
  end.
Proof. vm_compute. repeat split. Qed.

(* Props/C18.v — C18: interval literals encode exactly the requested duration.
   Only statements, each closed by `exact`, with Print Assumptions beneath.

   Model: Model/Interval.v (Interval.__init__, get_sql, and the semantics of re.sub for the pinned
   trim pattern).  Specification: Ref/IntervalRead.v (read_interval, denote, valid).
   Tie: Gen/Interval.v is regenerated from /repo on every run (labels, templates, trim pattern);
   model = implementation is checked by the correspondence run of ./check C18. *)
From PT Require Import Base.Str Model.Types Gen.Interval Model.Interval Ref.IntervalRead
     Proofs.IntervalLemmas Proofs.IntervalMain.
Open Scope N_scope.

(* the trim pattern the model's `trim` was written for is the one in the source *)
Theorem C18_pattern_pinned :
  trim_pattern = L "(^0+\.)|(\.0+$)|(^[0\-.: ]+[\-: ])|([\-:. ][0\-.: ]+$)" /\ trim_flags = 32.
Proof. split; reflexivity. Qed.
Print Assumptions C18_pattern_pinned.

(* MAIN: for every dialect template and all constructor arguments in the property's domain, the
   rendered literal, read according to its unit designator, denotes exactly the arguments. *)
Theorem C18_main : forall (d : dial) (a : iargs),
  valid (comps a) (a_quarters a) (a_weeks a) = true ->
  read_interval d (interval_sql d a) = Some (denote (comps a) (a_quarters a) (a_weeks a)).
Proof. intros d a _. exact (interval_roundtrip d a). Qed.
Print Assumptions C18_main.

(* the denotation keeps every component in its own slot: nothing dropped, merged or shifted *)
Theorem C18_no_component_lost : forall (d : dial) (a : iargs) (i : nat),
  a_quarters a = 0%Z -> a_weeks a = 0%Z -> valid (comps a) 0 0 = true ->
  exists iv, read_interval d (interval_sql d a) = Some iv /\
             ival_component iv i = nth i (map Z.abs_N (comps a)) 0.
Proof.
  intros d a i Hq Hw _. exists (denote (comps a) 0 0). split.
  - pose proof (interval_roundtrip d a) as H. rewrite Hq, Hw in H. exact H.
  - exact (denote_components (comps a) i).
Qed.
Print Assumptions C18_no_component_lost.

(* what trimming does, stated on its own: after an all-zero prefix, the fields from the first
   non-zero one up to the last non-zero one survive unchanged, separators included *)
Theorem C18_trim_is_field_selection : forall pre vA lA,
  vA <> 0 -> seps_ok lA -> pre_ok pre ->
  trim (pre ++ N_to_str vA ++ rest lA) = N_to_str vA ++ rest (trimr lA).
Proof. exact trim_fields. Qed.
Print Assumptions C18_trim_is_field_selection.

(* non-vacuity: a non-trivial argument tuple satisfies the hypothesis, and the statement computes *)
Example C18_nonvacuous :
  let a := MkIArgs 0 (-3) 0 10 0 100 0 0 0 in
  valid (comps a) (a_quarters a) (a_weeks a) = true /\
  interval_sql MYSQL a = L "INTERVAL '-3-0 10:0:100' MONTH_SECOND" /\
  read_interval MYSQL (interval_sql MYSQL a) = Some (IV true [(1%nat, 3); (2%nat, 0); (3%nat, 10); (4%nat, 0); (5%nat, 100)]).
Proof. vm_compute. repeat split. Qed.

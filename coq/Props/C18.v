From PT Require Import Base.Str Model.Types Gen.Interval Model.Interval Ref.IntervalRead.
Open Scope N_scope.

Theorem C18_pattern_pinned :
  trim_pattern = L "(^0+\.)|(\.0+$)|(^[0\-.: ]+[\-: ])|([\-:. ][0\-.: ]+$)" /\ trim_flags = 32.
Proof. split; reflexivity. Qed.
Print Assumptions C18_pattern_pinned.

(* Props/C03.v — C03: SQLite-dialect statements mean what the builder calls say (engine-checked).   PARTIAL.

   What a proof can carry here is the READING of the rendered text; "a real SQLite engine returns the same rows as the plain transcription"
   needs the semantics of SQLite's compiler and virtual machine, which no installed formalisation provides: that part is established by
   executing both statements on generated databases in ./check C03 (testing; labelled as such in the evidence).

   This file restates, for the SQLite query class, the theorems the reading rests on; each is proved in the file named. *)
From PT Require Import Base.Str Model.Types Model.Value Model.Interval Model.Syntax Gen.Ctx Gen.Enums Gen.Prec Gen.Placeholders Model.Render
     Ref.Lexer Ref.Parser Ref.TreeOf Ref.RowLimit Ref.Clauses.
From PT Require Props.C05 Props.C06 Props.C07 Props.C09 Props.C11 Props.C13.
Open Scope N_scope.

(* operator grouping: the bracketing tables of the code are the reference grammar's (one listed exception) and the spellings lex to the reference tokens *)
Theorem C03_sqlite_operator_tables :
  (forall op cop, left_needs_parens op (OArith cop) = Props.C06.req_left op cop) /\
  (forall c c', needs_brackets c (Some c') = negb (conn_eqb c' c)) /\
  (forall a, lex SQLITE (arith_sql a) = Some [TOp (arith_std a)]).
Proof.
  split; [exact Props.C06.C06_left_table|]. split; [intros c c'; exact (proj1 (Props.C06.C06_connective_table c c'))|].
  intro a. exact (proj1 (Props.C06.C06_spellings SQLITE) a).
Qed.

(* column references: one source => bare, a join => qualified by the table's name, an aliased source => by the alias *)
Theorem C03_sqlite_qualification : forall tn un c1 c2 c3 c4 c5 c6 c7 c8 c9,
  render (ctx_of BSQLite) None (TQuery (Props.C11.stmt BSQLite (Props.C11.tb tn None) (Props.C11.tb un None) true c1 c2 c3 c4 c5 c6 c7 c8 c9)) =
  Ok (Props.C11.text BSQLite (Props.C11.bare BSQLite tn) (Props.C11.bare BSQLite un) true (Props.C11.qual BSQLite tn c1) (Props.C11.qual BSQLite tn c2)
        (Props.C11.qual BSQLite tn c3) (Props.C11.qual BSQLite tn c4) (Props.C11.qual BSQLite tn c5) (Props.C11.qual BSQLite tn c6) (Props.C11.qual BSQLite tn c7)
        (Props.C11.qual BSQLite tn c8) (Props.C11.qual BSQLite un c9), None).
Proof. intros. apply Props.C11.C11_join_qualified. Qed.

Theorem C03_sqlite_incomplete_is_empty : forall q p, Props.C13.incomplete q = true -> render_query (ctx_of BSQLite) p q = Ok ([], p).
Proof. intros. apply Props.C13.C13_incomplete_is_empty. assumption. Qed.

(* values and names are single tokens decoding to what was supplied *)
Theorem C03_sqlite_literals_identifiers : forall s name,
  lex SQLITE (value_sql WSQLite false [39] (VStr s)) = Some [TStr s] /\ lex SQLITE (fquote (quote_char (ctx_of BSQLite)) name) = Some [TQId name].
Proof.
  intros s name. split.
  - apply (Props.C05.C05_string SQLITE WSQLite s). intro H; discriminate H.
  - exact (proj1 (Props.C07.C07_ident BSQLite name)).
Qed.

(* LIMIT n [OFFSET m]; an offset alone is LIMIT -1 OFFSET m *)
Theorem C03_sqlite_row_limit : forall lim off ob,
  render (ctx_of BSQLite) None (TQuery (Props.C09.shape BSQLite lim off ob)) =
  Ok (Props.C09.head BSQLite ob ++ ref_pagination BSQLite (option_map Z_to_str lim) (option_map Z_to_str off) ob, None).
Proof. intros. apply Props.C09.C09_inline. Qed.

(* what is NOT proved: stated so that it cannot be mistaken *)
Definition C03_not_proved : string :=
  "that a SQLite engine returns, on every database, the rows of the plain transcription: established by execution on generated databases only".
Example C03_scope : C03_not_proved <> EmptyString. Proof. discriminate. Qed.

(* Props/C09.v — C09: LIMIT/OFFSET render as the dialect's row-limiting clause, values in the right slots.

   Statement judged on every implementation output by ./check C09: Ref.RowLimit.c09_ok (reference recogniser on the lexed tail
   of the targeted statement; slots compared with the limit/offset the object holds; placeholders checked against the value list).

   Proved here for ALL limit and offset values (any integers, absent or present), with and without ORDER BY, for all six query
   classes, inline and parameterised: the model of the renderers prints exactly the REFERENCE clause text (Ref.RowLimit.ref_pagination,
   written from the dialects' grammars) after the statement head; and in parameterised mode the values enter the parameter list in the
   order of their placeholders. *)
From PT Require Import Base.Str Model.Types Model.Value Model.Interval Model.Syntax Gen.Ctx Gen.Enums Gen.Prec Gen.Placeholders Model.Render
     Ref.Lexer Ref.RowLimit Proofs.QueryEq Proofs.PaginationAll.
Open Scope N_scope.

Definition tbl : term := TTable (MkTRef true (L "t") [] None 0) NoT NoT.
Definition fld : term := TField (L "a") None None.
Definition vid_of (z : Z) : str := L "int:" ++ Z_to_str z.
Definition ival (z : Z) : term := TVal WPlain (VInt z) (vid_of z) None true.
Definition oint (o : option Z) : oterm := match o with Some z => SomeT (ival z) | None => NoT end.
Definition fl0 (cls : bcls) : qflags :=
  MkFl None false false false false false false false false false false false false (wrap_set_ops_of cls) [] [] None (wrapper_of cls).
Definition shape (cls : bcls) (lim off : option Z) (ob : bool) : query :=
  MkQ cls (fl0 cls) (TCons tbl TNil) WNil (TCons fld TNil) TNil TNil TNil RNil NoT NoT NoT GNil
      (if ob then OCons fld None ONil else ONil) JNil (oint lim) (oint off) UNil NoT NoT TNil CUNil NoT NoT TNil TNil.

Definition qc (cls : bcls) : str := quote_char (ctx_of cls).
Definition head (cls : bcls) (ob : bool) : str :=
  L "SELECT " ++ fquote (qc cls) (L "a") ++ L " FROM " ++ fquote (qc cls) (L "t") ++
  (if ob then L " ORDER BY " ++ fquote (qc cls) (L "a") else []).

Ltac norm := lazy -[Z_to_str N_to_str app]; cbn [app]; repeat rewrite <- app_assoc; rewrite ?app_nil_r; cbn [app]; rewrite ?app_nil_r; reflexivity.

(* inline: the reference clause with the decimal numerals of the values, for all values *)
Theorem C09_inline : forall cls lim off ob,
  render (ctx_of cls) None (TQuery (shape cls lim off ob)) =
  Ok (head cls ob ++ ref_pagination cls (option_map Z_to_str lim) (option_map Z_to_str off) ob, None).
Proof. intros cls lim off ob. destruct cls, lim as [l|], off as [o|], ob; norm. Qed.
Print Assumptions C09_inline.

(* parameterised: placeholders in the slots; the values in the order of their placeholders *)
Definition offset_first (cls : bcls) : bool := match cls with BMSSQL | BOracle => true | _ => false end.
Definition ph (cls : bcls) (k : N) : str := ph_text (placeholder_style (dialect (ctx_of cls))) k.
Definition slots (cls : bcls) (lim off : option Z) : option str * option str * list str :=
  match lim, off with
  | None, None => (None, None, [])
  | Some l, None => (Some (ph cls 1), None, [vid_of l])
  | None, Some o => (None, Some (ph cls 1), [vid_of o])
  | Some l, Some o => if offset_first cls then (Some (ph cls 2), Some (ph cls 1), [vid_of o; vid_of l])
                      else (Some (ph cls 1), Some (ph cls 2), [vid_of l; vid_of o])
  end.

Theorem C09_param : forall cls lim off ob,
  let '(pl, po, vals) := slots cls lim off in
  render (ctx_of cls) (Some (MkPz None [])) (TQuery (shape cls lim off ob)) =
  Ok (head cls ob ++ ref_pagination cls pl po ob, Some (MkPz None vals)).
Proof. intros cls lim off ob. destruct cls, lim as [l|], off as [o|], ob; norm. Qed.
Print Assumptions C09_param.

(* the same clause when the statement is a sub-query in FROM (parenthesised, alias after the clause) *)
Definition outer (cls : bcls) (inner : query) : query :=
  MkQ cls (fl0 cls) (TCons (TQuery inner) TNil) WNil (TCons (TStar None None) TNil) TNil TNil TNil RNil NoT NoT NoT GNil ONil JNil NoT NoT
      UNil NoT NoT TNil CUNil NoT NoT TNil TNil.
Definition with_alias_q (q : query) (a : str) : query :=
  match q with
  | MkQ cls (MkFl _ a1 a2 a3 a4 a5 a6 a7 a8 a9 a10 a11 a12 a13 a14 a15 a16 a17) f w s fi ui c v wh pw h g o j l of_ u it ut cf cu cw cuw r d =>
      MkQ cls (MkFl (Some a) a1 a2 a3 a4 a5 a6 a7 a8 a9 a10 a11 a12 a13 a14 a15 a16 a17) f w s fi ui c v wh pw h g o j l of_ u it ut cf cu cw cuw r d
  end.
Theorem C09_subquery : forall cls lim off ob,
  render (ctx_of cls) None (TQuery (outer cls (with_alias_q (shape cls lim off ob) (L "sq0")))) =
  Ok (L "SELECT * FROM (" ++ head cls ob ++ ref_pagination cls (option_map Z_to_str lim) (option_map Z_to_str off) ob ++ L ") " ++
      fquote (alias_q (ctx_of cls)) (L "sq0"), None).
Proof. intros cls lim off ob. destruct cls, lim as [l|], off as [o|], ob; norm. Qed.

(* set operations: the clause of the whole operation *)
Definition setop (cls : bcls) (lim off : option Z) (ob : bool) : term :=
  TSetOp (shape cls None None false) (SCons Union (TQuery (shape cls None None false)) SNil)
         (if ob then OCons fld None ONil else ONil) (oint lim) (oint off) None.
Definition setop_head (cls : bcls) (ob : bool) : str :=
  paren_if (wrap_set_ops_of cls) (head cls false) ++ L " UNION " ++ paren_if (wrap_set_ops_of cls) (head cls false) ++
  (if ob then L " ORDER BY " ++ fquote (qc cls) (L "a") else []).
(* the reference for a set operation: SQLite/MySQL classes are indistinguishable from the generic class there (known finding
   C09-setop-offset-alone), so OFFSET alone is printed bare for them *)
Definition setop_cls (cls : bcls) : bcls := match cls with BSQLite | BMySQL => BGeneric | c => c end.
Theorem C09_setop : forall cls lim off ob,
  render (ctx_of cls) None (setop cls lim off ob) =
  Ok (setop_head cls ob ++ ref_pagination (setop_cls cls) (option_map Z_to_str lim) (option_map Z_to_str off) ob, None).
Proof. intros cls lim off ob. destruct cls, lim as [l|], off as [o|], ob; norm. Qed.
Print Assumptions C09_setop.

(* EVERY statement of the model - any clauses, any limit / offset TERMS (constants, placeholders, expressions), any context and
   parameterizer state: its row-limiting clause is the reference clause applied to what the limit and offset terms render to, the two
   rendered in the order of their slots (so that, with a parameterizer, values enter the list in the order of their placeholders) *)
Theorem C09_every_statement : forall (q : query) (c : ctx) (p : pz),
  pagination the_rens q c p =
    if offset_slot_first (q_cls q) then
      do (oo, p1) <- render_o c p (q_off q); do (ol, p2) <- render_o c p1 (q_lim q);
      Ok (ref_pagination (q_cls q) ol oo (has_order q), p2)
    else
      do (ol, p1) <- render_o c p (q_lim q); do (oo, p2) <- render_o c p1 (q_off q);
      Ok (ref_pagination (q_cls q) ol oo (has_order q), p2).
Proof. exact pagination_is_reference. Qed.
Print Assumptions C09_every_statement.

(* EVERY set operation of the model - any operands, ORDER BY items, limit / offset terms, context and parameterizer state: the text is the operands,
   the ORDER BY of the whole operation, then the reference clause of the rendering dialect applied to what the limit and offset terms render to (the
   two rendered in the order of their slots), all inside the parentheses and before the alias of an embedding position *)
Theorem C09_every_set_operation : forall (c : ctx) (p : pz) base ops obs lim off alias,
  render c p (TSetOp base ops obs lim off alias) =
    let c1 := setop_ctx c in
    let set_ctx := set_subquery (query_wrap_setops base && negb (dial_eqb (dialect c1) MYSQL)) c1 in
    do (sb, p1) <- render_query (if query_has_tail base then set_subquery true set_ctx else set_ctx) p base;
    do (so, p2) <- render_sops set_ctx (query_selects_len base) p1 ops;
    do (sob, p3) <- render_obys c1 (query_select_aliases base) false p2 obs;
    do (pag, p5) <- (if offset_slot_first (setop_style_cls (dialect c1)) then
                       do (oo, p4) <- render_o c1 p3 off; do (ol, p5) <- render_o c1 p4 lim;
                       Ok (ref_pagination (setop_style_cls (dialect c1)) ol oo (nonempty_strs sob), p5)
                     else
                       do (ol, p4) <- render_o c1 p3 lim; do (oo, p5) <- render_o c1 p4 off;
                       Ok (ref_pagination (setop_style_cls (dialect c1)) ol oo (nonempty_strs sob), p5));
    Ok (alias_if (with_alias c) c1 (paren_if (subquery c) (sb ++ so ++ setop_orderby_text sob ++ pag)) alias, p5).
Proof. exact setop_pagination_is_reference. Qed.
Print Assumptions C09_every_set_operation.

(* the recogniser reads the reference printer's clause back (sampled by computation; digits are arbitrary above) *)
Example C09_recogniser_reads_printer :
  forallb (fun cls => forallb (fun lo => forallb (fun ob : bool =>
    let '(l, o) := lo in
    match render (ctx_of cls) None (TQuery (shape cls l o ob)) with
    | Ok (s, _) => match c09_ok (dialect (ctx_of cls)) (TQuery (shape cls l o ob)) s false [] with Some true => true | _ => false end
    | Exn _ => false
    end) [true; false]) [(None, None); (Some 3, None); (None, Some 4); (Some 0, Some 0); (Some 12, Some 345)]%Z) all_bcls = true.
Proof. vm_compute. reflexivity. Qed.

(* what the code printed before the repairs is rejected by the statement *)
Example C09_old_oracle_refuted :
  c09_ok ORACLE (TQuery (shape BOracle (Some 3%Z) (Some 4%Z) false)) (L "SELECT ""a"" FROM ""t"" FETCH NEXT 3 ROWS ONLY OFFSET 4 ROWS") false [] = Some false.
Proof. vm_compute. reflexivity. Qed.
Example C09_old_sqlite_refuted :
  c09_ok SQLITE (TQuery (shape BSQLite None (Some 7%Z) false)) (L "SELECT ""a"" FROM ""t"" OFFSET 7") false [] = Some false.
Proof. vm_compute. reflexivity. Qed.
(* known finding: OFFSET alone on a set operation of the SQLite / MySQL classes *)
Example C09_setop_offset_alone_refuted :
  match render (ctx_of BSQLite) None (setop BSQLite None (Some 4%Z) false) with
  | Ok (s, _) => c09_ok SQLITE (setop BSQLite None (Some 4%Z) false) s false [] = Some false
  | Exn _ => False
  end.
Proof. vm_compute. reflexivity. Qed.

(* Props/C17.v — C17: equality and hashing of tables, schemas, aliased queries and query builders are coherent.

   Judged on the implementation by ./check C17: ==, hash equality, set / dict / list membership on the cross product of table variants
   (relational, and against Model.EqHash evaluated in Coq); fields_() / tables_ against an independent walk of the object graph.

   Proved here, for ALL names, schema chains and aliases: == is an equivalence; equal objects have equal hash keys (and conversely);
   membership in a set or dict is a linear search with ==; and - on the tables regenerated from the source on every run - __hash__ reads
   only attributes that __eq__ compares, and nodes_() visits every attribute that can hold a column or table reference. *)
From PT Require Import Base.Str Model.EqHash Gen.EqHash Gen.Children.
Open Scope N_scope.

Lemma strs_eqb_eq a b : strs_eqb a b = true <-> a = b.
Proof.
  revert b; induction a as [|x a IH]; intros [|y b]; simpl; split; intro H; try congruence; try discriminate.
  - apply andb_true_iff in H as [H1 H2]. apply seqb_eq in H1. apply IH in H2. congruence.
  - inversion H; subst. rewrite seqb_refl. simpl. apply IH. reflexivity.
Qed.
Lemma ostr_eqb_eq a b : ostr_eqb a b = true <-> a = b.
Proof. destruct a, b; simpl; split; intro H; try congruence; try discriminate. apply seqb_eq in H; congruence. inversion H; apply seqb_refl. Qed.
Lemma oschema_eqb_eq a b : oschema_eqb a b = true <-> a = b.
Proof. destruct a, b; simpl; split; intro H; try congruence; try discriminate. apply strs_eqb_eq in H; congruence. inversion H; apply strs_eqb_eq; reflexivity. Qed.

(* == on tables is exactly equality of the compared triple *)
Lemma tbl_eq_spec a b : tbl_eq a b = true <-> tbl_key a = tbl_key b.
Proof.
  unfold tbl_eq, tbl_key. rewrite !andb_true_iff, seqb_eq, oschema_eqb_eq, ostr_eqb_eq.
  split; [intros [[-> ->] ->]; reflexivity | intro H; inversion H; auto].
Qed.

Theorem C17_table_eq_equivalence :
  (forall a, tbl_eq a a = true) /\ (forall a b, tbl_eq a b = tbl_eq b a) /\ (forall a b c, tbl_eq a b = true -> tbl_eq b c = true -> tbl_eq a c = true).
Proof.
  repeat split.
  - intro a. apply tbl_eq_spec. reflexivity.
  - intros a b. destruct (tbl_eq a b) eqn:E1, (tbl_eq b a) eqn:E2; try reflexivity.
    + apply tbl_eq_spec in E1. symmetry in E1. apply tbl_eq_spec in E1. congruence.
    + apply tbl_eq_spec in E2. symmetry in E2. apply tbl_eq_spec in E2. congruence.
  - intros a b c H1 H2. apply tbl_eq_spec in H1, H2. apply tbl_eq_spec. congruence.
Qed.
Print Assumptions C17_table_eq_equivalence.

(* equal tables have equal hashes (keys), whatever their temporal clause; unequal tables have different keys *)
Theorem C17_table_eq_hash : forall a b, tbl_eq a b = tkey_eqb (tbl_key a) (tbl_key b).
Proof. intros [n1 s1 a1 f1] [n2 s2 a2 f2]. reflexivity. Qed.

(* membership in a set / dict (hash lookup, then ==) is a linear search with == *)
Theorem C17_set_mem_is_linear : forall x s, set_mem tbl_eq tbl_key tkey_eqb x s = list_mem tbl_eq x s.
Proof.
  intros x s. unfold set_mem, list_mem. induction s as [|y s IH]; [reflexivity|].
  cbn [existsb]. rewrite IH. f_equal. rewrite <- C17_table_eq_hash. destruct (tbl_eq y x); reflexivity.
Qed.
Print Assumptions C17_set_mem_is_linear.

Theorem C17_schema_aliased_builder :
  (forall a b : schema, schema_eq a b = true <-> schema_key a = schema_key b) /\
  (forall a b : str, aq_eq a b = true <-> a = b) /\ (forall a b : option str, qb_eq a b = true <-> a = b).
Proof. repeat split; intros; try (apply strs_eqb_eq; assumption); try (apply seqb_eq; assumption); try (apply ostr_eqb_eq; assumption). Qed.

(* ---- obligations on the regenerated source facts ---- *)
Definition subset (a b : list str) : bool := forallb (fun x => existsb (seqb x) b) a.
Definition hash_reads_only_eq_fields (r : str * option (list str) * option (list str)) : bool :=
  let '(n, e, h) := r in
  if seqb n (L "Field") then true            (* Term.__eq__ builds a criterion; Field is not among the classes of this property *)
  else match e, h with
       | Some ef, Some hf => subset hf ef && subset ef hf
       | None, None => true
       | _, _ => false                       (* __eq__ without __hash__ (unhashable) or the reverse *)
       end.
Theorem C17_hash_over_eq_fields : forallb hash_reads_only_eq_fields eqhash = true.
Proof. vm_compute. reflexivity. Qed.
Print Assumptions C17_hash_over_eq_fields.

(* fields_() / tables_ walk nodes_(): every attribute that can hold a reference is visited (statements deliberately stop: a sub-query keeps its own fields) *)
Definition visit_complete_row (r : str * list str * option (list str) * option (list str) * bool) : bool :=
  let '(_, kids, _, vis, stmt) := r in stmt || match vis with Some l => subset kids l | None => false end.
Theorem C17_visit_complete : forallb visit_complete_row children = true.
Proof. vm_compute. reflexivity. Qed.
Print Assumptions C17_visit_complete.

Example C17_nonvacuous :
  let t := MkTbl (L "t") (Some [L "s"]) None None in
  let tf := MkTbl (L "t") (Some [L "s"]) None (Some (L """x""=1")) in
  let ta := MkTbl (L "t") (Some [L "s"]) (Some (L "al")) None in
  tbl_eq t tf = true /\ tbl_key t = tbl_key tf /\ tbl_eq t ta = false /\ set_mem tbl_eq tbl_key tkey_eqb tf [ta; t] = true.
Proof. vm_compute. repeat split. Qed.

(* Props/C12.v — C12: aliases are emitted exactly once, where they define a name, for every term kind.

   Statement judged on implementation outputs by ./check C12 (relational: aliased vs un-aliased construction in every defining and operand
   position, for every live Term subclass).  Proved here, per constructor of the model (all plain term kinds): *)
From PT Require Import Base.Str Model.Types Model.Value Model.Interval Model.Syntax Gen.Ctx Gen.Enums Gen.Prec Gen.Placeholders Model.Render.
Open Scope N_scope.

(* the same term without its own alias *)
Definition unalias (t : term) : term :=
  match t with
  | TField n tb _ => TField n tb None | TIndex n _ => TIndex n None
  | TVal w v i _ al => TVal w v i None al | TValTerm w x i _ al => TValTerm w x i None al
  | TNeg x _ => TNeg x None | TArith o l r _ => TArith o l r None | TBasic o l r _ => TBasic o l r None
  | TComplex o l r _ => TComplex o l r None | TNested o nc l r n _ => TNested o nc l r n None
  | TNot x _ => TNot x None | TAll x _ => TAll x None | TIsNull x _ => TIsNull x None
  | TContains x c n _ => TContains x c n None | TBetween x s e _ => TBetween x s e None | TPeriod x s e _ => TPeriod x s e None
  | TBitAnd x v _ => TBitAnd x v None | TCase cs e _ => TCase cs e None
  | TFunc n a sp sf d f o np sch _ => TFunc n a sp sf d f o np sch None
  | TTuple vs _ => TTuple vs None | TArray vs i h _ => TArray vs i h None | TJson j _ => TJson j None
  | TValues f _ => TValues f None | TLiteral r _ => TLiteral r None | TPseudo r _ => TPseudo r None
  | TParam ph i _ => TParam ph i None | TAtTZ f z i _ => TAtTZ f z i None
  | other => other
  end.

(* terms that are not statements / selectables (those are the subject of C10) *)
Definition plain_term (t : term) : bool :=
  match t with
  | TQuery _ | TSetOp _ _ _ _ _ _ | TTable _ _ _ | TAliased _ _ | TStar _ _ | TInterval _ | TRawStr _
  | TCreate _ _ _ _ _ _ _ _ _ _ | TDrop _ _ | TLoad _ _ => false
  | _ => true
  end.

Ltac head_ok X := lazymatch X with | match _ with _ => _ end => fail | if _ then _ else _ => fail | let '(_, _) := _ in _ => fail | _ => idtac end.
Ltac step :=
  match goal with
  | |- ?x = ?x => reflexivity
  | |- context [match ?X with Ok _ => _ | Exn _ => _ end] => head_ok X; destruct X as [[? ?]|?]
  | |- context [let '(_, _) := ?X in _] => head_ok X; destruct X
  | |- context [if ?X then _ else _] => head_ok X; destruct X
  | |- context [match ?X with _ => _ end] => head_ok X; destruct X
  end.

(* (i) DEFINING POSITION: under with_alias = true every term kind prints its un-aliased text followed by exactly its alias *)
Theorem C12_defining_position : forall t c p, plain_term t = true -> with_alias c = true ->
  render c p t = match render c p (unalias t) with
                 | Ok (s, p') => Ok (alias_sql c s (term_alias t), p')
                 | Exn e => Exn e
                 end.
Proof.
  intros t c p Hp Hw. destruct t; try discriminate Hp; cbn [render unalias term_alias]; rewrite ?Hw; cbn [alias_if alias_sql];
    repeat (step; cbn [alias_if alias_sql]; try reflexivity).
Qed.
Print Assumptions C12_defining_position.

(* (ii) OPERANDS: the with_alias flag only ever reaches a term's OWN alias: every composite renders all of its operand slots with the flag
   off, so the un-aliased composite renders the same whether or not the position it stands in prints aliases - for every constructor
   (ValueWrapper(<term>) hands its context to the wrapped term unchanged and is excluded) *)
Definition not_valterm (t : term) : bool := match t with TValTerm _ _ _ _ _ => false | _ => true end.
Lemma swa_idem b1 b2 c : set_with_alias b1 (set_with_alias b2 c) = set_with_alias b1 c.
Proof. destruct c; reflexivity. Qed.
Lemma swa_sub b c b2 : set_with_alias b (set_subcriterion b2 c) = set_subcriterion b2 (set_with_alias b c).
Proof. destruct c; reflexivity. Qed.
Lemma swa_subq b c b2 : set_with_alias b (set_subquery b2 c) = set_subquery b2 (set_with_alias b c).
Proof. destruct c; reflexivity. Qed.

Theorem C12_operands_unaliased : forall t c p, plain_term t = true -> not_valterm t = true ->
  render (set_with_alias true c) p (unalias t) = render (set_with_alias false c) p (unalias t).
Proof.
  intros t c p Hp Hv. destruct t; try discriminate Hp; try discriminate Hv; destruct c as [q1 q2 q3 d0 b1 b2 b3 b4 b5 b6 b7]; cbn [render unalias];
    cbn [set_with_alias set_subcriterion set_subquery with_alias subcriterion subquery quote_char secondary_quote_char alias_quote_char dialect as_keyword
         with_namespace groupby_alias orderby_alias alias_if alias_sql]; try reflexivity.
Qed.
Print Assumptions C12_operands_unaliased.

(* as an operand (flag off) the alias of a flag-respecting term kind is invisible *)
Definition respects_flag (t : term) : bool :=
  match t with
  | TField _ _ _ | TIndex _ _ | TNeg _ _ | TArith _ _ _ _ | TBasic _ _ _ _ | TComplex _ _ _ _ | TNested _ _ _ _ _ _ | TCase _ _ _
  | TFunc _ _ _ _ _ _ _ _ _ _ | TValues _ _ | TPseudo _ _ | TParam _ _ _ => true
  | _ => false
  end.
Theorem C12_operand_alias_invisible : forall t c p, respects_flag t = true -> with_alias c = false ->
  render c p t = render c p (unalias t).
Proof.
  intros t c p Hr Hw. destruct t; try discriminate Hr; cbn [render unalias]; rewrite ?Hw; cbn [alias_if]; reflexivity.
Qed.

(* the classes that print their alias whatever the position: known finding C12-unconditional-alias (the stand-alone form is pinned by the test-suite) *)
Example C12_unconditional_refuted :
  let t := TBasic (CEq Eq) (TField (L "z") None None) (TVal WPlain (VInt 1) [] (Some (L "al")) true) None in
  render default_ctx None t = Ok (L """z""=1 ""al""", None) /\ render default_ctx None t <> render default_ctx None (TBasic (CEq Eq) (TField (L "z") None None) (unalias (TVal WPlain (VInt 1) [] (Some (L "al")) true)) None).
Proof. split; [reflexivity|discriminate]. Qed.

(* (iii) ORDER BY refers to a select item by alias only if the select list carries that alias *)
Theorem C12_groupby_alias_defined : forall c sel p t o r,
  alias_selected (term_alias t) sel = false ->
  render_obys c sel true p (OCons t o r) =
  match render c p t with
  | Ok (s, p1) => match render_obys c sel true p1 r with
                  | Ok (ss, p2) => Ok ((match o with Some d => s ++ [32] ++ order_sql d | None => s end) :: ss, p2)
                  | Exn e => Exn e
                  end
  | Exn e => Exn e
  end.
Proof. intros c sel p t o r H. cbn [render_obys]. rewrite H, andb_false_r. reflexivity. Qed.

(* ... and the ORDER BY of a SET OPERATION (rendered with is_builder = false against the select aliases of its base query) likewise *)
Theorem C12_setop_orderby_alias_defined : forall c sel p t o r,
  alias_selected (term_alias t) sel = false ->
  render_obys c sel false p (OCons t o r) =
  match render c p t with
  | Ok (s, p1) => match render_obys c sel false p1 r with
                  | Ok (ss, p2) => Ok ((match o with Some d => s ++ [32] ++ order_sql d | None => s end) :: ss, p2)
                  | Exn e => Exn e
                  end
  | Exn e => Exn e
  end.
Proof. intros c sel p t o r H. cbn [render_obys]. rewrite H. reflexivity. Qed.

Example C12_nonvacuous :
  render (set_with_alias true default_ctx) None (TArith Add (TField (L "a") None (Some (L "x"))) (TField (L "b") None None) (Some (L "s"))) =
  Ok (L """a""+""b"" ""s""", None).
Proof. reflexivity. Qed.

From PT Require Import Proofs.QueryEq.

(* ---- lifted to lists and to the select list of EVERY statement ---- *)
Fixpoint all_plain (l : terms) : bool := match l with TNil => true | TCons t r => plain_term t && all_plain r end.
Fixpoint unalias_ts (l : terms) : terms := match l with TNil => TNil | TCons t r => TCons (unalias t) (unalias_ts r) end.
Fixpoint put_aliases (c : ctx) (ss : list str) (l : terms) : list str :=
  match ss, l with
  | s :: ss', TCons t r => alias_sql c s (term_alias t) :: put_aliases c ss' r
  | _, _ => ss
  end.

Lemma render_ts_defining : forall l c p, all_plain l = true -> with_alias c = true ->
  render_ts c p l = match render_ts c p (unalias_ts l) with
                    | Ok (ss, p') => Ok (put_aliases c ss l, p')
                    | Exn e => Exn e
                    end.
Proof.
  induction l as [|t r IH]; intros c p Hp Hw; [reflexivity|].
  cbn [all_plain] in Hp. apply andb_prop in Hp. destruct Hp as [Ht Hr].
  cbn [render_ts unalias_ts]. rewrite (C12_defining_position t c p Ht Hw).
  destruct (render c p (unalias t)) as [[s p1]|e]; [|reflexivity].
  rewrite (IH c p1 Hr Hw).
  destruct (render_ts c p1 (unalias_ts r)) as [[ss p2]|e]; reflexivity.
Qed.

(* the select list of EVERY statement of the model: each item is its un-aliased rendering followed by exactly its own alias *)
Theorem C12_select_list_defines_aliases : forall (q : query) (c : ctx) (p : pz),
  all_plain (q_selects q) = true ->
  r_ts the_rens (set_with_alias true (set_subquery true c)) p (q_selects q) =
    match r_ts the_rens (set_with_alias true (set_subquery true c)) p (unalias_ts (q_selects q)) with
    | Ok (ss, p') => Ok (put_aliases (set_with_alias true (set_subquery true c)) ss (q_selects q), p')
    | Exn e => Exn e
    end.
Proof. intros q c p H. cbn [r_ts the_rens]. apply render_ts_defining; [exact H | destruct c; reflexivity]. Qed.
Print Assumptions C12_select_list_defines_aliases.

(* the filter clauses of EVERY statement (WHERE, PREWHERE, HAVING are rendered under the clause context with sub-queries parenthesised):
   the alias of a flag-respecting operand is invisible there, whatever flags the embedding position handed down *)
Theorem C12_filter_clauses_ignore_aliases : forall (q : query) (c0 : ctx) (p : pz) (t : term),
  respects_flag t = true ->
  let c := set_subquery true (clause_ctx q (adjust_ctx q c0)) in
  render_o c p (SomeT t) = render_o c p (SomeT (unalias t)).
Proof.
  intros q c0 p t Hr c. cbn [render_o].
  rewrite (C12_operand_alias_invisible t c p Hr); [reflexivity|].
  unfold c, clause_ctx, adjust_ctx. destruct (q_cls q), c0; reflexivity.
Qed.
Print Assumptions C12_filter_clauses_ignore_aliases.

(* Props/C02.v — C02: rendering is a pure, repeatable, process-independent function.
   (i)  no render method writes to the object, its sub-objects or its arguments, except through the
        caller's parameterizer (render_ok over Gen/Effects.v; render_frame);
   (ii) the model of rendering is a function of (context, parameterizer state, object): repeated and
        interleaved renders return identical SQL and values (render_deterministic);
   (iii) no render method iterates over a set-valued attribute (part of render_ok: EIter), so the
        output does not depend on the hash seed.
   PARTIAL: thread schedules and a second interpreter process are CPython behaviour outside any
   executable model; ./check C02 exercises them as search only (thread pool, PYTHONHASHSEED). *)
From PT Require Import Base.Str Model.Types Model.Syntax Model.Render Model.Effects Gen.Effects Proofs.Frame.
Open Scope N_scope.

Theorem C02_renders_pure : all_renders_ok classes = true.
Proof. vm_compute. reflexivity. Qed.
Print Assumptions C02_renders_pure.

Theorem C02_render_frame :
  forall (mn : list str) (c : classrec) (self' : loc) (argloc : str -> list str -> loc) effs,
  forallb (render_ok_eff classes mn c) effs = true -> flat (map (render_cells self' argloc) effs) = [].
Proof. intros. eapply render_frame; eassumption. Qed.
Print Assumptions C02_render_frame.

(* determinism of the rendering model: any two evaluations agree, whatever happened in between *)
Theorem C02_render_deterministic : forall (c : ctx) (p : pz) (t : term) r1 r2,
  r1 = render c p t -> r2 = render c p t -> r1 = r2.
Proof. intros. congruence. Qed.
Print Assumptions C02_render_deterministic.

Example C02_nonvacuous : (150 <= n_render_methods classes)%nat /\
  existsb (fun c => seqb (c_name c) (L "QueryBuilder") && existsb (fun m => seqb (m_name m) (L "get_sql")) (render_methods c)) classes = true.
Proof. vm_compute. split; [repeat constructor|reflexivity]. Qed.

(* Props/C05.v — C05: inlined values are single literal tokens that decode to the original value.

   Statement judged on every implementation output by ./check C05 (Ref/Align.v, twin_ok): the text rendered
   with the actual values reads, token for token, as the text rendered with harmless marker values in which
   every marker literal is replaced by ONE literal token decoding to the actual value.

   Proved here, for ALL strings / integers and every dialect, about the model of the value printers
   (Model/Value.v: get_formatted_value, the MySQL and SQLite wrappers, format_quotes, the JSON term): *)
From PT Require Import Base.Str Model.Types Model.Value Gen.Ctx Ref.Lexer Ref.Align Proofs.LexQuoted Proofs.LexLit.
Open Scope N_scope.

(* the MySQL wrapper class is only meaningful under the MySQL dialect (it is what MySQLQueryBuilder installs) *)
Definition wrapper_ok (w : wcls) (d : dial) : Prop := w = WMySQL -> d = MYSQL.

Lemma C05_secondary_quote : forall b, secondary_quote_char (ctx_of b) = [39].
Proof. destruct b; reflexivity. Qed.

Lemma bs_iff_mysql d : lc_bs (lexcfg_of d) = dial_eqb d MYSQL.
Proof. destruct d; reflexivity. Qed.

(* every string value, in every dialect, through every wrapper class: one string token decoding to s *)
Theorem C05_string : forall d w s, wrapper_ok w d ->
  lex d (value_sql w (dial_eqb d MYSQL) [39] (VStr s)) = Some [TStr s].
Proof.
  intros d w s Hw. unfold lex. pose proof (bs_iff_mysql d) as Hb.
  destruct (dial_eqb d MYSQL) eqn:E.
  - destruct w; cbn [value_sql fmt_plain bsd]; apply string_roundtrip_mysql; assumption.
  - destruct w; cbn [value_sql fmt_plain bsd]; try (apply string_roundtrip; assumption).
    specialize (Hw eq_refl). subst d. discriminate.
Qed.
Print Assumptions C05_string.

(* dates, datetimes, UUIDs and json.dumps texts take the same path *)
Theorem C05_text_kinds : forall d w s, wrapper_ok w d ->
  lex d (value_sql w (dial_eqb d MYSQL) [39] (VIso s)) = Some [TStr s] /\
  lex d (value_sql w (dial_eqb d MYSQL) [39] (VUuid s)) = Some [TStr s] /\
  (w <> WMySQL -> lex d (value_sql w (dial_eqb d MYSQL) [39] (VDumped s)) = Some [TStr s]).
Proof.
  intros d w s Hw. unfold lex. pose proof (bs_iff_mysql d) as Hb.
  destruct (dial_eqb d MYSQL) eqn:E.
  - repeat split; destruct w; cbn [value_sql fmt_plain bsd]; try (intros; apply string_roundtrip_mysql; assumption); congruence.
  - repeat split; destruct w; cbn [value_sql fmt_plain bsd]; try (intros; apply string_roundtrip; assumption);
      try congruence; specialize (Hw eq_refl); subst d; discriminate.
Qed.

(* integers: a non-negative one is one numeric token that reads back as the number; a negative one is a minus sign and
   the numeric token of its magnitude *)
Theorem C05_int : forall d w my q z,
  match z with
  | Zneg p => lex d (value_sql w my q (VInt z)) = Some [TOp [45]; TNum (N_to_str (Npos p))] /\ read_dec (N_to_str (Npos p)) = Some (Npos p)
  | _ => lex d (value_sql w my q (VInt z)) = Some [TNum (N_to_str (Z.to_N z))] /\ read_dec (N_to_str (Z.to_N z)) = Some (Z.to_N z)
  end.
Proof.
  intros d w my q z. unfold lex.
  destruct z as [|p|p]; destruct w; cbn [value_sql fmt_plain Z_to_str Z.to_N];
    first [ split; [apply neg_roundtrip|apply read_dec_N_to_str] | apply nat_roundtrip | split; [reflexivity|reflexivity] ].
Qed.
Print Assumptions C05_int.

Theorem C05_bool_none : forall d w my q b,
  lex d (value_sql w my q VNone) = Some [TWord (L "null")] /\
  lex d (value_sql w my q (VBool b)) = Some [match w with WSQLite => TNum (if b then L "1" else L "0") | _ => TWord (if b then L "true" else L "false") end].
Proof. intros d w my q b. split; destruct d, w, b; reflexivity. Qed.

(* a string literal is one token whatever surrounds it *)
Theorem C05_in_context : forall d st out' s c rest,
  lc_bs (lexcfg_of d) = false -> pending st = Some out' -> c <> 39 ->
  run (lexcfg_of d) st (fquote [39] s ++ c :: rest) = run (lexcfg_of d) (start (lexcfg_of d) (TStr s :: out') c) rest.
Proof.
  intros d st out' s c rest Hb Hp Hc.
  apply (quoted_in_context (lexcfg_of d) st out' 39 KStr s c rest Hp eq_refl); [left; exact Hb|exact Hc].
Qed.

(* the JSON term: every string inside it is written so that a JSON reader gets the string back *)
Theorem C05_json_string : forall s, exists body, json_sql (JStr s) = [34] ++ body ++ [34] /\ json_body_decode body = Some s.
Proof. intro s. apply json_string_roundtrip. Qed.
Print Assumptions C05_json_string.

(* the whole JSON term, quoted as a SQL literal, is one string token holding the JSON text *)
Theorem C05_json_literal : forall d j, lc_bs (lexcfg_of d) = false -> lex d (fquote [39] (json_sql j)) = Some [TStr (json_sql j)].
Proof. intros d j Hb. apply string_roundtrip. exact Hb. Qed.

(* regression witnesses: what the code printed before the repairs is NOT one token decoding to the value *)
Example C05_old_mysql_plain_refuted :
  lex MYSQL (39 :: dbl 39 (L "trail\") ++ [39]) <> Some [TStr (L "trail\")].
Proof. vm_compute. discriminate. Qed.
Example C05_old_dict_refuted :
  lex SQLITE (39 :: L "{""a"": ""b'c""}" ++ [39]) <> Some [TStr (L "{""a"": ""b'c""}")].
Proof. vm_compute. discriminate. Qed.

(* non-vacuity of the twin statement: a nasty value against its marker *)
Example C05_twin_nonvacuous :
  twin_ok MYSQL [(L "zqv1", MVal (VStr (L "a'b\c--/*")))]
     (L "SELECT `a` FROM `t` WHERE `a`='zqv1'") (L "SELECT `a` FROM `t` WHERE `a`='a''b\\c--/*'") = Some true /\
  twin_ok MYSQL [(L "zqv1", MVal (VStr (L "a'b\")))]
     (L "SELECT `a` FROM `t` WHERE `a`='zqv1' AND `b`=1") (L "SELECT `a` FROM `t` WHERE `a`='a''b\' AND `b`=1") = Some false.
Proof. vm_compute. split; reflexivity. Qed.

From PT Require Import Model.Interval Model.Syntax Gen.Enums Gen.Prec Gen.Placeholders Model.Render.

(* LOAD DATA: the file name is written by the same literal printer as every string value (MySQL rule: backslashes doubled) - for ALL
   file names; by C05_string the literal reads back as one string token holding the file name *)
Theorem C05_load_file_literal : forall tn f0 fs,
  render (ctx_of BMySQL) None (TLoad (Some (f0 :: fs)) (SomeT (TTable (MkTRef true tn [] None 0) NoT NoT))) =
  Ok (L "LOAD DATA LOCAL INFILE " ++ value_sql WPlain true [39] (VStr (f0 :: fs)) ++ L " INTO TABLE " ++ fquote (L "`") tn ++
      L " FIELDS TERMINATED BY ','", None).
Proof.
  intros tn f0 fs. lazy -[fquote app bsd dbl]. repeat (progress (cbn [app]; rewrite <- ?app_assoc; rewrite ?app_nil_r)). reflexivity.
Qed.
Print Assumptions C05_load_file_literal.

(* Props/C07.v — C07: user-supplied names are emitted as single, correctly quoted identifiers.

   Statement judged on every implementation output by ./check C07 (Ref/Align.v, twin_ok): the text rendered with
   the actual names reads, token for token, as the text rendered with harmless marker names in which every marker
   identifier token is replaced by ONE quoted-identifier token denoting exactly the actual name; a name written
   bare or inside another dialect's quotes fails.

   Proved here for ALL names, about the model of format_quotes / format_alias_sql with the quote characters
   regenerated from /repo (Gen/Ctx.v): *)
From PT Require Import Base.Str Model.Types Model.Value Model.Interval Model.Syntax Gen.Ctx Gen.Enums Gen.Prec Gen.Placeholders Model.Render
     Ref.Lexer Ref.Align Proofs.LexQuoted Proofs.LexLit.
Open Scope N_scope.

(* the identifier quote and the alias quote of every query class open an identifier in that class's dialect *)
Lemma C07_quote_chars : forall b,
  exists q, quote_char (ctx_of b) = [q] /\ opens (lexcfg_of (dialect (ctx_of b))) q = Some KId /\
  exists a, alias_q (ctx_of b) = [a] /\ opens (lexcfg_of (dialect (ctx_of b))) a = Some KId.
Proof. destruct b; eexists; (split; [reflexivity|]); (split; [reflexivity|]); eexists; split; reflexivity. Qed.

(* every name, under every query class: one identifier token denoting exactly that name *)
Theorem C07_ident : forall b name,
  lex (dialect (ctx_of b)) (fquote (quote_char (ctx_of b)) name) = Some [TQId name] /\
  lex (dialect (ctx_of b)) (fquote (alias_q (ctx_of b)) name) = Some [TQId name].
Proof.
  intros b name. destruct (C07_quote_chars b) as (q & Eq & Hq & a & Ea & Ha).
  rewrite Eq, Ea. unfold lex. split; apply ident_roundtrip; assumption.
Qed.
Print Assumptions C07_ident.

(* ... whatever precedes and follows it *)
Theorem C07_in_context : forall b st out' name c rest,
  pending st = Some out' ->
  forall q, quote_char (ctx_of b) = [q] -> c <> q ->
  run (lexcfg_of (dialect (ctx_of b))) st (fquote [q] name ++ c :: rest) =
  run (lexcfg_of (dialect (ctx_of b))) (start (lexcfg_of (dialect (ctx_of b))) (TQId name :: out') c) rest.
Proof.
  intros b st out' name c rest Hp q Eq Hc.
  destruct (C07_quote_chars b) as (q' & Eq' & Hq & _). rewrite Eq in Eq'. inversion Eq'; subst q'.
  apply (quoted_in_context _ st out' q KId name c rest Hp Hq); [apply dbl_bs_no_issue_id|exact Hc].
Qed.

(* sites, on the model of the renderers: a column reference, a qualified one, a column with an alias *)
Definition tref_plain (name : str) : tref := MkTRef true name [] None 0.

(* qualified column: "t"."a" is identifier, dot, identifier - for all table and column names *)
Theorem C07_qualified_field : forall b tname fname,
  match render (set_with_namespace true (ctx_of b)) None (TField fname (Some (tref_plain tname)) None) with
  | Ok (s, _) => lex (dialect (ctx_of b)) s = Some [TQId tname; TOp [46]; TQId fname]
  | Exn _ => False
  end.
Proof.
  intros b tname fname.
  destruct (C07_quote_chars b) as (q & Eq & Hq & _).
  cbn [render]. replace (with_namespace (set_with_namespace true (ctx_of b))) with true by (destruct b; reflexivity).
  replace (with_alias (set_with_namespace true (ctx_of b))) with false by (destruct b; reflexivity).
  replace (quote_char (set_with_namespace true (ctx_of b))) with [q] by (destruct b; exact (eq_sym Eq)).
  replace (dialect (set_with_namespace true (ctx_of b))) with (dialect (ctx_of b)) by (destruct b; reflexivity).
  cbn [orb alias_if qualifier tref_plain tr_istable tr_alias tr_name str_truthy].
  unfold lex, lexc.
  assert (Hdot : 46 <> q) by (destruct b; inversion Eq; subst q; discriminate).
  change ([46] ++ fquote [q] fname) with (46 :: fquote [q] fname).
  rewrite (quoted_in_context _ (MNorm, []) [] q KId tname 46 _ eq_refl Hq (dbl_bs_no_issue_id _ _) Hdot).
  assert (Hst : start (lexcfg_of (dialect (ctx_of b))) [TQId tname] 46 = (MOp [46], [TQId tname])) by (destruct b; reflexivity).
  cbn [mk_q]. rewrite Hst.
  rewrite (quoted_at_end _ (MOp [46], [TQId tname]) [TOp [46]; TQId tname] q KId fname eq_refl Hq (dbl_bs_no_issue_id _ _)).
  reflexivity.
Qed.
Print Assumptions C07_qualified_field.

(* regression witness: without doubling, a name holding the quote character is not read back as one token *)
Example C07_undoubled_refuted :
  lex SQLITE (34 :: L "we" ++ [34] ++ L "ird" ++ [34]) <> Some [TQId (L "we" ++ [34] ++ L "ird")].
Proof. vm_compute. discriminate. Qed.

(* known finding: a CTE name is written bare where it is defined and referenced *)
Definition cte_witness : term :=
  TQuery (MkQ BGeneric (MkFl None false false false false false false false false false false false false true [] [] None WPlain)
     (TCons (TAliased (L "my cte") NoT) TNil)
     (WCons (L "my cte") (TQuery (MkQ BGeneric (MkFl None false false false false false false false false false false false false true [] [] None WPlain)
        (TCons (TTable (tref_plain (L "t")) NoT NoT) TNil) WNil (TCons (TField (L "a") None None) TNil) TNil TNil TNil RNil NoT NoT NoT GNil ONil JNil NoT NoT UNil NoT NoT TNil CUNil NoT NoT TNil TNil)) TNil WNil)
     (TCons (TStar None None) TNil) TNil TNil TNil RNil NoT NoT NoT GNil ONil JNil NoT NoT UNil NoT NoT TNil CUNil NoT NoT TNil TNil).
Example C07_cte_bare_refuted :
  match render default_ctx None cte_witness with
  | Ok (s, _) => s = L "WITH my cte AS (SELECT ""a"" FROM ""t"") SELECT * FROM my cte" /\
                 twin_ok SQLITE [(L "zqn1", MName (L "my cte"))] (L "WITH zqn1 AS (SELECT ""a"" FROM ""t"") SELECT * FROM zqn1") s = Some false
  | Exn _ => False
  end.
Proof. vm_compute. split; reflexivity. Qed.

Example C07_twin_nonvacuous :
  twin_ok POSTGRESQL [(L "zqn1", MName (L "we""ird")); (L "zqn2", MName (L "select"))]
     (L "SELECT ""zqn2"" ""zqn1"" FROM ""zqn1""") (L "SELECT ""select"" ""we""""ird"" FROM ""we""""ird""") = Some true.
Proof. vm_compute. reflexivity. Qed.

(* DDL: every table, column, period and constraint-column name of a CREATE TABLE statement is written through the one quoting function
   (fquote with the class's quote character) - for ALL names, all six classes; by C07_ident each of them reads back as one identifier *)
Definition qd (b : bcls) (n : str) : str := fquote (quote_char (ctx_of b)) n.
Theorem C07_create_table_shape : forall b tn c1 c2 pf t0 ty,
  render (ctx_of b) None
    (TCreate (SomeT (TTable (tref_plain tn) NoT NoT)) false false true false
       (KCons c1 (Some (t0 :: ty)) (Some false) NoT (KCons c2 None None NoT KNil)) [(pf, c1, c2)] [[c1; c2]] [c1] NoT)
  = Ok (L "CREATE TABLE IF NOT EXISTS " ++ qd b tn ++ L " (" ++ qd b c1 ++ [32] ++ (t0 :: ty) ++ L " NOT NULL," ++ qd b c2 ++
        L ",PERIOD FOR " ++ qd b pf ++ L " (" ++ qd b c1 ++ [44] ++ qd b c2 ++ L "),UNIQUE (" ++ qd b c1 ++ [44] ++ qd b c2 ++
        L "),PRIMARY KEY (" ++ qd b c1 ++ L "))", None).
Proof.
  intros b tn c1 c2 pf t0 ty. unfold qd.
  destruct b; lazy -[fquote app]; repeat (progress (cbn [app]; rewrite <- ?app_assoc; rewrite ?app_nil_r)); reflexivity.
Qed.
Print Assumptions C07_create_table_shape.

Theorem C07_drop_table_shape : forall b tn sch,
  render (ctx_of b) None (TDrop (SomeT (TTable (MkTRef true tn [sch] None 0) NoT NoT)) true)
  = Ok (L "DROP TABLE IF EXISTS " ++ qd b sch ++ [46] ++ qd b tn, None).
Proof.
  intros b tn sch. unfold qd.
  destruct b; lazy -[fquote app]; repeat (progress (cbn [app]; rewrite <- ?app_assoc; rewrite ?app_nil_r)); reflexivity.
Qed.

(* Props/C10.v — C10: a sub-query renders the same wherever it is embedded (theorems are added by Proofs/Flags.v; see below). *)
From PT Require Import Base.Str Model.Types Model.Value Model.Interval Model.Syntax Gen.Ctx Gen.Enums Gen.Prec Gen.Placeholders Model.Render.
Open Scope N_scope.
Example C10_nonvacuous : True. Proof. exact I. Qed.

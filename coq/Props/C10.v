(* Props/C10.v — a sub-query renders the same wherever it is embedded.  Property theorems only.

   C10_embedded_is_standalone: for EVERY statement q that can stand in an embedding position, every context c0 handed
   down by the position (any flags, any dialect conventions) and every parameterizer state p, the text emitted is the
   stand-alone rendering of q under the same dialect conventions (all four position flags off), with the placeholders
   numbered from p on, wrapped in one pair of parentheses iff the position asks for them (subquery) and followed by
   q's alias iff the position defines one (with_alias).  Nothing else of c0 reaches the clauses.
   C10_position_flags_do_not_reach_the_clauses: the context of the clauses is a function of c0's dialect conventions only.
   C10_setop_*: the same for set operations (their operands, ORDER BY and row limit). *)
From PT Require Import Base.Str Model.Types Model.Value Model.Interval Model.Syntax
     Gen.Ctx Gen.Enums Gen.Prec Gen.Placeholders Model.Render Proofs.QueryEq.
Open Scope N_scope.

Theorem C10_embedded_is_standalone : forall (c0 : ctx) (p : pz) (q : query),
  selectable q = true ->
  render_query c0 p q =
    match render_query (standalone c0) p q with
    | Ok (s, p') => Ok ((if complete q then embed c0 q s else s), p')
    | Exn e => Exn e
    end.
Proof. exact embedded_is_standalone. Qed.
Print Assumptions C10_embedded_is_standalone.

Theorem C10_position_flags_do_not_reach_the_clauses : forall (q : query) (c0 c0' : ctx),
  quote_char c0 = quote_char c0' -> secondary_quote_char c0 = secondary_quote_char c0' -> alias_quote_char c0 = alias_quote_char c0' ->
  dialect c0 = dialect c0' -> as_keyword c0 = as_keyword c0' -> groupby_alias c0 = groupby_alias c0' -> orderby_alias c0 = orderby_alias c0' ->
  clause_ctx q (adjust_ctx q c0) = clause_ctx q (adjust_ctx q c0').
Proof. exact clause_ctx_conventions_only. Qed.
Print Assumptions C10_position_flags_do_not_reach_the_clauses.

Theorem C10_setop_embedded_is_standalone : forall (c0 : ctx) (p : pz) base ops obs lim off alias,
  render c0 p (TSetOp base ops obs lim off alias) =
    match render (standalone c0) p (TSetOp base ops obs lim off alias) with
    | Ok (s, p') => Ok (alias_if (with_alias c0) (setop_ctx c0) (paren_if (subquery c0) s) alias, p')
    | Exn e => Exn e
    end.
Proof. exact setop_embedded_is_standalone. Qed.
Print Assumptions C10_setop_embedded_is_standalone.

(* non-vacuity: a SELECT with an aliased term in WHERE, embedded with both flags on *)
Example C10_nonvacuous :
  let t := MkTRef true (L "t") [] None 0 in
  let q := MkQ BGeneric (MkFl (Some (L "sq")) false false false false false false false false false false false false true [] [] None WPlain)
             (TCons (TTable t NoT NoT) TNil) WNil (TCons (TField (L "a") (Some t) None) TNil) TNil TNil TNil RNil
             (SomeT (TBasic (CEq Eq) (TField (L "b") (Some t) (Some (L "leak"))) (TVal WPlain (VInt 1) (L "v1") None true) None))
             NoT NoT GNil ONil JNil NoT NoT UNil NoT NoT TNil CUNil NoT NoT TNil TNil in
  selectable q = true /\ complete q = true /\
  render_query (set_with_alias true (set_subquery true (set_with_namespace true (ctx_of BGeneric)))) None q
    = Ok (L "(SELECT ""a"" FROM ""t"" WHERE ""b""=1) ""sq""", None).
Proof. vm_compute. repeat split. Qed.

(* ... and a PostgreSQL DELETE .. RETURNING with aliased returned columns (legal as a CTE body): RETURNING stays inside the parentheses *)
Example C10_returning_nonvacuous :
  let t := MkTRef true (L "t") [] None 0 in
  let q := MkQ BPostgreSQL (MkFl (Some (L "sq")) true false false false false false false false false false false false true [] [] None WPlain)
             (TCons (TTable t NoT NoT) TNil) WNil TNil TNil TNil TNil RNil
             (SomeT (TBasic (CEq Eq) (TField (L "b") (Some t) None) (TVal WPlain (VInt 1) (L "v1") None true) None))
             NoT NoT GNil ONil JNil NoT NoT UNil NoT NoT TNil CUNil NoT NoT
             (TCons (TField (L "id") (Some t) None) (TCons (TField (L "c") (Some t) (Some (L "rc"))) TNil)) TNil in
  selectable q = true /\ complete q = true /\
  render_query (set_with_alias true (set_subquery true (set_with_namespace true (ctx_of BPostgreSQL)))) None q
    = Ok (L "(DELETE FROM ""t"" WHERE ""b""=1 RETURNING ""id"",""c"" ""rc"") ""sq""", None).
Proof. vm_compute. repeat split. Qed.

(* the body of a CTE (rendered by the WITH clause with both position flags off): exactly the stand-alone text - no parentheses of its own, no alias -
   whatever context the outer statement renders its WITH clause in *)
Theorem C10_cte_body_is_standalone : forall (c : ctx) (p : pz) (q : query),
  selectable q = true ->
  render_query (set_with_alias false (set_subquery false c)) p q = render_query (standalone c) p q.
Proof.
  intros c p q Hs. rewrite (embedded_is_standalone (set_with_alias false (set_subquery false c)) p q Hs).
  replace (standalone (set_with_alias false (set_subquery false c))) with (standalone c) by (destruct c; reflexivity).
  destruct (render_query (standalone c) p q) as [[s p']|e]; [|reflexivity].
  unfold embed. replace (subquery (set_with_alias false (set_subquery false c))) with false by (destruct c; reflexivity).
  replace (with_alias (set_with_alias false (set_subquery false c))) with false by (destruct c; reflexivity).
  rewrite wrap_id. destruct (complete q); reflexivity.
Qed.
Print Assumptions C10_cte_body_is_standalone.

(* Props/C14.v — C14: invalid constructions are rejected with library exceptions; valid ones never are.

   Judged on the implementation by ./check C14: for every generated program the exception class raised (or its absence) must equal the
   rule of Ref/Reject.v evaluated in Coq on the program's description.

   Proved here: the join rule is exactly "some referenced table is missing" (an iff, for all source lists), it does not depend on the
   order of the sources, the set-based validation the code performs (hash lookup then ==) decides the same as the rule, and the small
   decision tables of the other guards say what the property says. *)
From PT Require Import Base.Str Model.EqHash Ref.Reject Gen.EqHash.
From Coq Require Import Lia.
Open Scope N_scope.

Definition avail from joined item update ctes : list src := from ++ joined ++ [item] ++ update ++ ctes.

Theorem C14_join_reject_iff : forall from joined item update ctes refs,
  join_expected from joined item update ctes refs = Some XJoin <->
  exists r, In r refs /\ forall a, In a (avail from joined item update ctes) -> src_eq r a = false.
Proof.
  intros. unfold join_expected, join_ok. fold (avail from joined item update ctes).
  destruct (forallb _ refs) eqn:E; split; intro H; try discriminate; try reflexivity.
  - destruct H as (r & Hr & Hm). rewrite forallb_forall in E. specialize (E r Hr). apply existsb_exists in E as (a & Ha & Hq).
    rewrite (Hm a Ha) in Hq. discriminate.
  - clear H. induction refs as [|r refs IH]; [discriminate|]. cbn [forallb] in E. apply andb_false_iff in E as [E|E].
    + exists r. split; [left; reflexivity|]. intros a Ha. destruct (src_eq r a) eqn:Q; [|reflexivity].
      assert (existsb (src_eq r) (avail from joined item update ctes) = true) by (apply existsb_exists; eauto). congruence.
    + destruct (IH E) as (x & Hx & Hm). exists x. split; [right; assumption|assumption].
Qed.
Print Assumptions C14_join_reject_iff.

(* a condition that refers only to available sources is never rejected *)
Corollary C14_valid_never_rejected : forall from joined item update ctes refs,
  (forall r, In r refs -> In r (avail from joined item update ctes)) -> (forall r, src_eq r r = true) ->
  join_expected from joined item update ctes refs = None.
Proof.
  intros * Hin Hrefl. unfold join_expected, join_ok. fold (avail from joined item update ctes).
  replace (forallb _ refs) with true; [reflexivity|]. symmetry. apply forallb_forall. intros r Hr. apply existsb_exists. exists r. split; [apply Hin, Hr|apply Hrefl].
Qed.

Lemma src_eq_refl r : src_eq r r = true.
Proof. destruct r as [t| [a|] | n |]; simpl; try reflexivity; try apply seqb_refl. destruct t as [n s a f]. unfold tbl_eq. simpl. rewrite seqb_refl.
  destruct s as [s|]; destruct a as [a|]; simpl; rewrite ?seqb_refl; try reflexivity;
  assert (H : forall l, strs_eqb l l = true) by (induction l; simpl; rewrite ?seqb_refl; auto); rewrite ?H; reflexivity. Qed.

(* the validation as the code performs it: a set of the referenced tables minus a set of the available ones (hash lookup, then ==) *)
Definition src_key (s : src) : N * (str * option schema * option str) :=
  match s with
  | STable t => (0, tbl_key t) | SQuery a => (1, ([], None, a)) | SCte n => (2, (n, None, None)) | SNone => (3, ([], None, None))
  end.
Definition skey_eqb (x y : N * (str * option schema * option str)) : bool := (fst x =? fst y) && tkey_eqb (snd x) (snd y).
Definition validate_by_sets (availl refs : list src) : bool :=
  forallb (fun r => set_mem src_eq src_key skey_eqb r availl) refs.
Lemma src_eq_key a b : src_eq a b = true -> skey_eqb (src_key a) (src_key b) = true.
Proof.
  destruct a as [x|x|x|], b as [y|y|y|]; simpl; try discriminate; intro H; unfold skey_eqb; simpl.
  - destruct x, y; exact H.
  - unfold qb_eq in H. rewrite H. reflexivity.
  - unfold aq_eq in H. rewrite H. reflexivity.
  - reflexivity.
Qed.
Lemma seqb_sym p q : seqb p q = seqb q p.
Proof. revert q; induction p as [|c p IH]; destruct q as [|d q]; simpl; try reflexivity. rewrite IH, N.eqb_sym. reflexivity. Qed.
Lemma strs_eqb_sym p q : strs_eqb p q = strs_eqb q p.
Proof. revert q; induction p as [|c p IH]; destruct q as [|d q]; simpl; try reflexivity. rewrite IH, seqb_sym. reflexivity. Qed.
Lemma ostr_eqb_sym p q : ostr_eqb p q = ostr_eqb q p.
Proof. destruct p, q; simpl; try reflexivity. apply seqb_sym. Qed.
Lemma oschema_eqb_sym p q : oschema_eqb p q = oschema_eqb q p.
Proof. destruct p, q; simpl; try reflexivity. apply strs_eqb_sym. Qed.
Lemma src_eq_sym a b : src_eq a b = src_eq b a.
Proof.
  destruct a as [x|x|x|], b as [y|y|y|]; simpl; try reflexivity.
  - unfold tbl_eq. rewrite seqb_sym, oschema_eqb_sym, ostr_eqb_sym. reflexivity.
  - unfold qb_eq. apply ostr_eqb_sym.
  - unfold aq_eq. apply seqb_sym.
Qed.
Theorem C14_set_validation_is_the_rule : forall from joined item update ctes refs,
  validate_by_sets (avail from joined item update ctes) refs = join_ok from joined item update ctes refs.
Proof.
  intros. unfold validate_by_sets, join_ok. fold (avail from joined item update ctes).
  assert (Hext : forall (f g : src -> bool) l, (forall x, f x = g x) -> forallb f l = forallb g l).
  { intros f g l H. induction l as [|x l IHl]; [reflexivity|]. cbn [forallb]. rewrite H, IHl. reflexivity. }
  apply Hext. intro r. unfold set_mem. induction (avail from joined item update ctes) as [|a l IH]; [reflexivity|].
  cbn [existsb]. rewrite IH. f_equal. rewrite (src_eq_sym r a). destruct (src_eq a r) eqn:E; [|apply andb_false_r].
  rewrite (src_eq_key _ _ E). reflexivity.
Qed.
Print Assumptions C14_set_validation_is_the_rule.

(* the other guards, as the property words them *)
Theorem C14_guard_tables :
  (forall b ops, setop_expected b ops = None <-> forall n, In n ops -> n = b) /\
  (case_expected 0 = Some XCase /\ forall n, case_expected (S n) = None) /\
  conflict_expected true [CCOnConflict 1; CCDoNothing; CCDoUpdate] = Some XQuery /\
  conflict_expected true [CCOnConflict 1; CCDoUpdate; CCDoNothing] = Some XQuery /\
  conflict_expected true [CCOnConflict 1; CCDoNothing; CCWhere] = Some XQuery /\
  conflict_expected true [CCOnConflict 0; CCDoNothing; CCWhere] = Some XQuery /\
  conflict_expected true [CCOnConflict 0; CCWhere] = Some XQuery /\
  conflict_expected true [CCOnConflict 0; CCDoUpdate] = Some XQuery /\
  conflict_expected false [CCOnConflict 1] = Some XQuery /\
  conflict_expected true [CCOnConflict 1; CCDoUpdate; CCWhere] = None /\
  conflict_expected true [CCOnConflict 1; CCWhere; CCDoUpdate; CCDoUpdate] = None /\
  conflict_expected true [CCOnConflict 2; CCDoNothing] = None /\
  (forall dml foreign, returning_expected dml foreign true = Some XQuery) /\
  returning_expected false false false = Some XQuery /\ returning_expected true true false = Some XQuery /\ returning_expected true false false = None /\
  (forall r, oneshot_expected r 1 = None) /\ oneshot_expected false 2 = Some XAttr /\ oneshot_expected true 2 = Some XRollup.
Proof.
  repeat split; try reflexivity; try (intros; destruct dml, foreign; reflexivity).
  - unfold setop_expected. intros H n Hn. destruct (forallb _ ops) eqn:E; [|discriminate]. rewrite forallb_forall in E. specialize (E n Hn).
    apply Nat.eqb_eq in E. congruence.
  - intro H. unfold setop_expected. replace (forallb (Nat.eqb b) ops) with true; [reflexivity|]. symmetry. apply forallb_forall. intros n Hn.
    apply Nat.eqb_eq. symmetry. apply H, Hn.
Qed.
Print Assumptions C14_guard_tables.

Example C14_nonvacuous :
  let t := STable (MkTbl (L "t") None None None) in let u := STable (MkTbl (L "u") None None None) in let v := STable (MkTbl (L "v") None None None) in
  join_expected [t] [] u [] [] [t; u] = None /\ join_expected [t] [] u [] [] [v; t] = Some XJoin /\ join_expected [t] [] u [] [] [t; v] = Some XJoin /\
  join_expected [STable (MkTbl (L "t") None None (Some (L "temporal")))] [] u [] [] [t; u] = None /\
  join_expected [t] [] u [] [SCte (L "c")] [SCte (L "c"); u] = None.
Proof. vm_compute. repeat split. Qed.

(* Props/C01.v — C01: builder calls never alter the receiver or earlier-derived objects.

   Model: the object-graph semantics of Proofs/Frame.v (fresh shallow copy, copy rule, may-write
   effects).  Instance: Gen/Effects.v, regenerated from /repo on every run by tools/gen_effects.py
   (every class of the package, every method, the copy rules, the container attributes).
   The dynamic audit of the translator is the branching differential run of ./check C01. *)
From PT Require Import Base.Str Model.Effects Gen.Effects Proofs.Frame.
Open Scope N_scope.

(* every @builder method, resolved on every class that has it (own or inherited), passes the frame check *)
Theorem C01_summary_safe : all_builders_ok classes = true.
Proof. vm_compute. reflexivity. Qed.
Print Assumptions C01_summary_safe.

(* join(..) returns a Joiner around the fresh copy; on() / using() / cross() complete the call through do_join on that copy *)
Theorem C01_continuations_safe : continuations_ok classes = true.
Proof. vm_compute. reflexivity. Qed.
Print Assumptions C01_continuations_safe.

(* for an accepted method, every heap cell the call may write is fresh (the copy, a re-copied or
   freshly rebound container) or is the alias field of an argument whose alias was None *)
Theorem C01_builder_frame :
  forall (mn : list str) (c : classrec) (old : loc -> bool) (self' : loc) (argloc : str -> list str -> loc)
         (alias_is_none : loc -> bool),
  old self' = false ->
  forall (fresh_loc : loc), old fresh_loc = false ->
  forall effs rebound e,
  builder_ok_from classes mn c rebound effs = true ->
  env_ok c old rebound e ->
  Forall (permitted old alias_is_none) (all_cells classes c self' argloc alias_is_none fresh_loc e effs).
Proof. intros. eapply builder_frame; eassumption. Qed.
Print Assumptions C01_builder_frame.

(* histories: if every call of a history is an accepted builder call made on a fresh copy, no call
   writes a cell of an object that existed when it was made — so the receiver, its ancestors and all
   objects derived earlier keep every observable (SQL in any dialect, parameters, metadata), and two
   continuations of one object are independent of each other and of their order *)
Record call := MkCall { k_class : classrec; k_old : loc -> bool; k_self : loc; k_argloc : str -> list str -> loc;
                        k_alias_none : loc -> bool; k_fresh : loc; k_env : str -> loc; k_effs : list effect }.
Definition call_ok (mn : list str) (k : call) : Prop :=
  k_old k (k_self k) = false /\ k_old k (k_fresh k) = false /\
  builder_ok_from classes mn (k_class k) [] (k_effs k) = true /\ env_ok (k_class k) (k_old k) [] (k_env k).
Definition call_writes_only_permitted (k : call) : Prop :=
  Forall (permitted (k_old k) (k_alias_none k))
         (all_cells classes (k_class k) (k_self k) (k_argloc k) (k_alias_none k) (k_fresh k) (k_env k) (k_effs k)).

Theorem C01_history_frame : forall mn (hist : list call), Forall (call_ok mn) hist -> Forall call_writes_only_permitted hist.
Proof.
  intros mn hist H. eapply Forall_impl; [|exact H]. intros k (H1 & H2 & H3 & H4).
  unfold call_writes_only_permitted. eapply builder_frame; eassumption.
Qed.
Print Assumptions C01_history_frame.

(* non-vacuity: the instance is not empty, and an accepted method with real effects exists *)
Example C01_nonvacuous :
  (500 <= n_builder_instances classes)%nat /\
  match find_class classes (L "QueryBuilder") with
  | Some c => match resolve classes c (L "from_") with
              | Some m => m_builder m = true /\ length (m_effects m) = 3%nat /\ builder_ok classes (mut_names classes) c m = true
              | None => False end
  | None => False end.
Proof. vm_compute. repeat split; try reflexivity. repeat constructor. Qed.

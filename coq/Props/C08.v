(* Props/C08.v — C08: one dialect's conventions govern the whole statement tree.

   Judged on implementation outputs by ./check C08: (A) relational - a statement of class D whose nested parts are built with the generic
   classes renders exactly as the one whose nested parts are built with D; (B) Ref.Dialect.cross_ok in Coq - the token streams of one neutral
   program under two classes are equal after normalising quote character, placeholder style and set-operand wrapping.

   Proved here on the model: every context modifier the renderers use preserves the dialect conventions of the context (so a nested part can
   only ever see the conventions of the statement it is rendered in); for all six classes D and ALL names / values, a SELECT built with the
   generic class nested in a D statement (as FROM source, IN operand, set operand) renders exactly as the same SELECT built with D; and the
   rendering of a neutral statement is ONE text function of the class's quote character. *)
From PT Require Import Base.Str Model.Types Model.Value Model.Interval Model.Syntax Gen.Ctx Gen.Enums Gen.Prec Gen.Placeholders Model.Render
     Ref.Lexer Ref.Dialect Proofs.QueryEq Proofs.ClauseOrder Proofs.ClassFree.
Open Scope N_scope.

(* the conventions a context carries *)
Definition conv (c : ctx) := (dialect c, quote_char c, secondary_quote_char c, alias_quote_char c).

Theorem C08_modifiers_preserve_conventions : forall b c,
  conv (set_subquery b c) = conv c /\ conv (set_with_alias b c) = conv c /\ conv (set_with_namespace b c) = conv c /\
  conv (set_subcriterion b c) = conv c /\ conv (set_groupby_alias b c) = conv c /\ conv (set_as_keyword b c) = conv c.
Proof. intros b c. destruct c. repeat split. Qed.

(* ---- (A) a generic inner statement follows the statement it is nested in ---- *)
Definition tb (n : str) : tref := MkTRef true n [] None 0.
Definition col (n : str) (r : tref) : term := TField n (Some r) None.
Definition fl0 (cls : bcls) (al : option str) : qflags :=
  MkFl al false false false false false false false false false false false false (wrap_set_ops_of cls) [] [] None (wrapper_of cls).
(* SELECT c1 "x", <v> FROM t WHERE c2 = <w> GROUP BY c1 "x" ORDER BY c3 *)
Definition inner (cls : bcls) (al : option str) (tn c1 c2 c3 x : str) (v w : value) (iv iw : str) : query :=
  let t := tb tn in
  MkQ cls (fl0 cls al) (TCons (TTable t NoT NoT) TNil) WNil (TCons (TField c1 (Some t) (Some x)) (TCons (TVal (wrapper_of cls) v iv None true) TNil)) TNil TNil TNil RNil
      (SomeT (TBasic (CEq Eq) (col c2 t) (TVal WPlain w iw None true) None)) NoT NoT
      (GCons (TField c1 (Some t) (Some x)) (SomeT (TField c1 (Some t) (Some x))) GNil) (OCons (col c3 t) None ONil) JNil NoT NoT UNil NoT NoT TNil CUNil NoT NoT TNil TNil.
Definition outer_from (cls : bcls) (i : query) : term :=
  TQuery (MkQ cls (fl0 cls None) (TCons (TQuery i) TNil) WNil (TCons (TStar None None) TNil) TNil TNil TNil RNil NoT NoT NoT GNil ONil JNil NoT NoT UNil NoT NoT TNil CUNil NoT NoT TNil TNil).
Definition outer_in (cls : bcls) (i : query) : term :=
  let o := tb (L "o") in
  TQuery (MkQ cls (fl0 cls None) (TCons (TTable o NoT NoT) TNil) WNil (TCons (col (L "a") o) TNil) TNil TNil TNil RNil
     (SomeT (TContains (col (L "a") o) (TQuery i) false None)) NoT NoT GNil ONil JNil NoT NoT UNil NoT NoT TNil CUNil NoT NoT TNil TNil).
Definition outer_setop (cls : bcls) (i : query) : term :=
  let o := tb (L "o") in
  TSetOp (MkQ cls (fl0 cls None) (TCons (TTable o NoT NoT) TNil) WNil (TCons (col (L "a") o) (TCons (col (L "b") o) TNil)) TNil TNil TNil RNil
            NoT NoT NoT GNil ONil JNil NoT NoT UNil NoT NoT TNil CUNil NoT NoT TNil TNil)
         (SCons Union (TQuery i) SNil) ONil NoT NoT None.

Ltac norm := lazy -[dbl app value_sql should_parameterize]; cbn [app]; repeat (progress (rewrite <- ?app_assoc; cbn [app])); rewrite ?app_nil_r.

(* the wrapper class a builder installs differs between the generic and the SQLite / MySQL classes (SELECT true vs SELECT 1: known finding
   C08-wrapper-by-builder-class); for a value both wrappers print alike the inner statements coincide *)
Definition wrapper_agnostic (v : value) : Prop := forall w my q, value_sql w my q v = value_sql WPlain my q v.

Theorem C08_generic_inner_follows_outer : forall D tn c1 c2 c3 x v w iv iw,
  wrapper_agnostic v ->
  let gi := inner BGeneric (Some (L "sq")) tn c1 c2 c3 x v w iv iw in
  let di := inner D (Some (L "sq")) tn c1 c2 c3 x v w iv iw in
  render (ctx_of D) None (outer_from D gi) = render (ctx_of D) None (outer_from D di) /\
  render (ctx_of D) None (outer_in D gi) = render (ctx_of D) None (outer_in D di) /\
  render (ctx_of D) None (outer_setop D gi) = render (ctx_of D) None (outer_setop D di).
Proof.
  intros D tn c1 c2 c3 x v w iv iw Hv gi di. subst gi di.
  destruct D; (split; [|split]; lazy -[dbl app value_sql]; rewrite ?(Hv WMySQL), ?(Hv WSQLite); reflexivity).
Qed.
Print Assumptions C08_generic_inner_follows_outer.

(* ---- (B) a neutral statement is one text function of the quote character ---- *)
Definition neutral (cls : bcls) (tn un c1 c2 c3 c4 : str) : query :=
  let t := tb tn in let u := tb un in
  MkQ cls (fl0 cls None) (TCons (TTable t NoT NoT) TNil) WNil (TCons (col c1 t) (TCons (col c2 u) TNil)) TNil TNil TNil RNil
      (SomeT (TBasic (CEq Gt) (col c3 t) (TVal WPlain (VInt 5) (L "int:5") None true) None)) NoT NoT GNil (OCons (col c4 u) (Some Desc) ONil)
      (JCons (JOn (TTable u NoT NoT) JLeft (TBasic (CEq Eq) (col c1 t) (col c2 u) None) None) JNil) NoT NoT UNil NoT NoT TNil CUNil NoT NoT TNil TNil.
Definition neutral_text (q : str) (tn un c1 c2 c3 c4 : str) : str :=
  let i n := fquote q n in let f tnm n := i tnm ++ [46] ++ i n in
  L "SELECT " ++ f tn c1 ++ L "," ++ f un c2 ++ L " FROM " ++ i tn ++ L " LEFT JOIN " ++ i un ++ L " ON " ++ f tn c1 ++ L "=" ++ f un c2 ++
  L " WHERE " ++ f tn c3 ++ L ">5 ORDER BY " ++ f un c4 ++ L " DESC".
Theorem C08_neutral_is_a_function_of_the_quote : forall cls tn un c1 c2 c3 c4,
  render (ctx_of cls) None (TQuery (neutral cls tn un c1 c2 c3 c4)) = Ok (neutral_text (quote_char (ctx_of cls)) tn un c1 c2 c3 c4, None).
Proof. intros. destruct cls; norm; reflexivity. Qed.
Print Assumptions C08_neutral_is_a_function_of_the_quote.

(* which builder class built a SELECT does not matter to its text - for EVERY statement of the model that uses none of the class-specific
   features (row limit, TOP, MySQL modifiers, DISTINCT ON, upsert, RETURNING; class_free), every context and parameterizer state: the quote
   characters, placeholder style, literal forms, set-operand wrapping and GROUP BY alias policy all come from the CONTEXT it is rendered in.
   (SQL Server / Oracle builders switch the GROUP BY alias policy off themselves: for them the statement holds where it already is off, as it
   is everywhere inside a statement of those classes.)  Applied at every nesting level, this is "parts built with the generic classes follow
   the dialect of the statement they are nested in". *)
Theorem C08_builder_class_irrelevant : forall (D D' : bcls) (q : query) (c : ctx) (p : pz),
  class_free q = true ->
  (adjusts D || adjusts D' = true -> groupby_alias c = false) ->
  render_query c p (with_cls D q) = render_query c p (with_cls D' q).
Proof. exact builder_class_irrelevant. Qed.
Print Assumptions C08_builder_class_irrelevant.

Example C08_class_free_nonvacuous :
  let t := MkTRef true (L "t") [] None 0 in
  let q := MkQ BGeneric (MkFl None false false true false false false false false false false false false true [] [] None WPlain)
             (TCons (TTable t NoT NoT) TNil) WNil (TCons (TField (L "a") (Some t) (Some (L "x"))) TNil) TNil TNil TNil RNil
             (SomeT (TBasic (CEq Eq) (TField (L "b") (Some t) None) (TVal WPlain (VStr (L "v")) (L "v1") None true) None))
             NoT NoT (GCons (TField (L "a") (Some t) (Some (L "x"))) (SomeT (TField (L "a") (Some t) (Some (L "x")))) GNil) ONil JNil NoT NoT UNil NoT NoT TNil CUNil NoT NoT TNil TNil in
  class_free q = true /\
  render_query (ctx_of BMySQL) None (with_cls BPostgreSQL q) = Ok (L "SELECT DISTINCT `a` `x` FROM `t` WHERE `b`='v' GROUP BY `x`", None).
Proof. vm_compute. split; reflexivity. Qed.

Example C08_cross_nonvacuous :
  cross_ok MYSQL (L "SELECT `t`.`a` FROM `t` WHERE `t`.`b`=%s UNION SELECT `u`.`a` FROM `u`") POSTGRESQL
           (L "(SELECT ""t"".""a"" FROM ""t"" WHERE ""t"".""b""=$1) UNION (SELECT ""u"".""a"" FROM ""u"")") = Some true /\
  cross_ok MYSQL (L "SELECT `t`.`a` FROM `t`") SQLITE (L "SELECT ""t"".""a"" FROM ""T""") = Some false.
Proof. vm_compute. split; reflexivity. Qed.

(* Ref/TreeOf.v — SPECIFICATION side of C06: which abstract expression tree a built term IS
   (tree_of), over the sub-language of the property: fields, numbers (negative ones as unary minus
   over the magnitude), strings, booleans, NULL, unary minus, the four arithmetic operators,
   comparisons and the LIKE family, AND/OR/XOR, NOT, IS NULL, IN (list), BETWEEN, CASE, plain
   function calls, Bracket.  Operators are named by their STANDARD spelling (not by the library's
   enum values), so a changed spelling is a difference.  Mentions no rendering definition.
   Also the decidable classes of the known findings of C06. *)
From PT Require Import Base.Str Model.Types Model.Value Model.Syntax Ref.Lexer Ref.Parser.
Open Scope N_scope.

Definition arith_std (a : arith) : str := match a with Add => L "+" | Sub => L "-" | Mul => L "*" | Div => L "/" end.
Definition equality_std (e : equality) : str :=
  match e with Eq => L "=" | Ne => L "<>" | Gt => L ">" | Gte => L ">=" | Lt => L "<" | Lte => L "<=" end.
Definition matching_std (m : matching) : option str :=
  match m with
  | Like => Some (L "LIKE") | NotLike => Some (L "NOT LIKE") | ILike => Some (L "ILIKE") | NotILike => Some (L "NOT ILIKE")
  | RLike => Some (L "RLIKE") | Regex => Some (L "REGEX") | BinRegex => Some (L "REGEX BINARY") | Glob => Some (L "GLOB")
  | AsOf => None
  end.
Definition conn_std (c : conn) : str := match c with And => L "AND" | Or => L "OR" | Xor => L "XOR" end.

(* a number written as text (float, Decimal): digits with at most a decimal point; a leading minus sign is a unary minus *)
Definition is_plain_num (s : str) : bool :=
  match s with [] => false | _ => forallb (fun c => ((48 <=? c) && (c <=? 57)) || (c =? 46)) s end.
Definition num_text_leaf (s : str) : option sx :=
  match s with
  | 45 :: r => if is_plain_num r then Some (SNeg (SAtom [TNum r])) else None
  | _ => if is_plain_num s then Some (SAtom [TNum s]) else None
  end.

Fixpoint leaf_of_value (w : wcls) (v : value) : option sx :=
  match v with
  | VNumText s => num_text_leaf s
  | VEnum v' => leaf_of_value w v'
  | VInt z => Some (match z with
                    | Zneg p => SNeg (SAtom [TNum (N_to_str (Npos p))])
                    | _ => SAtom [TNum (Z_to_str z)]
                    end)
  | VStr s => Some (SAtom [TStr s])
  | VBool b => match w with
               | WSQLite => Some (SAtom [TNum (if b then L "1" else L "0")])
               | _ => Some (SAtom [TWord (if b then L "TRUE" else L "FALSE")])
               end
  | VNone => Some (SAtom [TWord (L "NULL")])
  | _ => None
  end.

Definition field_toks (name : str) (tbl : option tref) : list ltok :=
  match tbl with
  | Some r => match tr_alias r with
              | Some (x :: xs) => [TQId (x :: xs); TOp (L "."); TQId name]
              | _ => [TQId name]
              end
  | None => [TQId name]
  end.

Definition opt_map2 {A B C} (f : A -> B -> C) (a : option A) (b : option B) : option C :=
  match a, b with Some x, Some y => Some (f x y) | _, _ => None end.

Fixpoint tree_of (t : term) : option sx :=
  match t with
  | TField name tbl _ => Some (SAtom (field_toks name tbl))
  | TVal w v _ _ _ => leaf_of_value w v
  | TNeg x _ => option_map SNeg (tree_of x)
  | TArith op l r _ => opt_map2 (SBin (arith_std op)) (tree_of l) (tree_of r)
  | TBasic (CEq e) l r _ => opt_map2 (SBin (equality_std e)) (tree_of l) (tree_of r)
  | TBasic (CMatch m) l r _ =>
      match matching_std m with Some o => opt_map2 (SBin o) (tree_of l) (tree_of r) | None => None end
  | TComplex c l r _ => opt_map2 (SBin (conn_std c)) (tree_of l) (tree_of r)
  | TNot x _ => option_map SNot (tree_of x)
  | TIsNull x _ => option_map (SIsNull false) (tree_of x)
  | TContains x (TTuple vs _) neg _ =>
      match tree_of x, trees_of vs with Some e, Some es => Some (SIn neg e es) | _, _ => None end
  | TBetween x lo hi _ =>
      match tree_of x, tree_of lo, tree_of hi with Some a, Some b, Some c => Some (SBetween false a b c) | _, _, _ => None end
  | TCase cs els _ =>
      match cases_of cs, els with
      | Some ws, NoT => Some (SCase ws None)
      | Some ws, SomeT e => option_map (fun x => SCase ws (Some x)) (tree_of e)
      | None, _ => None
      end
  | TFunc name args SpNone NoT distinct NoT NoOver false None _ =>
      option_map (SCall (map upper name) distinct) (trees_of args)
  | TTuple (TCons x TNil) _ => tree_of x                      (* Bracket: a parenthesised operand *)
  | TLiteral raw _ => num_text_leaf raw                        (* LiteralValue('-1'): raw text that is a number *)
  | _ => None
  end
with trees_of (l : terms) : option (list sx) :=
  match l with
  | TNil => Some []
  | TCons t r => opt_map2 cons (tree_of t) (trees_of r)
  end
with cases_of (l : cases) : option (list (sx * sx)) :=
  match l with
  | CNil => Some []
  | CCons w t r => match tree_of w, tree_of t, cases_of r with Some a, Some b, Some c => Some ((a, b) :: c) | _, _, _ => None end
  end.

(* the statement of C06 as an executable check on ANY produced text *)
Definition grouping_ok (d : dial) (t : term) (sql : str) : option bool :=
  match tree_of t with
  | None => None                                   (* outside the sub-language *)
  | Some e =>
    match lex d sql with
    | Some ts => if has_comment ts then Some false
                 else match parse_expr ts with Some pe => Some (same_grouping pe e) | None => Some false end
    | None => Some false
    end
  end.

(* ---------- classes of the known findings (decidable, as narrow as the defect) ---------- *)
(* a criterion-kind node: its rendering is a predicate / boolean expression, not a value expression *)
Definition is_crit (t : term) : bool :=
  match t with
  | TBasic _ _ _ _ | TComplex _ _ _ _ | TNot _ _ | TIsNull _ _ | TContains _ _ _ _ | TBetween _ _ _ _ | TNested _ _ _ _ _ _
  | TAll _ _ | TPeriod _ _ _ _ => true
  | _ => false
  end.
(* the right operand of a multiplication is a division, or a product that begins (left spine, printed without parentheses) with one *)
Fixpoint is_div (t : term) : bool :=
  match t with
  | TArith Div _ _ _ => true
  | TArith Mul l _ _ => is_div l
  | _ => false
  end.

(* K1: a division as right operand of a multiplication - directly, or leading a product that is the right operand - is printed without
   parentheses (the rule: no parentheses around a product or quotient that is the right operand of a product, is pinned by the test-suite) *)
(* K2: a criterion used as an operand of arithmetic, unary minus, a comparison, IS NULL, IN or BETWEEN is not parenthesised *)
Fixpoint kf_c06 (t : term) : bool :=
  match t with
  | TNeg x _ => is_crit x || kf_c06 x
  | TArith op l r _ => (arith_eqb op Mul && is_div r) || is_crit l || is_crit r || kf_c06 l || kf_c06 r
  | TBasic _ l r _ => is_crit l || is_crit r || kf_c06 l || kf_c06 r
  | TComplex _ l r _ => kf_c06 l || kf_c06 r
  | TNot x _ => kf_c06 x
  | TIsNull x _ => is_crit x || kf_c06 x
  | TContains x c _ _ => is_crit x || kf_c06 x || kf_c06 c
  | TBetween x lo hi _ => is_crit x || is_crit lo || is_crit hi || kf_c06 x || kf_c06 lo || kf_c06 hi
  | TCase cs els _ => kf_cases cs || (match els with SomeT e => kf_c06 e | NoT => false end)
  | TFunc _ args _ _ _ _ _ _ _ _ => kf_terms args
  | TTuple vs _ => kf_terms vs
  | _ => false
  end
with kf_terms (l : terms) : bool := match l with TNil => false | TCons t r => kf_c06 t || kf_terms r end
with kf_cases (l : cases) : bool := match l with CNil => false | CCons w t r => kf_c06 w || kf_c06 t || kf_cases r end.

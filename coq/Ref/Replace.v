(* Ref/Replace.v — SPECIFICATION side of C16: what "replace every reference to table `old` by table `new`, and nothing else" IS on the
   object language: one structural map over every sort that exchanges the table of a column reference / star and a table standing as a row
   source when it == old (the library's == on tables: name, schema chain, alias), and leaves everything else as it is.  Mentions no rendering
   definition and none of the 29 replace_table methods of the library: each of them must agree with this one function (./check C16).
   Not descended into, as in the library: the query behind an AliasedQuery reference, the FOR / FOR PORTION OF criteria of a table that
   stays, and the DDL builders (which have no replace_table). *)
From PT Require Import Base.Str Model.Types Model.Value Model.Interval Model.Syntax.
Open Scope N_scope.

Fixpoint strs_eqb (a b : list str) : bool :=
  match a, b with [] , [] => true | x :: a', y :: b' => seqb x y && strs_eqb a' b' | _, _ => false end.
Definition ostr_eqb (a b : option str) : bool :=
  match a, b with None, None => true | Some x, Some y => seqb x y | _, _ => false end.

(* Table.__eq__ *)
Definition tref_eqb (a b : tref) : bool :=
  tr_istable a && tr_istable b && seqb (tr_name a) (tr_name b) && strs_eqb (tr_schema a) (tr_schema b) && ostr_eqb (tr_alias a) (tr_alias b).

Section R.
Variables (old new : tref).

Definition rt (r : tref) : tref := if tref_eqb r old then new else r.
Definition rot (o : option tref) : option tref := match o with Some r => Some (rt r) | None => None end.

Fixpoint rep (t : term) {struct t} : term :=
  match t with
  | TField n tb a => TField n (rot tb) a
  | TStar tb a => TStar (rot tb) a
  | TValTerm w x v a al => TValTerm w (rep x) v a al
  | TNeg x a => TNeg (rep x) a
  | TArith o l r a => TArith o (rep l) (rep r) a
  | TBasic c l r a => TBasic c (rep l) (rep r) a
  | TComplex c l r a => TComplex c (rep l) (rep r) a
  | TNested c nc l r n a => TNested c nc (rep l) (rep r) (rep n) a
  | TNot x a => TNot (rep x) a
  | TAll x a => TAll (rep x) a
  | TIsNull x a => TIsNull (rep x) a
  | TContains x c n a => TContains (rep x) (rep c) n a
  | TBetween x s e a => TBetween (rep x) (rep s) (rep e) a
  | TPeriod x s e a => TPeriod (rep x) (rep s) (rep e) a
  | TBitAnd x v a => TBitAnd (rep x) (rep v) a
  | TCase cs e a => TCase (rep_cases cs) (rep_o e) a
  | TFunc n args sp spf d f ov np sch a => TFunc n (rep_ts args) sp (rep_o spf) d (rep_o f) (rep_over ov) np sch a
  | TTuple vs a => TTuple (rep_ts vs) a
  | TArray vs v h a => TArray (rep_ts vs) v h a
  | TValues f a => TValues (rep f) a
  | TAtTZ f z i a => TAtTZ (rep f) z i a
  | TTable r f fp => if tref_eqb r old then TTable new NoT NoT else TTable r f fp
  | TQuery q => TQuery (rep_q q)
  | TSetOp b ops obs l o a => TSetOp (rep_q b) (rep_sops ops) (rep_obys obs) (rep_o l) (rep_o o) a
  | other => other
  end
with rep_o (o : oterm) {struct o} : oterm := match o with NoT => NoT | SomeT t => SomeT (rep t) end
with rep_ts (l : terms) {struct l} : terms := match l with TNil => TNil | TCons t r => TCons (rep t) (rep_ts r) end
with rep_cases (l : cases) {struct l} : cases := match l with CNil => CNil | CCons w t r => CCons (rep w) (rep t) (rep_cases r) end
with rep_obys (l : obys) {struct l} : obys := match l with ONil => ONil | OCons t o r => OCons (rep t) o (rep_obys r) end
with rep_gbys (l : gbys) {struct l} : gbys := match l with GNil => GNil | GCons t h r => GCons (rep t) (rep_o h) (rep_gbys r) end
with rep_over (o : oover) {struct o} : oover := match o with NoOver => NoOver | Over ps obs f => Over (rep_ts ps) (rep_obys obs) f end
with rep_rows (l : rows) {struct l} : rows := match l with RNil => RNil | RCons r rs => RCons (rep_ts r) (rep_rows rs) end
with rep_upds (l : upds) {struct l} : upds := match l with UNil => UNil | UCons f v r => UCons (rep f) (rep v) (rep_upds r) end
with rep_cupds (l : cupds) {struct l} : cupds := match l with CUNil => CUNil | CUCons f v r => CUCons (rep f) (rep_o v) (rep_cupds r) end
with rep_joinc (j : joinc) {struct j} : joinc :=
  match j with
  | JPlain i h => JPlain (rep i) h
  | JOn i h c co => JOn (rep i) h (rep c) co
  | JUsing i h fs => JUsing (rep i) h (rep_ts fs)
  end
with rep_joins (l : joins) {struct l} : joins := match l with JNil => JNil | JCons j r => JCons (rep_joinc j) (rep_joins r) end
with rep_sops (l : sops) {struct l} : sops := match l with SNil => SNil | SCons op q r => SCons op (rep q) (rep_sops r) end
with rep_ctes (l : ctes) {struct l} : ctes := match l with WNil => WNil | WCons n q ts r => WCons n (rep q) (rep_ts ts) (rep_ctes r) end
with rep_q (q : query) {struct q} : query :=
  match q with
  | MkQ cls fl from withs selects fi ui columns values wheres prewheres havings groupbys orderbys joins_ lim off updates it ut cf cu cw cuw returns don =>
      MkQ cls fl (rep_ts from) (rep_ctes withs) (rep_ts selects) fi ui (rep_ts columns) (rep_rows values) (rep_o wheres) (rep_o prewheres) (rep_o havings)
          (rep_gbys groupbys) (rep_obys orderbys) (rep_joins joins_) lim off (rep_upds updates) (rep_o it) (rep_o ut)
          (rep_ts cf) (rep_cupds cu) (rep_o cw) (rep_o cuw) (rep_ts returns) (rep_ts don)
  end.

(* does a replaceable reference to `old` occur *)
Definition occ_t (r : tref) : bool := tref_eqb r old.
Definition occ_ot (o : option tref) : bool := match o with Some r => occ_t r | None => false end.

Fixpoint occ (t : term) {struct t} : bool :=
  match t with
  | TField _ tb _ => occ_ot tb
  | TStar tb _ => occ_ot tb
  | TValTerm _ x _ _ _ => occ x
  | TNeg x _ => occ x
  | TArith _ l r _ => occ l || occ r
  | TBasic _ l r _ => occ l || occ r
  | TComplex _ l r _ => occ l || occ r
  | TNested _ _ l r n _ => occ l || occ r || occ n
  | TNot x _ => occ x
  | TAll x _ => occ x
  | TIsNull x _ => occ x
  | TContains x c _ _ => occ x || occ c
  | TBetween x s e _ => occ x || occ s || occ e
  | TPeriod x s e _ => occ x || occ s || occ e
  | TBitAnd x v _ => occ x || occ v
  | TCase cs e _ => occ_cases cs || occ_o e
  | TFunc _ args _ spf _ f ov _ _ _ => occ_ts args || occ_o spf || occ_o f || occ_over ov
  | TTuple vs _ => occ_ts vs
  | TArray vs _ _ _ => occ_ts vs
  | TValues f _ => occ f
  | TAtTZ f _ _ _ => occ f
  | TTable r _ _ => occ_t r
  | TQuery q => occ_q q
  | TSetOp b ops obs l o _ => occ_q b || occ_sops ops || occ_obys obs || occ_o l || occ_o o
  | _ => false
  end
with occ_o (o : oterm) {struct o} : bool := match o with NoT => false | SomeT t => occ t end
with occ_ts (l : terms) {struct l} : bool := match l with TNil => false | TCons t r => occ t || occ_ts r end
with occ_cases (l : cases) {struct l} : bool := match l with CNil => false | CCons w t r => occ w || occ t || occ_cases r end
with occ_obys (l : obys) {struct l} : bool := match l with ONil => false | OCons t _ r => occ t || occ_obys r end
with occ_gbys (l : gbys) {struct l} : bool := match l with GNil => false | GCons t h r => occ t || occ_o h || occ_gbys r end
with occ_over (o : oover) {struct o} : bool := match o with NoOver => false | Over ps obs _ => occ_ts ps || occ_obys obs end
with occ_rows (l : rows) {struct l} : bool := match l with RNil => false | RCons r rs => occ_ts r || occ_rows rs end
with occ_upds (l : upds) {struct l} : bool := match l with UNil => false | UCons f v r => occ f || occ v || occ_upds r end
with occ_cupds (l : cupds) {struct l} : bool := match l with CUNil => false | CUCons f v r => occ f || occ_o v || occ_cupds r end
with occ_joinc (j : joinc) {struct j} : bool :=
  match j with
  | JPlain i _ => occ i
  | JOn i _ c _ => occ i || occ c
  | JUsing i _ fs => occ i || occ_ts fs
  end
with occ_joins (l : joins) {struct l} : bool := match l with JNil => false | JCons j r => occ_joinc j || occ_joins r end
with occ_sops (l : sops) {struct l} : bool := match l with SNil => false | SCons _ q r => occ q || occ_sops r end
with occ_ctes (l : ctes) {struct l} : bool := match l with WNil => false | WCons _ q ts r => occ q || occ_ts ts || occ_ctes r end
with occ_q (q : query) {struct q} : bool :=
  match q with
  | MkQ _ _ from withs selects _ _ columns values wheres prewheres havings groupbys orderbys joins_ _ _ updates it ut cf cu cw cuw returns don =>
      occ_ts from || occ_ctes withs || occ_ts selects || occ_ts columns || occ_rows values || occ_o wheres || occ_o prewheres || occ_o havings ||
      occ_gbys groupbys || occ_obys orderbys || occ_joins joins_ || occ_upds updates || occ_o it || occ_o ut ||
      occ_ts cf || occ_cupds cu || occ_o cw || occ_o cuw || occ_ts returns || occ_ts don
  end.

End R.

(* Ref/Align.v — SPECIFICATION side of C05 and C07 (and reused by C08): the twin-rendering statement.

   A program is built twice through the public API: once (B) with every user-supplied name / inlined
   value replaced by a distinct, lexically harmless MARKER, once (A) with the actual names / values.
   The property says that the actual text reads, token for token, as the marker text with every marker
   token replaced by exactly one token denoting the actual name (C07), respectively by the one literal
   token (an optional sign or a pair of parentheses around a negative number is tolerated) that decodes
   to the actual value (C05).  So: a name or value can neither end its token early, nor be read as SQL,
   nor change the structure of the statement, and what is written where a name is defined is what is
   written where it is referenced.  Mentions no model definition. *)
From PT Require Import Base.Str Model.Types Model.Value Ref.Lexer.
Open Scope N_scope.

Inductive mark :=
  | MName (orig : str)           (* a user-supplied identifier *)
  | MVal (v : value).            (* an inlined Python value *)

Definition mmap := list (str * mark).

Fixpoint lookup (k : str) (m : mmap) : option mark :=
  match m with
  | [] => None
  | (k', v) :: r => if seqb k k' then Some v else lookup k r
  end.

Definition is_num_lit (ts : list ltok) : bool :=
  match ts with
  | [TNum _] => true
  | [TOp o; TNum _] => seqb o (L "-")
  | _ => false
  end.

Definition lower_c (c : char) : char := if (65 <=? c) && (c <=? 90) then c + 32 else c.
Definition lower (s : str) : str := map lower_c s.

(* the token sequences that denote value v as ONE literal: alternatives *)
Fixpoint lit_alts (cfg : lexcfg) (v : value) : option (list (list ltok)) :=
  match v with
  | VStr s | VIso s | VUuid s | VDumped s => Some [[TStr s]]
  | VTime s s' => Some [[TStr s]; [TStr s']]
  | VInt z =>
      match z with
      | Zneg p => let n := TNum (N_to_str (Npos p)) in
                  Some [[TOp (L "-"); n]; [TOp (L "("); TOp (L "-"); n; TOp (L ")")]]
      | _ => Some [[TNum (Z_to_str z)]]
      end
  | VBool b => Some [[TWord (if b then L "true" else L "false")]; [TNum (if b then L "1" else L "0")]]
  | VNone => Some [[TWord (L "null")]; [TWord (L "NULL")]]
  | VNumText s =>
      match lexc cfg s with
      | Some ts => if is_num_lit ts then Some [ts; [TOp (L "(")] ++ ts ++ [TOp (L ")")]] else Some []
      | None => Some []
      end
  | VEnum v' => lit_alts cfg v'
  | VDatePart _ | VOther _ => None
  end.

Fixpoint strip_prefix (p ts : list ltok) : option (list ltok) :=
  match p, ts with
  | [], _ => Some ts
  | a :: p', b :: ts' => if ltok_eqb a b then strip_prefix p' ts' else None
  | _ :: _, [] => None
  end.

(* B: tokens of the marker text, A: tokens of the actual text *)
Fixpoint align (cfg : lexcfg) (m : mmap) (B A : list ltok) {struct B} : bool :=
  let generic b B' := match A with a :: A' => ltok_eqb a b && align cfg m B' A' | [] => false end in
  match B with
  | [] => match A with [] => true | _ => false end
  | b :: B' =>
    match b with
    | TQId n =>
        match lookup n m with
        | Some (MName o) | Some (MVal (VStr o)) =>      (* a str handed to select() etc. is a column name *)
            match A with TQId o' :: A' => seqb o o' && align cfg m B' A' | _ => false end
        | Some (MVal _) => false
        | None => generic b B'
        end
    | TStr n | TNum n =>
        match lookup n m with
        | Some (MVal v) =>
            match lit_alts cfg v with
            | Some alts => existsb (fun alt => match strip_prefix alt A with Some A' => align cfg m B' A' | None => false end) alts
            | None => false
            end
        | Some (MName _) => false           (* a name written as a string literal / number *)
        | None => generic b B'
        end
    | TWord n =>
        match lookup n m with
        | Some _ => false                   (* a user-supplied name or value written bare *)
        | None => generic b B'
        end
    | _ => generic b B'
    end
  end.

(* does the marker text mention marker k at all (coverage of the site) *)
Definition mentions (B : list ltok) (k : str) : bool :=
  existsb (fun t => match t with TQId n | TStr n | TNum n | TWord n => seqb n k | _ => false end) B.

(* the statement: Some true / Some false; None when the marker text itself is outside the reference lexer *)
Definition twin_ok (d : dial) (m : mmap) (sqlB sqlA : str) : option bool :=
  let cfg := lexcfg_of d in
  match lexc cfg sqlB with
  | None => None
  | Some B =>
    if has_comment B then None
    else match lexc cfg sqlA with
         | None => Some false
         | Some A => Some (negb (has_comment A) && align cfg m B A)
         end
  end.

(* Ref/RowLimit.v — SPECIFICATION side of C09: each dialect's row-limiting clause.

   ref_pagination : the reference PRINTER — the grammatical clause text for (limit, offset, has ORDER BY);
   row_limit      : the reference RECOGNISER — reads the clause back from tokens as (take, skip) slots;
   c09_ok         : the statement judged on any produced text: the tail of the targeted statement is the dialect's
                    row-limiting clause, it means "skip offset rows, then return at most limit rows", and in
                    parameterised mode the placeholder in each slot is bound to the matching value.
   Sources: SQLite "LIMIT expr [OFFSET expr]" (a negative LIMIT = no bound); MySQL "LIMIT row_count OFFSET offset"
   (manual: to retrieve all rows from an offset use a large second number, 18446744073709551615); PostgreSQL
   "[LIMIT n] [OFFSET m]"; T-SQL "ORDER BY ... OFFSET m ROWS [FETCH NEXT n ROWS ONLY]" (OFFSET needs ORDER BY, FETCH needs
   OFFSET); Oracle 12c row_limiting_clause "[OFFSET m ROWS] [FETCH NEXT n ROWS ONLY]".  Mentions no rendering definition. *)
From PT Require Import Base.Str Model.Types Model.Value Model.Interval Model.Syntax Ref.Lexer.
Open Scope N_scope.

Inductive lstyle :=
  | LSLimit (offset_alone : bool) (nobound : option str)   (* LIMIT n [OFFSET m]; OFFSET alone allowed?; spelling of "no bound" *)
  | LSMssql | LSOracle.

Definition style_of (b : bcls) : lstyle :=
  match b with
  | BGeneric | BPostgreSQL => LSLimit true None
  | BSQLite => LSLimit false (Some (L "-1"))
  | BMySQL => LSLimit false (Some (L "18446744073709551615"))
  | BMSSQL => LSMssql
  | BOracle => LSOracle
  end.

(* ---- reference printer ---- *)
Definition ref_pagination (b : bcls) (lim off : option str) (has_order : bool) : str :=
  match style_of b with
  | LSLimit alone nb =>
      match lim, off with
      | None, None => []
      | Some l, None => L " LIMIT " ++ l
      | Some l, Some o => L " LIMIT " ++ l ++ L " OFFSET " ++ o
      | None, Some o => match nb with Some x => L " LIMIT " ++ x ++ L " OFFSET " ++ o | None => L " OFFSET " ++ o end
      end
  | LSMssql =>
      match lim, off with
      | None, None => []
      | _, _ => (if has_order then [] else L " ORDER BY (SELECT 0)") ++ L " OFFSET " ++ (match off with Some o => o | None => L "0" end) ++ L " ROWS" ++
                (match lim with Some l => L " FETCH NEXT " ++ l ++ L " ROWS ONLY" | None => [] end)
      end
  | LSOracle =>
      (match off with Some o => L " OFFSET " ++ o ++ L " ROWS" | None => [] end) ++
      (match lim with Some l => L " FETCH NEXT " ++ l ++ L " ROWS ONLY" | None => [] end)
  end.

(* ---- reference recogniser ---- *)
Inductive slotv := SNum (text : str) | SPh (text : str) (ordinal : N).

(* placeholders get their 1-based ordinal in text order *)
Fixpoint number_phs (k : N) (ts : list ltok) : list (ltok * N) :=
  match ts with
  | [] => []
  | TPh s :: r => (TPh s, k) :: number_phs (k + 1) r
  | t :: r => (t, 0) :: number_phs k r
  end.

Definition ntok := (ltok * N)%type.
Definition is_kw (w : string) (t : ntok) : bool := match fst t with TWord s => seqb (map (fun c => if (97 <=? c) && (c <=? 122) then c - 32 else c) s) (L w) | _ => false end.
Definition is_op (o : string) (t : ntok) : bool := match fst t with TOp s => seqb s (L o) | _ => false end.
Definition slot_of (t : ntok) : option slotv :=
  match fst t with TNum s => Some (SNum s) | TPh s => Some (SPh s (snd t)) | _ => None end.

(* (take, skip): None = unbounded / zero *)
Definition row_limit (b : bcls) (has_order : bool) (ts : list ntok) : option (option slotv * option slotv) :=
  match style_of b with
  | LSLimit alone nb =>
      match ts with
      | [] => Some (None, None)
      | [kl; x] => if is_kw "LIMIT" kl then match slot_of x with Some s => Some (Some s, None) | None => None end
                   else if is_kw "OFFSET" kl && alone then match slot_of x with Some s => Some (None, Some s) | None => None end
                   else None
      | [kl; x; ko; y] =>
          if is_kw "LIMIT" kl && is_kw "OFFSET" ko then
            match slot_of x, slot_of y with
            | Some sx, Some sy =>
                (* MySQL's spelling of "no bound" *)
                match nb, sx with
                | Some big, SNum tx => if seqb tx big then Some (None, Some sy) else Some (Some sx, Some sy)
                | _, _ => Some (Some sx, Some sy)
                end
            | _, _ => None
            end
          else None
      | [kl; m; one; ko; y] =>                      (* SQLite: LIMIT -1 OFFSET m *)
          match nb with
          | Some nbt =>
              if is_kw "LIMIT" kl && is_op "-" m && is_kw "OFFSET" ko &&
                 (match fst one with TNum t1 => seqb (45 :: t1) nbt | _ => false end)
              then match slot_of y with Some sy => Some (None, Some sy) | None => None end else None
          | None => None
          end
      | _ => None
      end
  | LSMssql =>
      match ts with
      | [] => Some (None, None)
      | [ko; y; kr] =>
          if is_kw "OFFSET" ko && is_kw "ROWS" kr && has_order then match slot_of y with Some sy => Some (None, Some sy) | None => None end else None
      | [ko; y; kr; kf; kn; x; kr2; kon] =>
          if is_kw "OFFSET" ko && is_kw "ROWS" kr && is_kw "FETCH" kf && is_kw "NEXT" kn && is_kw "ROWS" kr2 && is_kw "ONLY" kon && has_order
          then match slot_of x, slot_of y with Some sx, Some sy => Some (Some sx, Some sy) | _, _ => None end else None
      | _ => None
      end
  | LSOracle =>
      match ts with
      | [] => Some (None, None)
      | [ko; y; kr] =>
          if is_kw "OFFSET" ko && is_kw "ROWS" kr then match slot_of y with Some sy => Some (None, Some sy) | None => None end else None
      | [kf; kn; x; kr2; kon] =>
          if is_kw "FETCH" kf && is_kw "NEXT" kn && is_kw "ROWS" kr2 && is_kw "ONLY" kon
          then match slot_of x with Some sx => Some (Some sx, None) | None => None end else None
      | [ko; y; kr; kf; kn; x; kr2; kon] =>
          if is_kw "OFFSET" ko && is_kw "ROWS" kr && is_kw "FETCH" kf && is_kw "NEXT" kn && is_kw "ROWS" kr2 && is_kw "ONLY" kon
          then match slot_of x, slot_of y with Some sx, Some sy => Some (Some sx, Some sy) | _, _ => None end else None
      | _ => None
      end
  end.

(* ---- locating the row-limiting part of a statement ---- *)
Definition depth_after (d : nat) (t : ntok) : nat :=
  if is_op "(" t then S d else if is_op ")" t then Nat.pred d else d.

(* tokens strictly inside the first depth-0 parenthesis group that follows keyword kw at depth 0 *)
Fixpoint group_after_aux (kw : string) (ts : list ntok) (d : nat) (seen : bool) (acc : list ntok) (inside : bool) : option (list ntok) :=
  match ts with
  | [] => None
  | t :: r =>
      if inside then
        if is_op ")" t && Nat.eqb d 1 then Some (rev acc)
        else group_after_aux kw r (depth_after d t) seen (t :: acc) true
      else if seen && is_op "(" t && Nat.eqb d 0 then group_after_aux kw r 1 seen [] true
      else group_after_aux kw r (depth_after d t) (seen || (Nat.eqb d 0 && is_kw kw t)) acc false
  end.
Definition group_after (kw : string) (ts : list ntok) : option (list ntok) := group_after_aux kw ts 0 false [] false.

Definition anchor (t : ntok) : bool :=
  is_kw "FROM" t || is_kw "UNION" t || is_kw "INTERSECT" t || is_kw "EXCEPT" t || is_kw "MINUS" t || is_kw "WHERE" t || is_kw "HAVING" t ||
  is_kw "ALL" t || is_kw "SET" t.
Definition pag_kw (t : ntok) : bool := is_kw "LIMIT" t || is_kw "OFFSET" t || is_kw "FETCH" t.

(* depth-0 suffix after the last anchor *)
Fixpoint after_last_anchor (ts : list ntok) (d : nat) (cur : list ntok) : list ntok :=
  match ts with
  | [] => cur
  | t :: r => if Nat.eqb d 0 && anchor t then after_last_anchor r (depth_after d t) r
              else after_last_anchor r (depth_after d t) cur
  end.

(* split "[ORDER BY ...] pagination" at depth 0: (has ORDER BY, pagination tokens) *)
Fixpoint split_tail (ts : list ntok) (d : nat) (has_order : bool) : bool * list ntok :=
  match ts with
  | [] => (has_order, [])
  | t :: r =>
      if Nat.eqb d 0 && pag_kw t then (has_order, t :: r)
      else split_tail r (depth_after d t) (has_order || (Nat.eqb d 0 && is_kw "ORDER" t))
  end.

Definition tail_of (ts : list ntok) : bool * list ntok := split_tail (after_last_anchor ts 0 ts) 0 false.

(* ---- expectation from the built object ---- *)
Definition int_of (o : oterm) : option (option (Z * str)) :=      (* Some None: clause absent; Some (Some (z, vid)) : an integer constant *)
  match o with
  | NoT => Some None
  | SomeT (TVal _ (VInt z) vid _ _) => Some (Some (z, vid))
  | _ => None
  end.

Fixpoint nth_str (n : nat) (l : list str) : option str :=
  match l, n with
  | x :: _, O => Some x
  | _ :: r, S k => nth_str k r
  | [], _ => None
  end.

Definition ph_index (text : str) (ordinal : N) : N :=
  match text with
  | 36 :: digits => match read_dec digits with Some n => n | None => 0 end     (* numbered style: the number is the index *)
  | _ => ordinal
  end.

(* does the slot denote value z (inline: the decimal numeral; parameterised: a placeholder bound to the value's identity) *)
Definition slot_is (param : bool) (vals : list str) (s : option slotv) (e : option (Z * str)) (absent_is_zero : bool) : bool :=
  match s, e with
  | None, None => true
  | None, Some (z, _) => false
  | Some (SNum t), None => absent_is_zero && seqb t (L "0")
  | Some (SNum t), Some (z, _) => negb param && seqb t (Z_to_str z)
  | Some (SPh t k), Some (z, vid) => param && match nth_str (N.to_nat (ph_index t k - 1)) vals with Some v => seqb v vid | None => false end
  | Some (SPh _ _), None => false
  end.

Definition has_obys (o : obys) : bool := match o with ONil => false | _ => true end.

(* which statement of the built object is judged, and where its tokens are *)
Inductive target := TgTop | TgFromSub | TgInSub.

Definition query_parts (q : query) : bcls * obys * oterm * oterm * terms * option Z :=
  match q with
  | MkQ cls (MkFl _ _ _ _ _ _ _ _ _ _ _ _ _ _ _ _ top _) from _ _ _ _ _ _ _ _ _ _ orderbys _ lim off _ _ _ _ _ _ _ _ _ => (cls, orderbys, lim, off, from, top)
  end.

Definition judge_tail (b : bcls) (user_order : bool) (lim off : oterm) (param : bool) (vals : list str) (ts : list ntok) : option bool :=
  match int_of lim, int_of off with
  | Some el, Some eo =>
      let '(has_order, pag) := tail_of ts in
      match row_limit b has_order pag with
      | None => Some false
      | Some (take, skip) =>
          Some (slot_is param vals take el false && slot_is param vals skip eo true &&
                (* the ORDER BY seen is the user's, or the neutral one supplied for T-SQL *)
                (Bool.eqb has_order user_order || (match b with BMSSQL => negb user_order && has_order | _ => false end)))
      end
  | _, _ => None
  end.

Definition c09_ok (d : dial) (t : term) (sql : str) (param : bool) (vals : list str) : option bool :=
  match lex d sql with
  | None => Some false
  | Some toks =>
    let ts := number_phs 1 toks in
    match t with
    | TQuery q =>
        let '(cls, obs, lim, off, from, top) := query_parts q in
        match top with
        | Some z =>
            (* T-SQL: SELECT [DISTINCT] TOP (n) ...; TOP cannot be combined with OFFSET / FETCH in one query *)
            match lim, off with
            | NoT, NoT =>
                let '(_, pag) := tail_of ts in
                Some (match pag with [] => true | _ => false end &&
                      match ts with
                      | s :: tp :: lp :: n :: rp :: _ =>
                          is_kw "SELECT" s && is_kw "TOP" tp && is_op "(" lp && is_op ")" rp &&
                          (match fst n with TNum tx => seqb tx (Z_to_str z) | _ => false end)
                      | _ => false
                      end || (Z.eqb z 0))
            | _, _ => Some false
            end
        | None =>
          match from, lim, off with
          | TCons (TQuery qi) TNil, NoT, NoT =>              (* a sub-query in FROM carries the clause *)
              let '(cls', obs', lim', off', _, top') := query_parts qi in
              match top', group_after "FROM" ts with
              | None, Some inner => judge_tail cls' (has_obys obs') lim' off' param vals inner
              | _, _ => None
              end
          | _, _, _ => judge_tail cls (has_obys obs) lim off param vals ts
          end
        end
    | TSetOp base _ obs lim off _ =>
        let '(cls, _, _, _, _, _) := query_parts base in
        judge_tail cls (has_obys obs) lim off param vals ts
    | _ => None
    end
  end.

(* Ref/Qualify.v — SPECIFICATION side of C11: when a column reference must be qualified, and by which name.
   multi     : more than one row source is in scope
   expected  : the qualifier a column reference must carry (None = bare)
   c11_ok    : judged on the lexed statement: every occurrence of a marked column is qualified exactly as expected
   Mentions no rendering definition. *)
From PT Require Import Base.Str Model.Types Ref.Lexer.
Open Scope N_scope.

(* joins, FROM items, FROM[0] is a sub-query, UPDATE with FROM, WHERE refers to a table outside the statement's sources *)
Definition multi (njoins nfrom : nat) (from0_sub update_from foreign_where : bool) : bool :=
  Nat.ltb 0 njoins || Nat.ltb 1 nfrom || from0_sub || update_from || foreign_where.

Record colref := MkCol {
  cr_marker : str;               (* the (unique) column name used in the program *)
  cr_src_name : option str;      (* table name of its source; None: the column belongs to no table *)
  cr_src_alias : option str;     (* alias of its source (for a sub-query / CTE source: the name it is referred by) *)
  cr_exempt : bool }.            (* a position that never qualifies: INSERT column list, SET target, USING, conflict target *)

Definition expected (m : bool) (c : colref) : option str :=
  if cr_exempt c then None
  else match cr_src_name c, cr_src_alias c with
       | None, None => None
       | _, Some a => Some a                 (* an aliased source: always, and by the alias *)
       | Some n, None => if m then Some n else None
       end.

Fixpoint lookup_col (n : str) (l : list colref) : option colref :=
  match l with [] => None | c :: r => if seqb n (cr_marker c) then Some c else lookup_col n r end.

(* walk with two tokens of look-behind *)
Fixpoint walk (m : bool) (cols : list colref) (p2 p1 : option ltok) (ts : list ltok) : bool :=
  match ts with
  | [] => true
  | t :: r =>
      (match t with
       | TQId n =>
           match lookup_col n cols with
           | Some c =>
               let qualified := match p1, p2 with Some (TOp o), Some (TQId q) => if seqb o (L ".") then Some q else None | _, _ => None end in
               match expected m c, qualified with
               | None, None => true
               | Some e, Some q => seqb e q
               | _, _ => false
               end
           | None => true
           end
       | _ => true
       end) && walk m cols p1 (Some t) r
  end.

(* every marked column must occur at least once (the site is really exercised) *)
Definition occurs (ts : list ltok) (c : colref) : bool := existsb (fun t => match t with TQId n => seqb n (cr_marker c) | _ => false end) ts.

(* table.* : the qualifier must be the name the source is referred by (its alias if it has one, else its table name) *)
Fixpoint stars_ok (quals : list str) (ts : list ltok) : bool :=
  match ts with
  | TQId q :: ((TOp o1 :: TOp o2 :: _) as r) =>
      (if seqb o1 (L ".") && seqb o2 (L "*") then existsb (seqb q) quals else true) && stars_ok quals r
  | _ :: r => stars_ok quals r
  | [] => true
  end.

Definition c11_ok (d : dial) (m : bool) (cols : list colref) (star_quals : list str) (sql : str) : option bool :=
  match lex d sql with
  | None => Some false
  | Some ts => if forallb (occurs ts) cols then Some (walk m cols None None ts && stars_ok star_quals ts) else None
  end.

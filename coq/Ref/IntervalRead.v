(* Ref/IntervalRead.v — SPECIFICATION side of C18: how an INTERVAL literal is read.
   Mentions no model definition.  An interval literal is
     INTERVAL '<expr> <unit>'      (PostgreSQL, Redshift, Vertica and the library default)
     INTERVAL '<expr>' <unit>      (Oracle, MySQL)
   <unit> is a designator A or A_B over YEAR MONTH DAY HOUR MINUTE SECOND MICROSECOND (or QUARTER,
   WEEK); <expr> is an optional '-' followed by the fields A..B in the fixed layout
   Y-M-D H:M:S.U, i.e. field i and field i+1 are separated by the i-th of  - - space : : .  *)

From PT Require Import Base.Str Model.Types.

Open Scope N_scope.

(* what a literal denotes: a sign and the labelled fields; labels 0..6 = YEAR..MICROSECOND, 7 = QUARTER, 8 = WEEK *)
Inductive ival := IV (neg : bool) (fields : list (nat * N)).

Definition std_labels : list str :=
  [L "YEAR"; L "MONTH"; L "DAY"; L "HOUR"; L "MINUTE"; L "SECOND"; L "MICROSECOND"; L "QUARTER"; L "WEEK"].
Definition std_seps : list char := [45; 45; 32; 58; 58; 46].

Fixpoint index_of (x : str) (l : list str) (i : nat) : option nat :=
  match l with
  | [] => None
  | y :: r => if seqb x y then Some i else index_of x r (S i)
  end.
Definition label_index (s : str) : option nat := index_of s std_labels 0.

Fixpoint split_at (c : char) (s : str) : option (str * str) :=     (* at the first c *)
  match s with
  | [] => None
  | x :: r => if x =? c then Some ([], r)
              else match split_at c r with Some (a, b) => Some (x :: a, b) | None => None end
  end.

Definition split_last (c : char) (s : str) : option (str * str) := (* at the last c *)
  match split_at c (rev s) with
  | Some (b, a) => Some (rev a, rev b)
  | None => None
  end.

Definition read_unit (u : str) : option (nat * nat) :=
  match split_at 95 u with
  | None => match label_index u with Some i => Some (i, i) | None => None end
  | Some (a, b) =>
    match label_index a, label_index b with
    | Some i, Some j => if Nat.ltb i j && Nat.leb j 6 then Some (i, j) else None
    | _, _ => None
    end
  end.

Fixpoint span_digits (s : str) : str * str :=
  match s with
  | [] => ([], [])
  | c :: r => if is_digit c then let '(a, b) := span_digits r in (c :: a, b) else ([], s)
  end.

Fixpoint read_fields (seps : list char) (s : str) : option (list N) :=
  let '(ds, rest) := span_digits s in
  match read_dec ds with
  | None => None
  | Some v =>
    match seps, rest with
    | [], [] => Some [v]
    | sp :: seps', c :: rest' =>
      if c =? sp then match read_fields seps' rest' with Some vs => Some (v :: vs) | None => None end else None
    | _, _ => None
    end
  end.

Fixpoint label_from (i : nat) (vs : list N) : list (nat * N) :=
  match vs with [] => [] | v :: r => (i, v) :: label_from (S i) r end.

Definition read_expr (u e : str) : option ival :=
  match read_unit u with
  | None => None
  | Some (i, j) =>
    let '(neg, body) := match e with c :: r => if c =? 45 then (true, r) else (false, e) | [] => (false, e) end in
    let seps := firstn (j - i) (skipn i std_seps) in
    match read_fields seps body with
    | Some vs => Some (IV neg (label_from i vs))
    | None => None
    end
  end.

(* quoting form per dialect *)
Definition quote_inside_unit (d : dial) : bool :=     (* true: INTERVAL '<expr> <unit>' *)
  match d with ORACLE | MYSQL => false | _ => true end.

Fixpoint strip_prefix (p s : str) : option str :=
  match p, s with
  | [], _ => Some s
  | a :: p', b :: s' => if a =? b then strip_prefix p' s' else None
  | _ :: _, [] => None
  end.

Definition read_interval (d : dial) (sql : str) : option ival :=
  match strip_prefix (L "INTERVAL '") sql with
  | None => None
  | Some body =>
    if quote_inside_unit d then
      match rev body with
      | q :: rinner =>
        if q =? 39 then
          match split_last 32 (rev rinner) with
          | Some (e, u) => read_expr u e
          | None => None
          end
        else None
      | [] => None
      end
    else
      match split_at 39 body with
      | Some (e, sp :: u) => if sp =? 32 then read_expr u e else None
      | _ => None
      end
  end.

(* ---- what the constructor arguments denote (independent of the implementation) ---- *)
Fixpoint drop_lead0 (l : list (nat * N)) : list (nat * N) :=
  match l with
  | (i, v) :: r => if v =? 0 then drop_lead0 r else l
  | [] => []
  end.
Fixpoint drop_trail0 (l : list (nat * N)) : list (nat * N) :=
  match l with
  | [] => []
  | (i, v) :: r => match drop_trail0 r with
                   | [] => if v =? 0 then [] else [(i, v)]
                   | r' => (i, v) :: r'
                   end
  end.

Definition first_nonzero_neg (zs : list Z) : bool :=
  match filter (fun z => negb (Z.eqb z 0)) zs with
  | z :: _ => Z.ltb z 0
  | [] => false
  end.

(* comps: the seven year..microsecond arguments *)
Definition denote (comps : list Z) (quarters weeks : Z) : ival :=
  if negb (Z.eqb quarters 0) then IV (Z.ltb quarters 0) [(7%nat, Z.abs_N quarters)]
  else if negb (Z.eqb weeks 0) then IV (Z.ltb weeks 0) [(8%nat, Z.abs_N weeks)]
  else match drop_trail0 (drop_lead0 (label_from 0 (map Z.abs_N comps))) with
       | [] => IV false [(2%nat, 0)]            (* the zero interval is written 0 DAY *)
       | fs => IV (first_nonzero_neg comps) fs
       end.

(* the inputs the property quantifies over: quarters / weeks alone, or components whose non-leading
   values are non-negative *)
Fixpoint nonleading_nonneg (zs : list Z) : bool :=
  match zs with
  | [] => true
  | z :: r => if Z.eqb z 0 then nonleading_nonneg r else forallb (fun y => Z.leb 0 y) r
  end.
Definition valid (comps : list Z) (quarters weeks : Z) : bool :=
  (Nat.eqb (length comps) 7) &&
  if negb (Z.eqb quarters 0) then forallb (Z.eqb 0) comps && Z.eqb weeks 0
  else if negb (Z.eqb weeks 0) then forallb (Z.eqb 0) comps
  else nonleading_nonneg comps.

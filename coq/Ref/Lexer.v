(* Ref/Lexer.v — SPECIFICATION side: a reference SQL tokenizer per dialect.
   It is the formal reading of "what the target dialect's lexer sees": quoted identifiers and
   string literals with doubled-quote escapes, MySQL backslash escapes, numbers, words,
   longest-match operators, the comment openers (double minus, slash-star, MySQL hash),
   placeholders.  Written as a fold over characters so that
       run st (a ++ b) = run (run st a) b
   holds by fold_left_app and token lemmas compose.  Comments are REPORTED (TComment), not
   dropped, so that an accidental comment opener is visible to every check.  Mentions no model
   definition.

   Sources for the per-dialect switches: MySQL Reference Manual 9.1.1 (string literals, backslash
   escapes; double quote delimits a string unless ANSI_QUOTES), 9.2 (backtick identifiers), 9.7
   (double minus needs a following whitespace/control character; hash comments); PostgreSQL 4.1
   (standard_conforming_strings: no backslash escapes; dollar-number parameters); SQLite
   tokenizer (backtick and double quote identifiers, question-mark parameters); SQL Server and
   Oracle: ANSI quoted identifiers, question-mark parameters at the driver level. *)
From PT Require Import Base.Str Model.Types.
Open Scope N_scope.

Inductive ltok :=
  | TWord (s : str)                (* bare word or keyword, as written *)
  | TQId (name : str)              (* quoted identifier: the decoded name *)
  | TStr (s : str)                 (* string literal: the decoded value *)
  | TNum (s : str)                 (* numeric literal: its text *)
  | TOp (s : str)                  (* operator or punctuation *)
  | TPh (s : str)                  (* placeholder *)
  | TComment.

Definition ltok_eqb (a b : ltok) : bool :=
  match a, b with
  | TWord x, TWord y | TQId x, TQId y | TStr x, TStr y | TNum x, TNum y | TOp x, TOp y | TPh x, TPh y => seqb x y
  | TComment, TComment => true
  | _, _ => false
  end.
Fixpoint ltoks_eqb (a b : list ltok) : bool :=
  match a, b with
  | [], [] => true
  | x :: a', y :: b' => ltok_eqb x y && ltoks_eqb a' b'
  | _, _ => false
  end.

Record lexcfg := MkLexCfg {
  lc_bs : bool;            (* backslash escapes inside string literals *)
  lc_dq_string : bool;     (* the double quote delimits a string, not an identifier *)
  lc_backtick : bool;      (* the backtick delimits an identifier *)
  lc_dash_space : bool;    (* double minus opens a comment only before whitespace / control *)
  lc_hash : bool;          (* hash opens a line comment *)
  lc_qmark : bool;         (* question mark is a placeholder *)
  lc_pct_s : bool;         (* percent-s is a placeholder *)
  lc_dollar : bool }.      (* dollar-number is a placeholder *)

Definition lexcfg_of (d : dial) : lexcfg :=
  match d with
  | MYSQL => MkLexCfg true true true true true true true false
  | POSTGRESQL | REDSHIFT => MkLexCfg false false false false false false false true
  | SQLITE => MkLexCfg false false true false false true false false
  | _ => MkLexCfg false false false false false true false false
  end.

Inductive qkind := KStr | KId.
Inductive numst := NInt | NFrac | NE | NESign | NExp.

Inductive mode :=
  | MNorm
  | MWord (acc : str)                          (* accumulators are reversed unless noted *)
  | MNum (st : numst) (acc : str)
  | MQ (q : char) (k : qkind) (acc : str)
  | MQSeen (q : char) (k : qkind) (acc : str)
  | MBs (q : char) (acc : str)
  | MOp (acc : str)                            (* pending operator characters, in order *)
  | MDash2
  | MLine
  | MBlock (star : bool)
  | MPct
  | MDollar (acc : str)
  | MErr.

Definition is_opchar (c : char) : bool :=
  existsb (N.eqb c) [43; 45; 42; 47; 37; 61; 60; 62; 40; 41; 91; 93; 44; 46; 59; 38; 124; 94; 126; 33; 64; 35; 58; 63; 123; 125].

Definition multi_ops : list str :=
  [L "<>"; L "<="; L ">="; L "!="; L "||"; L "->"; L "->>"; L "#>"; L "#>>"; L "@>"; L "<@"; L "?|"; L "?&"; L "::";
   L "--"; L "/*"].

Fixpoint is_prefix (p s : str) : bool :=
  match p, s with
  | [], _ => true
  | a :: p', b :: s' => (a =? b) && is_prefix p' s'
  | _ :: _, [] => false
  end.
Definition extends (acc : str) (c : char) : bool := existsb (is_prefix (acc ++ [c])) multi_ops.

Definition mk_q (k : qkind) (s : str) : ltok := match k with KStr => TStr s | KId => TQId s end.

(* MySQL backslash escapes (in order, not reversed) *)
Definition bs_unescape (c : char) : str :=
  if c =? 110 then [10] else if c =? 116 then [9] else if c =? 114 then [13] else if c =? 48 then [0]
  else if c =? 98 then [8] else if c =? 90 then [26]
  else if (c =? 37) || (c =? 95) then [92; c]
  else [c].

Definition start (cfg : lexcfg) (out : list ltok) (c : char) : mode * list ltok :=
  if is_space c then (MNorm, out)
  else if c =? 39 then (MQ 39 KStr [], out)
  else if c =? 34 then (MQ 34 (if lc_dq_string cfg then KStr else KId) [], out)
  else if c =? 96 then (if lc_backtick cfg then (MQ 96 KId [], out) else (MErr, out))
  else if is_digit c then (MNum NInt [c], out)
  else if is_alpha c then (MWord [c], out)
  else if (c =? 63) && lc_qmark cfg then (MNorm, TPh [63] :: out)
  else if (c =? 37) && lc_pct_s cfg then (MPct, out)
  else if (c =? 36) && lc_dollar cfg then (MDollar [], out)
  else if (c =? 35) && lc_hash cfg then (MLine, out)
  else if is_opchar c then (MOp [c], out)
  else (MErr, out).

Definition is_e (c : char) : bool := (c =? 101) || (c =? 69).
Definition is_sign (c : char) : bool := (c =? 43) || (c =? 45).

Definition step (cfg : lexcfg) (st : mode * list ltok) (c : char) : mode * list ltok :=
  let '(m, out) := st in
  match m with
  | MErr => (MErr, out)
  | MNorm => start cfg out c
  | MWord acc => if is_word c then (MWord (c :: acc), out) else start cfg (TWord (rev acc) :: out) c
  | MNum NInt acc =>
      if is_digit c then (MNum NInt (c :: acc), out)
      else if c =? 46 then (MNum NFrac (c :: acc), out)
      else if is_e c then (MNum NE (c :: acc), out)
      else start cfg (TNum (rev acc) :: out) c
  | MNum NFrac acc =>
      if is_digit c then (MNum NFrac (c :: acc), out)
      else if is_e c then (MNum NE (c :: acc), out)
      else start cfg (TNum (rev acc) :: out) c
  | MNum NE acc =>
      if is_digit c then (MNum NExp (c :: acc), out)
      else if is_sign c then (MNum NESign (c :: acc), out)
      else (MErr, out)
  | MNum NESign acc => if is_digit c then (MNum NExp (c :: acc), out) else (MErr, out)
  | MNum NExp acc => if is_digit c then (MNum NExp (c :: acc), out) else start cfg (TNum (rev acc) :: out) c
  | MQ q k acc =>
      if c =? q then (MQSeen q k acc, out)
      else if (c =? 92) && lc_bs cfg && (match k with KStr => true | KId => false end) then (MBs q acc, out)
      else (MQ q k (c :: acc), out)
  | MQSeen q k acc =>
      if c =? q then (MQ q k (q :: acc), out)
      else start cfg (mk_q k (rev acc) :: out) c
  | MBs q acc => (MQ q KStr (rev (bs_unescape c) ++ acc), out)
  | MOp acc =>
      if is_opchar c && extends acc c then
        let acc' := acc ++ [c] in
        if seqb acc' (L "--") then (if lc_dash_space cfg then (MDash2, out) else (MLine, out))
        else if seqb acc' (L "/*") then (MBlock false, out)
        else (MOp acc', out)
      else start cfg (TOp acc :: out) c
  | MDash2 =>
      if c =? 10 then (MNorm, TComment :: out)
      else if is_space c || (c <? 32) then (MLine, out)
      else start cfg (TOp [45] :: TOp [45] :: out) c
  | MLine => if c =? 10 then (MNorm, TComment :: out) else (MLine, out)
  | MBlock star => if star && (c =? 47) then (MNorm, TComment :: out) else (MBlock (c =? 42), out)
  | MPct => if c =? 115 then (MNorm, TPh (L "%s") :: out) else start cfg (TOp [37] :: out) c
  | MDollar acc =>
      if is_digit c then (MDollar (c :: acc), out)
      else match acc with
           | [] => (MErr, out)
           | _ => start cfg (TPh (36 :: rev acc) :: out) c
           end
  end.

Definition flush (st : mode * list ltok) : option (list ltok) :=
  let '(m, out) := st in
  match m with
  | MNorm => Some (rev out)
  | MWord acc => Some (rev (TWord (rev acc) :: out))
  | MNum NE _ | MNum NESign _ => None
  | MNum _ acc => Some (rev (TNum (rev acc) :: out))
  | MQ _ _ _ | MBs _ _ | MBlock _ | MErr => None
  | MQSeen q k acc => Some (rev (mk_q k (rev acc) :: out))
  | MOp acc => Some (rev (TOp acc :: out))
  | MDash2 => Some (rev (TOp [45] :: TOp [45] :: out))
  | MLine => Some (rev (TComment :: out))
  | MPct => Some (rev (TOp [37] :: out))
  | MDollar [] => None
  | MDollar acc => Some (rev (TPh (36 :: rev acc) :: out))
  end.

Definition run (cfg : lexcfg) (st : mode * list ltok) (s : str) : mode * list ltok := fold_left (step cfg) s st.
Definition lexc (cfg : lexcfg) (s : str) : option (list ltok) := flush (run cfg (MNorm, []) s).
Definition lex (d : dial) (s : str) : option (list ltok) := lexc (lexcfg_of d) s.

Lemma run_app cfg st a b : run cfg st (a ++ b) = run cfg (run cfg st a) b.
Proof. apply fold_left_app. Qed.

Lemma run_cons cfg st c s : run cfg st (c :: s) = run cfg (step cfg st c) s.
Proof. reflexivity. Qed.

(* convenience for checks *)
Definition has_comment (ts : list ltok) : bool := existsb (fun t => match t with TComment => true | _ => false end) ts.
Definition is_literal_tok (t : ltok) : bool :=
  match t with
  | TStr _ | TNum _ => true
  | TWord w => seqb w (L "null") || seqb w (L "true") || seqb w (L "false") || seqb w (L "NULL")
  | _ => false
  end.

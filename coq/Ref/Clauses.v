(* Ref/Clauses.v — SPECIFICATION side of C13: well-formedness of a rendered statement, judged on its lexed tokens.
     balanced    : parentheses and square brackets nest properly
     clause_ok   : the depth-0 clause keywords form a sub-sequence, without repetition (JOIN, set operators and WHEN..THEN aside), of the dialect's
                   clause order for the statement kind
   and which builder methods address which clause (for commutation).  Mentions no rendering definition. *)
From PT Require Import Base.Str Model.Types Ref.Lexer.
Open Scope N_scope.

Definition op_is (o : string) (t : ltok) : bool := match t with TOp s => seqb s (L o) | _ => false end.
Definition upper_c (c : char) : char := if (97 <=? c) && (c <=? 122) then c - 32 else c.
Definition kw (t : ltok) : option str := match t with TWord s => Some (map upper_c s) | _ => None end.
Definition kw_is (w : string) (t : ltok) : bool := match kw t with Some s => seqb s (L w) | None => false end.

(* ---- brackets ---- *)
Fixpoint balanced_aux (ts : list ltok) (stack : list bool) : bool :=     (* true = round, false = square *)
  match ts with
  | [] => match stack with [] => true | _ => false end
  | t :: r =>
      if op_is "(" t then balanced_aux r (true :: stack)
      else if op_is "[" t then balanced_aux r (false :: stack)
      else if op_is ")" t then match stack with true :: s => balanced_aux r s | _ => false end
      else if op_is "]" t then match stack with false :: s => balanced_aux r s | _ => false end
      else balanced_aux r stack
  end.
Definition balanced (ts : list ltok) : bool := balanced_aux ts [].

(* ---- clauses at depth 0 ---- *)
Inductive clause :=
  | CWith | CSelect | CInsert | CReplace | CUpdate | CDelete | CInto | CFrom | CForceIndex | CUseIndex | CJoin | CSet | CPrewhere | CWhere | CGroupBy
  | CWithTotals | CWithRollup | CHaving | COrderBy | CLimit | COffset | CFetch | CForUpdate | CValues | COnConflict | COnDuplicate | CDo | CReturning | CSetOp | CCreate | CDrop
  | CConflictWhere.
Definition clause_eqb (a b : clause) : bool :=
  match a, b with
  | CWith, CWith | CSelect, CSelect | CInsert, CInsert | CReplace, CReplace | CUpdate, CUpdate | CDelete, CDelete | CInto, CInto | CFrom, CFrom | CForceIndex, CForceIndex
  | CUseIndex, CUseIndex | CJoin, CJoin | CSet, CSet | CPrewhere, CPrewhere | CWhere, CWhere | CGroupBy, CGroupBy | CWithTotals, CWithTotals | CWithRollup, CWithRollup
  | CHaving, CHaving | COrderBy, COrderBy | CLimit, CLimit | COffset, COffset | CFetch, CFetch | CForUpdate, CForUpdate | CValues, CValues | COnConflict, COnConflict
  | COnDuplicate, COnDuplicate | CDo, CDo | CReturning, CReturning | CSetOp, CSetOp | CCreate, CCreate | CDrop, CDrop | CConflictWhere, CConflictWhere => true
  | _, _ => false
  end.

(* the clause a keyword opens, given the next keyword (two-word clause heads) *)
Local Open Scope string_scope.
Definition clause_of (t : ltok) (next next2 : option ltok) : option clause :=
  let n (w : string) := match next with Some x => kw_is w x | None => false end in
  let n2 (w : string) := match next2 with Some x => kw_is w x | None => false end in
  if kw_is "WITH" t then (if n "TOTALS" then Some CWithTotals else if n "ROLLUP" then Some CWithRollup else Some CWith)
  else if kw_is "SELECT" t then Some CSelect else if kw_is "INSERT" t then Some CInsert else if kw_is "REPLACE" t && n "INTO" then Some CReplace
  else if kw_is "UPDATE" t then Some CUpdate else if kw_is "DELETE" t then Some CDelete
  else if kw_is "INTO" t then None                                 (* part of INSERT INTO / REPLACE INTO / SELECT .. INTO: judged with its head *)
  else if kw_is "FROM" t then Some CFrom
  else if kw_is "FORCE" t && n "INDEX" then Some CForceIndex else if kw_is "USE" t && n "INDEX" then Some CUseIndex
  else if kw_is "JOIN" t then Some CJoin else if kw_is "SET" t then Some CSet else if kw_is "PREWHERE" t then Some CPrewhere
  else if kw_is "WHERE" t then Some CWhere else if kw_is "GROUP" t && n "BY" then Some CGroupBy else if kw_is "HAVING" t then Some CHaving
  else if kw_is "ORDER" t && n "BY" then Some COrderBy else if kw_is "LIMIT" t then Some CLimit else if kw_is "OFFSET" t then Some COffset
  else if kw_is "FETCH" t then Some CFetch else if kw_is "FOR" t && n "UPDATE" then Some CForUpdate else if kw_is "VALUES" t then Some CValues
  else if kw_is "ON" t && n "CONFLICT" then Some COnConflict else if kw_is "ON" t && n "DUPLICATE" then Some COnDuplicate
  else if kw_is "DO" t then Some CDo else if kw_is "RETURNING" t then Some CReturning
  else if kw_is "UNION" t || kw_is "INTERSECT" t || kw_is "EXCEPT" t || kw_is "MINUS" t then Some CSetOp
  else if kw_is "CREATE" t then Some CCreate else if kw_is "DROP" t then Some CDrop
  else None.

Local Close Scope string_scope.
(* keywords that belong to a multi-word clause head just recognised are skipped: FOR UPDATE, ON CONFLICT, ON DUPLICATE KEY UPDATE, DO NOTHING, DO UPDATE SET *)
Definition head_len (c : clause) (r : list ltok) : nat :=
  match c with
  | CForUpdate | COnConflict | CGroupBy | COrderBy | CForceIndex | CUseIndex | CWithTotals | CWithRollup => 1
  | COnDuplicate => 3
  | CDo => match r with x :: _ => if kw_is "UPDATE" x then 2 else 1 | [] => 0 end
  | _ => 0
  end%nat.
Fixpoint clauses_aux (ts : list ltok) (d : nat) (skip : nat) (inconflict : bool) : list clause :=
  match ts with
  | [] => []
  | t :: r =>
      if op_is "(" t || op_is "[" t then clauses_aux r (S d) skip inconflict
      else if op_is ")" t || op_is "]" t then clauses_aux r (Nat.pred d) skip inconflict
      else match d, skip with
           | O, O => match clause_of t (hd_error r) (hd_error (tl r)) with
                     | Some c =>
                         let c' := match c with CWhere => if inconflict then CConflictWhere else CWhere | _ => c end in
                         let ic := inconflict || match c with COnConflict | CDo => true | _ => false end in
                         c' :: clauses_aux r d (head_len c r) ic
                     | None => clauses_aux r d 0 inconflict
                     end
           | O, S k => clauses_aux r d k inconflict
           | _, _ => clauses_aux r d skip inconflict
           end
  end.
(* VALUES opens a clause only in an INSERT / REPLACE statement (elsewhere VALUES(col) is MySQL's function) *)
Fixpoint drop_values (cs : list clause) (ins : bool) : list clause :=
  match cs with
  | [] => []
  | CValues :: r => if ins then CValues :: drop_values r ins else drop_values r ins
  | c :: r => c :: drop_values r (ins || match c with CInsert | CReplace => true | _ => false end)
  end.
Definition clauses (ts : list ltok) : list clause := drop_values (clauses_aux ts 0 0 false) false.

(* the grammatical order per class (one table serves SELECT / INSERT / UPDATE / DELETE: a clause that a statement kind lacks simply does not occur) *)
Definition order_of (b : bcls) : list clause :=
  match b with
  | BMSSQL => [CWith; CInsert; CReplace; CUpdate; CDelete; CValues; CSelect; CFrom; CForceIndex; CUseIndex; CJoin; CSet; CPrewhere; CWhere; CGroupBy; CWithTotals; CWithRollup; CHaving;
               COrderBy; COffset; CFetch; CLimit; CForUpdate; COnConflict; CConflictWhere; COnDuplicate; CDo; CConflictWhere; CReturning]
  | BOracle => [CWith; CInsert; CReplace; CUpdate; CDelete; CValues; CSelect; CFrom; CForceIndex; CUseIndex; CJoin; CSet; CPrewhere; CWhere; CGroupBy; CWithTotals; CWithRollup; CHaving;
               COrderBy; COffset; CFetch; CLimit; CForUpdate; COnConflict; CConflictWhere; COnDuplicate; CDo; CConflictWhere; CReturning]
  | BPostgreSQL | BSQLite =>
              (* UPDATE t SET .. FROM .. JOIN .. WHERE : SET precedes FROM *)
              [CWith; CInsert; CReplace; CUpdate; CDelete; CValues; CSelect; CSet; CFrom; CForceIndex; CUseIndex; CJoin; CPrewhere; CWhere; CGroupBy; CWithTotals; CWithRollup; CHaving;
               COrderBy; CLimit; COffset; CFetch; CForUpdate; COnConflict; CConflictWhere; COnDuplicate; CDo; CConflictWhere; CReturning]
  | _ =>      (* generic / MySQL: UPDATE t JOIN .. SET .. FROM .. WHERE *)
              [CWith; CInsert; CReplace; CUpdate; CDelete; CValues; CSelect; CJoin; CSet; CFrom; CForceIndex; CUseIndex; CJoin; CPrewhere; CWhere; CGroupBy; CWithTotals; CWithRollup; CHaving;
               COrderBy; CLimit; COffset; CFetch; CForUpdate; COnConflict; CConflictWhere; COnDuplicate; CDo; CConflictWhere; CReturning]
  end.

(* cs is a sub-sequence of the order; a clause may repeat only if it is JOIN (consecutive) *)
Fixpoint subseq_fuel (fuel : nat) (cs order : list clause) : bool :=
  match fuel with
  | O => false
  | S f =>
    match cs with
    | [] => true
    | c :: r =>
        match order with
        | [] => false
        | o :: orest =>
            if clause_eqb c o then (match c with CJoin => subseq_fuel f r order | _ => subseq_fuel f r orest end)
            else subseq_fuel f cs orest
        end
    end
  end.
Definition subseq (cs order : list clause) : bool := subseq_fuel (S (length cs + length order)) cs order.

(* a set operation is a sequence of statements: split at depth-0 set operators; DDL is judged by balance only *)
Fixpoint split_setops (cs acc : list clause) : list (list clause) :=
  match cs with
  | [] => [rev acc]
  | CSetOp :: r => rev acc :: split_setops r []
  | c :: r => split_setops r (c :: acc)
  end.

(* the tail of a set operation (ORDER BY / LIMIT / OFFSET / FETCH of the whole) follows its last operand: allowed after any operand's clauses *)
Definition clause_ok (b : bcls) (ts : list ltok) : bool :=
  let cs := clauses ts in
  match cs with
  | CCreate :: _ | CDrop :: _ => true
  | _ => forallb (fun part => subseq part (order_of b)) (split_setops cs [])
  end.

Definition wellformed (d : dial) (b : bcls) (sql : str) : option bool :=
  match sql with
  | [] => None                                      (* an incomplete builder: judged by the incomplete-is-empty statement *)
  | _ => match lex d sql with
         | None => Some false                       (* an unterminated quote / comment *)
         | Some ts => Some (negb (has_comment ts) && balanced ts && clause_ok b ts)
         end
  end.

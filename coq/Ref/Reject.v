(* Ref/Reject.v — SPECIFICATION side of C14: which constructions must be rejected, and with which exception.
   Mentions no model definition (Model.EqHash is used only for the identity of row sources: == on tables / aliased queries / builders). *)
From PT Require Import Base.Str Model.EqHash.
Open Scope N_scope.

(* a row source as the join validation sees it *)
Inductive src :=
  | STable (t : tbl)                 (* == over name, schema chain, alias *)
  | SQuery (alias : option str)      (* a sub-query: == over its alias *)
  | SCte (name : str)                (* a declared CTE / AliasedQuery: == over its name *)
  | SNone.                           (* a column that belongs to no table *)

Definition src_eq (a b : src) : bool :=
  match a, b with
  | STable x, STable y => tbl_eq x y
  | SQuery x, SQuery y => qb_eq x y
  | SCte x, SCte y => aq_eq x y
  | SNone, SNone => true
  | _, _ => false
  end.

(* THE RULE: a join condition is acceptable iff every table it refers to (outside nested sub-queries) is in FROM, already joined,
   the item being joined, the UPDATE target or a declared CTE *)
Definition join_ok (from joined : list src) (item : src) (update ctes : list src) (refs : list src) : bool :=
  let avail := from ++ joined ++ [item] ++ update ++ ctes in
  forallb (fun r => existsb (src_eq r) avail) refs.

Inductive exn := XJoin | XSetOp | XCase | XQuery | XAttr | XRollup.
Definition exn_code (e : option exn) : N :=
  match e with None => 0 | Some XJoin => 1 | Some XSetOp => 2 | Some XCase => 3 | Some XQuery => 4 | Some XAttr => 5 | Some XRollup => 6 end.

Definition join_expected from joined item update ctes refs : option exn :=
  if join_ok from joined item update ctes refs then None else Some XJoin.

(* set operations over select lists of different lengths are rejected (when rendered) *)
Definition setop_expected (base : nat) (operands : list nat) : option exn :=
  if forallb (Nat.eqb base) operands then None else Some XSetOp.

(* CASE without WHEN (when rendered) *)
Definition case_expected (whens : nat) : option exn := match whens with O => Some XCase | _ => None end.

(* ON CONFLICT handlers: a sequence of calls on an INSERT (or not) *)
Inductive ccall := CCOnConflict (fields : nat) | CCDoNothing | CCDoUpdate | CCWhere.
Record cstate := MkCS { cs_insert : bool; cs_on : bool; cs_fields : nat; cs_nothing : bool; cs_updates : nat }.
Definition cstep (s : cstate) (c : ccall) : cstate + exn :=
  match c with
  | CCOnConflict n => if cs_insert s then inl (MkCS true true n (cs_nothing s) (cs_updates s)) else inr XQuery
  | CCDoNothing => if Nat.ltb 0 (cs_updates s) then inr XQuery else inl (MkCS (cs_insert s) (cs_on s) (cs_fields s) true (cs_updates s))
  | CCDoUpdate => if cs_nothing s then inr XQuery else inl (MkCS (cs_insert s) (cs_on s) (cs_fields s) false (S (cs_updates s)))
  | CCWhere =>
      if negb (cs_on s) then inl s                                     (* an ordinary WHERE *)
      else if cs_nothing s then inr XQuery                             (* DO NOTHING does not take a WHERE *)
      else if Nat.eqb (cs_fields s) 0 then inr XQuery                  (* fieldless ON CONFLICT .. WHERE *)
      else inl s
  end.
Fixpoint crun (s : cstate) (l : list ccall) : cstate + exn :=
  match l with
  | [] => inl s
  | c :: r => match cstep s c with inl s' => crun s' r | inr e => inr e end
  end.
(* at render: ON CONFLICT without a handler, or DO UPDATE without conflict target fields *)
Definition conflict_render (s : cstate) : option exn :=
  if negb (cs_on s) then None
  else if negb (cs_nothing s) && Nat.eqb (cs_updates s) 0 then (if Nat.eqb (cs_fields s) 0 then None else Some XQuery)
  else if Nat.ltb 0 (cs_updates s) && Nat.eqb (cs_fields s) 0 then Some XQuery
  else None.
Definition conflict_expected (insert : bool) (calls : list ccall) : option exn :=
  match crun (MkCS insert false 0 false 0) calls with
  | inr e => Some e
  | inl s => conflict_render s
  end.

(* RETURNING: only on INSERT / UPDATE / DELETE, only columns of the statement's own tables, no aggregate functions *)
Definition returning_expected (dml : bool) (foreign : bool) (aggregate : bool) : option exn :=
  if aggregate then Some XQuery else if negb dml then Some XQuery else if foreign then Some XQuery else None.

(* one-shot calls: the second call is rejected *)
Definition oneshot_expected (rollup : bool) (times : nat) : option exn :=
  match times with O | S O => None | _ => if rollup then Some XRollup else Some XAttr end.

(* Ref/ParamEq.v — SPECIFICATION side of C04: the relation between a parameterised rendering (SQL with placeholders +
   value list) and the inline rendering of the same object.

   c04_ok d style sp vals si :
     (a) the placeholders of sp are written in the dialect's style, there are exactly |vals| of them, in list order
         (numbered 1..n where the dialect numbers them);
     (b) every listed value is plain data (no query-builder object, no list holding one);
     (c) reading sp and si token by token, they are equal except that the k-th placeholder of sp stands where si has the
         ONE inline literal of the k-th value (for a list value: the dialect's array literal of its elements);
     (d) hence no parameterised value's text is left in sp.
   Mentions no rendering definition. *)
From PT Require Import Base.Str Model.Types Model.Value Ref.Lexer Ref.Align.
Open Scope N_scope.

Inductive pval := PV (v : value) | PList (l : list value) (dumped : str) (* a Python list: an SQL array of its elements, or (ValueWrapper(list)) its JSON text *) | PNode.

Definition plain (p : pval) : bool := match p with PNode => false | _ => true end.

Fixpoint nth_pval (n : nat) (l : list pval) : option pval :=
  match l, n with x :: _, O => Some x | _ :: r, S k => nth_pval k r | [], _ => None end.

(* consume one literal of value v from the front of ts *)
Definition eat_lit (cfg : lexcfg) (v : value) (ts : list ltok) : option (list ltok) :=
  match lit_alts cfg v with
  | Some alts => fold_left (fun acc alt => match acc with Some r => Some r | None => strip_prefix alt ts end) alts None
  | None => None
  end.

(* the array literal of a list value:  [ARRAY] "[" e1 , e2 ... "]"   or  '{}' for the empty PostgreSQL array *)
Fixpoint eat_elems (cfg : lexcfg) (vs : list value) (first : bool) (ts : list ltok) : option (list ltok) :=
  match vs with
  | [] => Some ts
  | v :: r =>
      let ts1 := if first then Some ts else match ts with TOp c :: t' => if seqb c (L ",") then Some t' else None | _ => None end in
      match ts1 with
      | Some t1 => match eat_lit cfg v t1 with Some t2 => eat_elems cfg r false t2 | None => None end
      | None => None
      end
  end.
Definition eat_list (cfg : lexcfg) (vs : list value) (ts : list ltok) : option (list ltok) :=
  let body t := match t with
                | TOp o :: t1 => if seqb o (L "[") then
                                   match eat_elems cfg vs true t1 with
                                   | Some (TOp c :: t2) => if seqb c (L "]") then Some t2 else None
                                   | _ => None
                                   end else None
                | _ => None
                end in
  match vs, ts with
  | [], TStr e :: t' => if seqb e (L "{}") then Some t' else body ts
  | _, TWord a :: t' => if seqb a (L "ARRAY") then body t' else None
  | _, _ => body ts
  end.

(* the style a placeholder must have *)
Definition ph_ok (st : option phstyle) (k : N) (text : str) : bool :=
  match st with
  | None => true                                  (* caller-supplied factory: not judged *)
  | Some (PhConst s) => seqb text s
  | Some (PhNumbered pre) => seqb text (pre ++ N_to_str k)
  end.

(* walk sp and si; k = ordinal of the next placeholder (1-based) *)
Fixpoint walk (cfg : lexcfg) (st : option phstyle) (vals : list pval) (k : N) (Ps Is : list ltok) {struct Ps} : bool :=
  match Ps with
  | [] => match Is with [] => N.eqb k (N.of_nat (length vals) + 1) | _ => false end
  | TPh text :: Ps' =>
      ph_ok st k text &&
      match nth_pval (N.to_nat (k - 1)) vals with
      | Some (PV v) => match eat_lit cfg v Is with Some Is' => walk cfg st vals (k + 1) Ps' Is' | None => false end
      | Some (PList vs dumped) =>
          match eat_list cfg vs Is with
          | Some Is' => walk cfg st vals (k + 1) Ps' Is'
          | None => match eat_lit cfg (VDumped dumped) Is with Some Is' => walk cfg st vals (k + 1) Ps' Is' | None => false end
          end
      | Some PNode | None => false
      end
  | p :: Ps' => match Is with i :: Is' => ltok_eqb p i && walk cfg st vals k Ps' Is' | [] => false end
  end.

Definition c04_ok (d : dial) (st : option phstyle) (sp : str) (vals : list pval) (si : str) : option bool :=
  let cfg := lexcfg_of d in
  match lexc cfg si with
  | None => None                                   (* the inline text itself is outside the reference lexer: not judged here *)
  | Some Is =>
    if has_comment Is || existsb (fun t => match t with TPh _ => true | _ => false end) Is then None   (* the object holds placeholders of its own *)
    else match lexc cfg sp with
         | None => Some false
         | Some Ps => Some (forallb plain vals && negb (has_comment Ps) && walk cfg st vals 1 Ps Is)
         end
  end.

(* Ref/Dialect.v — SPECIFICATION side of C08(B): two renderings of one dialect-neutral program under two dialects are the same
   token stream once the documented conventions are normalised:
     - identifier quote character   (the lexer already yields the NAME of a quoted identifier, whatever delimited it)
     - placeholder style            (every placeholder becomes the same token)
     - set-operand wrapping         (parentheses directly around a SELECT are dropped together with their partner)
   Boolean / array / interval / JSON literal forms and the GROUP BY alias policy are not normalised: the neutral subset does not use them.
   Mentions no rendering definition. *)
From PT Require Import Base.Str Model.Types Ref.Lexer.
Open Scope N_scope.

Definition is_select (t : ltok) : bool := match t with TWord w => seqb w (L "SELECT") | _ => false end.
Definition is_lp (t : ltok) : bool := match t with TOp o => seqb o (L "(") | _ => false end.
Definition is_rp (t : ltok) : bool := match t with TOp o => seqb o (L ")") | _ => false end.

(* stack: for every open parenthesis, was it dropped *)
Fixpoint strip (ts : list ltok) (stack : list bool) : list ltok :=
  match ts with
  | [] => []
  | t :: r =>
      if is_lp t then
        (match r with
         | n :: _ => if is_select n then strip r (true :: stack) else t :: strip r (false :: stack)
         | [] => [t]
         end)
      else if is_rp t then
        (match stack with
         | true :: s => strip r s
         | false :: s => t :: strip r s
         | [] => t :: strip r []
         end)
      else (match t with TPh _ => TPh [] | _ => t end) :: strip r stack
  end.

Definition norm (ts : list ltok) : list ltok := strip ts [].

Definition cross_ok (d1 : dial) (s1 : str) (d2 : dial) (s2 : str) : option bool :=
  match lex d1 s1, lex d2 s2 with
  | Some a, Some b => Some (ltoks_eqb (norm a) (norm b) && negb (has_comment a))
  | _, _ => Some false
  end.

(* Ref/Parser.v — SPECIFICATION side: a reference expression parser under standard SQL precedence
   and associativity, written as stratified recursive descent (one chain loop per level) with fuel:

     E_or   ::= E_xor (OR  E_xor)*          left associative
     E_xor  ::= E_and (XOR E_and)*
     E_and  ::= E_not (AND E_not)*
     E_not  ::= NOT E_not | E_pred
     E_pred ::= E_add [ cmp E_add | IS [NOT] NULL | [NOT] IN ( E_or,* ) | [NOT] BETWEEN E_add AND E_add
                      | [NOT] LIKE-family E_add ]          at most one predicate: comparison is NOT associative,
                                                            and a predicate is not a value expression (ISO 9075 <predicate>)
     E_add  ::= E_mul (plus-or-minus E_mul)*
     E_mul  ::= E_un  (times-or-divide E_un)*
     E_un   ::= - E_un | primary
     primary::= ( E_or ) | ( SELECT ... ) | name ( [DISTINCT] E_or,* ) | CASE (WHEN E_or THEN E_or)+ [ELSE E_or] END
              | quoted-id (dot quoted-id | dot star)* | number | string | placeholder | word

   Mentions no model definition. *)
From PT Require Import Base.Str Model.Types Ref.Lexer.
Open Scope N_scope.

Inductive sx :=
  | SAtom (ts : list ltok)
  | SNeg (e : sx)
  | SBin (op : str) (l r : sx)          (* arithmetic, comparison, LIKE family, AND OR XOR: the operator text *)
  | SNot (e : sx)
  | SIsNull (neg : bool) (e : sx)
  | SIn (neg : bool) (e : sx) (items : list sx)
  | SBetween (neg : bool) (e lo hi : sx)
  | SCall (name : str) (distinct : bool) (args : list sx)
  | SCase (whens : list (sx * sx)) (els : option sx)
  | SQuery (ts : list ltok).            (* a parenthesised sub-query, kept as its tokens *)

Definition upper (c : char) : char := if (97 <=? c) && (c <=? 122) then c - 32 else c.
Definition is_kw (t : ltok) (k : string) : bool :=
  match t with TWord w => seqb (map upper w) (L k) | _ => false end.
Definition is_op (t : ltok) (k : string) : bool := match t with TOp o => seqb o (L k) | _ => false end.

Definition reserved : list str :=
  [L "AND"; L "OR"; L "XOR"; L "NOT"; L "IS"; L "IN"; L "BETWEEN"; L "LIKE"; L "ILIKE"; L "RLIKE"; L "REGEX"; L "GLOB";
   L "CASE"; L "WHEN"; L "THEN"; L "ELSE"; L "END"; L "SELECT"; L "FROM"; L "WHERE"; L "AS"; L "ON"; L "JOIN"; L "GROUP"; L "ORDER";
   L "HAVING"; L "LIMIT"; L "OFFSET"; L "UNION"; L "DISTINCT"; L "BINARY"; L "OF"].
Definition is_reserved (w : str) : bool := existsb (seqb (map upper w)) reserved.

Definition cmp_ops : list str := [L "="; L "<>"; L "<"; L "<="; L ">"; L ">="; L "!="].
Definition like_kws : list str := [L "LIKE"; L "ILIKE"; L "RLIKE"; L "REGEX"; L "GLOB"].

(* the tokens of a balanced parenthesised group, given the tokens after the opening "(": (inside, rest) *)
Fixpoint balanced_group (depth : nat) (ts : list ltok) (acc : list ltok) : option (list ltok * list ltok) :=
  match ts with
  | [] => None
  | t :: r =>
    if is_op t "(" then balanced_group (S depth) r (t :: acc)
    else if is_op t ")" then
      match depth with
      | O => Some (rev acc, r)
      | S d => balanced_group d r (t :: acc)
      end
    else balanced_group depth r (t :: acc)
  end.

(* a dotted name, possibly ending in dot star *)
Fixpoint dotted (ts : list ltok) (acc : list ltok) : list ltok * list ltok :=
  match ts with
  | TOp o :: TQId n :: r => if seqb o (L ".") then dotted r (TQId n :: TOp o :: acc) else (rev acc, ts)
  | TOp o :: TOp s :: r => if seqb o (L ".") && seqb s (L "*") then (rev (TOp s :: TOp o :: acc), r) else (rev acc, ts)
  | _ => (rev acc, ts)
  end.

Section Parse.

Inductive level := LOr | LXor | LAnd | LNot | LPred | LAdd | LMul | LUn.

(* one fuel-indexed function for all levels: p f lvl ts *)
Fixpoint p (fuel : nat) (lvl : level) (ts : list ltok) {struct fuel} : option (sx * list ltok) :=
  match fuel with
  | O => None
  | S f =>
    let chain (ops : ltok -> option str) (sub : level) :=
      (* sub followed by any number of (op sub), left associative *)
      match p f sub ts with
      | None => None
      | Some (e0, r0) =>
        (fix loop (n : nat) (e : sx) (r : list ltok) {struct n} : option (sx * list ltok) :=
           match n with
           | O => None
           | S n' =>
             match r with
             | t :: r' =>
               match ops t with
               | Some o => match p f sub r' with
                           | Some (e', r'') => loop n' (SBin o e e') r''
                           | None => None
                           end
               | None => Some (e, r)
               end
             | [] => Some (e, r)
             end
           end) (S (length r0)) e0 r0
      end in
    let list_of (sub : level) :=      (* comma separated expressions up to the closing parenthesis *)
      (fix items (n : nat) (r : list ltok) (acc : list sx) {struct n} : option (list sx * list ltok) :=
         match n with
         | O => None
         | S n' =>
           match p f sub r with
           | Some (e, t :: r') =>
               if is_op t "," then items n' r' (e :: acc)
               else if is_op t ")" then Some (rev (e :: acc), r')
               else None
           | _ => None
           end
         end) in
    match lvl with
    | LOr => chain (fun t => if is_kw t "OR" then Some (L "OR") else None) LXor
    | LXor => chain (fun t => if is_kw t "XOR" then Some (L "XOR") else None) LAnd
    | LAnd => chain (fun t => if is_kw t "AND" then Some (L "AND") else None) LNot
    | LNot =>
      match ts with
      | t :: r => if is_kw t "NOT" then match p f LNot r with Some (e, r') => Some (SNot e, r') | None => None end
                  else p f LPred ts
      | [] => None
      end
    | LPred =>
      match p f LAdd ts with
      | None => None
      | Some (e, r) =>
        let '(neg, r1) := match r with t :: r' => if is_kw t "NOT" then (true, r') else (false, r) | [] => (false, r) end in
        match r1 with
        | t :: r2 =>
          if negb neg && (match t with TOp o => existsb (seqb o) cmp_ops | _ => false end) then
            match p f LAdd r2 with
            | Some (e', r3) => Some (SBin (match t with TOp o => o | _ => [] end) e e', r3)
            | None => None
            end
          else if negb neg && is_kw t "IS" then
            match r2 with
            | a :: b :: r3 => if is_kw a "NOT" && is_kw b "NULL" then Some (SIsNull true e, r3)
                              else if is_kw a "NULL" then Some (SIsNull false e, b :: r3) else None
            | [a] => if is_kw a "NULL" then Some (SIsNull false e, []) else None
            | [] => None
            end
          else if is_kw t "IN" then
            match r2 with
            | o :: r3 =>
              if is_op o "(" then
                match r3 with
                | s :: _ =>
                  if is_kw s "SELECT" then
                    match balanced_group 0 r3 [] with Some (inside, r4) => Some (SIn neg e [SQuery inside], r4) | None => None end
                  else if is_op s ")" then Some (SIn neg e [], tl r3)
                  else match list_of LOr (S (length r3)) r3 [] with Some (its, r4) => Some (SIn neg e its, r4) | None => None end
                | [] => None
                end
              else None
            | [] => None
            end
          else if is_kw t "BETWEEN" then
            match p f LAdd r2 with
            | Some (lo, a :: r3) =>
              if is_kw a "AND" then match p f LAdd r3 with Some (hi, r4) => Some (SBetween neg e lo hi, r4) | None => None end else None
            | _ => None
            end
          else if (match t with TWord w => existsb (seqb (map upper w)) like_kws | _ => false end) then
            let '(bin, r2') := match r2 with b :: r' => if is_kw b "BINARY" then (true, r') else (false, r2) | [] => (false, r2) end in
            match p f LAdd r2' with
            | Some (e', r3) =>
                Some (SBin ((if neg then L "NOT " else []) ++ (match t with TWord w => map upper w | _ => [] end) ++ (if bin then L " BINARY" else []))
                           e e', r3)
            | None => None
            end
          else if neg then None else Some (e, r)
        | [] => if neg then None else Some (e, r)
        end
      end
    | LAdd => chain (fun t => if is_op t "+" then Some (L "+") else if is_op t "-" then Some (L "-") else None) LMul
    | LMul => chain (fun t => if is_op t "*" then Some (L "*") else if is_op t "/" then Some (L "/") else None) LUn
    | LUn =>
      match ts with
      | [] => None
      | t :: r =>
        if is_op t "-" then match p f LUn r with Some (e, r') => Some (SNeg e, r') | None => None end
        else if is_op t "(" then
          match r with
          | s :: _ =>
            if is_kw s "SELECT" then
              match balanced_group 0 r [] with Some (inside, r') => Some (SQuery inside, r') | None => None end
            else
              match p f LOr r with
              | Some (e, c :: r') => if is_op c ")" then Some (e, r') else None
              | _ => None
              end
          | [] => None
          end
        else match t with
          | TQId _ => let '(nm, r') := dotted r [t] in Some (SAtom nm, r')
          | TNum _ | TStr _ | TPh _ => Some (SAtom [t], r)
          | TWord w =>
            if is_kw t "CASE" then
              (fix whens (n : nat) (r0 : list ltok) (acc : list (sx * sx)) {struct n} : option (sx * list ltok) :=
                 match n with
                 | O => None
                 | S n' =>
                   match r0 with
                   | k :: r1 =>
                     if is_kw k "WHEN" then
                       match p f LOr r1 with
                       | Some (cnd, th :: r2) =>
                         if is_kw th "THEN" then
                           match p f LOr r2 with
                           | Some (v, r3) => whens n' r3 ((cnd, v) :: acc)
                           | None => None
                           end
                         else None
                       | _ => None
                       end
                     else if is_kw k "ELSE" then
                       match p f LOr r1 with
                       | Some (v, e :: r2) => if is_kw e "END" then (match acc with [] => None | _ => Some (SCase (rev acc) (Some v), r2) end) else None
                       | _ => None
                       end
                     else if is_kw k "END" then (match acc with [] => None | _ => Some (SCase (rev acc) None, r1) end)
                     else None
                   | [] => None
                   end
                 end) (S (length r)) r []
            else if is_reserved w then None
            else match r with
              | o :: r1 =>
                if is_op o "(" then
                  (* function call *)
                  let '(dist, r2) := match r1 with d :: r' => if is_kw d "DISTINCT" then (true, r') else (false, r1) | [] => (false, r1) end in
                  match r2 with
                  | c :: r3 =>
                    if is_op c ")" then Some (SCall (map upper w) dist [], r3)
                    else if is_op c "*" then
                      match r3 with c2 :: r4 => if is_op c2 ")" then Some (SCall (map upper w) dist [SAtom [c]], r4) else None | [] => None end
                    else match list_of LOr (S (length r2)) r2 [] with
                         | Some (args, r4) => Some (SCall (map upper w) dist args, r4)
                         | None => None
                         end
                  | [] => None
                  end
                else Some (SAtom [TWord (map upper w)], r)
              | [] => Some (SAtom [TWord (map upper w)], r)
              end
          | _ => None
          end
      end
    end
  end.

End Parse.

Definition parse_expr (ts : list ltok) : option sx :=
  match p (4 * S (length ts) + 20) LOr ts with
  | Some (e, []) => Some e
  | _ => None
  end.

(* ---------- equality and the normal form modulo the permitted re-associations ---------- *)
Fixpoint sx_eqb (a b : sx) {struct a} : bool :=
  let fix list_eqb (x y : list sx) {struct x} : bool :=
      match x, y with
      | [], [] => true
      | u :: x', v :: y' => sx_eqb u v && list_eqb x' y'
      | _, _ => false
      end in
  let fix pairs_eqb (x y : list (sx * sx)) {struct x} : bool :=
      match x, y with
      | [], [] => true
      | (u1, u2) :: x', (v1, v2) :: y' => sx_eqb u1 v1 && sx_eqb u2 v2 && pairs_eqb x' y'
      | _, _ => false
      end in
  match a, b with
  | SAtom x, SAtom y => ltoks_eqb x y
  | SNeg x, SNeg y => sx_eqb x y
  | SBin o x1 x2, SBin o' y1 y2 => seqb o o' && sx_eqb x1 y1 && sx_eqb x2 y2
  | SNot x, SNot y => sx_eqb x y
  | SIsNull n x, SIsNull n' y => Bool.eqb n n' && sx_eqb x y
  | SIn n x xs, SIn n' y ys => Bool.eqb n n' && sx_eqb x y && list_eqb xs ys
  | SBetween n x x1 x2, SBetween n' y y1 y2 => Bool.eqb n n' && sx_eqb x y && sx_eqb x1 y1 && sx_eqb x2 y2
  | SCall f d xs, SCall g d' ys => seqb f g && Bool.eqb d d' && list_eqb xs ys
  | SCase ws e, SCase ws' e' =>
      pairs_eqb ws ws' && match e, e' with Some x, Some y => sx_eqb x y | None, None => true | _, _ => false end
  | SQuery x, SQuery y => ltoks_eqb x y
  | _, _ => false
  end.

(* signed flattening of a plus/minus chain: x+(y-z) and (x+y)-z agree, x-(y+z) is [+x,-y,-z] *)
Fixpoint addends (neg : bool) (e : sx) : list (bool * sx) :=
  match e with
  | SBin o l r =>
      if seqb o (L "+") then addends neg l ++ addends neg r
      else if seqb o (L "-") then addends neg l ++ addends (negb neg) r
      else [(neg, e)]
  | _ => [(neg, e)]
  end.
Fixpoint factors (e : sx) : list sx :=
  match e with
  | SBin o l r => if seqb o (L "*") then factors l ++ factors r else [e]
  | _ => [e]
  end.
Fixpoint chain_of (c : str) (e : sx) : list sx :=
  match e with
  | SBin o l r => if seqb o c then chain_of c l ++ chain_of c r else [e]
  | _ => [e]
  end.

Definition rebuild_sum (l : list (bool * sx)) : sx :=
  match l with
  | [] => SAtom []
  | (s0, e0) :: r => fold_left (fun (acc : sx) (se : bool * sx) => SBin (if fst se then L "-" else L "+") acc (snd se)) r
                               (if s0 then SNeg e0 else e0)
  end.
Definition rebuild_chain (o : str) (l : list sx) : sx :=
  match l with
  | [] => SAtom []
  | e0 :: r => fold_left (fun (acc e : sx) => SBin o acc e) r e0
  end.

Definition is_conn (o : str) : bool := seqb o (L "AND") || seqb o (L "OR") || seqb o (L "XOR").

(* nf: normalise children first, then flatten the node's own chain and rebuild it left-nested *)
Fixpoint nf (e : sx) : sx :=
  match e with
  | SAtom _ | SQuery _ => e
  | SNeg x => SNeg (nf x)
  | SNot x => SNot (nf x)
  | SIsNull n x => SIsNull n (nf x)
  | SIn n x xs => SIn n (nf x) (map nf xs)
  | SBetween n x a b => SBetween n (nf x) (nf a) (nf b)
  | SCall f d xs => SCall f d (map nf xs)
  | SCase ws el => SCase (map (fun w => (nf (fst w), nf (snd w))) ws) (match el with Some x => Some (nf x) | None => None end)
  | SBin o l r =>
      let e' := SBin o (nf l) (nf r) in
      if seqb o (L "+") || seqb o (L "-") then rebuild_sum (addends false e')
      else if seqb o (L "*") then rebuild_chain o (factors e')
      else if is_conn o then rebuild_chain o (chain_of o e')
      else e'
  end.

Definition same_grouping (a b : sx) : bool := sx_eqb (nf a) (nf b).

(* Model/Types.v — the enumerations and the context record shared by Gen/ (generated values)
   and Model/ (hand-written semantics).  Only types and decidable equalities. *)

From PT Require Import Base.Str.


Inductive dial := VERTICA | CLICKHOUSE | ORACLE | MSSQL | MYSQL | POSTGRESQL | REDSHIFT | SQLITE | SNOWFLAKE.
Inductive bcls := BGeneric | BMySQL | BPostgreSQL | BSQLite | BMSSQL | BOracle.   (* query-builder class *)
Inductive wcls := WPlain | WMySQL | WSQLite.                                       (* ValueWrapper class *)

Definition dial_eqb (a b : dial) : bool :=
  match a, b with
  | VERTICA, VERTICA | CLICKHOUSE, CLICKHOUSE | ORACLE, ORACLE | MSSQL, MSSQL | MYSQL, MYSQL
  | POSTGRESQL, POSTGRESQL | REDSHIFT, REDSHIFT | SQLITE, SQLITE | SNOWFLAKE, SNOWFLAKE => true
  | _, _ => false
  end.

Definition all_dials := [VERTICA; CLICKHOUSE; ORACLE; MSSQL; MYSQL; POSTGRESQL; REDSHIFT; SQLITE; SNOWFLAKE].
Definition all_bcls := [BGeneric; BMySQL; BPostgreSQL; BSQLite; BMSSQL; BOracle].

Record ctx := MkCtx {
  quote_char : str; secondary_quote_char : str; alias_quote_char : str;   (* Python strings; "" allowed *)
  dialect : dial;
  as_keyword : bool; subquery : bool; with_alias : bool; with_namespace : bool; subcriterion : bool;
  groupby_alias : bool; orderby_alias : bool }.
(* SqlContext.parameterizer is not a field: the parameterizer is threaded explicitly (pz). *)

Definition set_subquery (b : bool) (c : ctx) : ctx :=
  MkCtx (quote_char c) (secondary_quote_char c) (alias_quote_char c) (dialect c) (as_keyword c) b (with_alias c)
        (with_namespace c) (subcriterion c) (groupby_alias c) (orderby_alias c).
Definition set_with_alias (b : bool) (c : ctx) : ctx :=
  MkCtx (quote_char c) (secondary_quote_char c) (alias_quote_char c) (dialect c) (as_keyword c) (subquery c) b
        (with_namespace c) (subcriterion c) (groupby_alias c) (orderby_alias c).
Definition set_with_namespace (b : bool) (c : ctx) : ctx :=
  MkCtx (quote_char c) (secondary_quote_char c) (alias_quote_char c) (dialect c) (as_keyword c) (subquery c) (with_alias c)
        b (subcriterion c) (groupby_alias c) (orderby_alias c).
Definition set_subcriterion (b : bool) (c : ctx) : ctx :=
  MkCtx (quote_char c) (secondary_quote_char c) (alias_quote_char c) (dialect c) (as_keyword c) (subquery c) (with_alias c)
        (with_namespace c) b (groupby_alias c) (orderby_alias c).
Definition set_groupby_alias (b : bool) (c : ctx) : ctx :=
  MkCtx (quote_char c) (secondary_quote_char c) (alias_quote_char c) (dialect c) (as_keyword c) (subquery c) (with_alias c)
        (with_namespace c) (subcriterion c) b (orderby_alias c).
Definition set_as_keyword (b : bool) (c : ctx) : ctx :=
  MkCtx (quote_char c) (secondary_quote_char c) (alias_quote_char c) (dialect c) b (subquery c) (with_alias c)
        (with_namespace c) (subcriterion c) (groupby_alias c) (orderby_alias c).
Definition set_dialect_quote (d : dial) (q : str) (c : ctx) : ctx :=
  MkCtx q (secondary_quote_char c) (alias_quote_char c) d (as_keyword c) (subquery c) (with_alias c)
        (with_namespace c) (subcriterion c) (groupby_alias c) (orderby_alias c).

Inductive arith := Add | Sub | Mul | Div.
Inductive equality := Eq | Ne | Gt | Gte | Lt | Lte.
Inductive matching := NotLike | Like | NotILike | ILike | RLike | Regex | BinRegex | AsOf | Glob.
Inductive conn := And | Or | Xor.
Inductive order := Asc | Desc.
Inductive jointype := JInner | JLeft | JRight | JOuter | JLeftOuter | JRightOuter | JFullOuter | JCross | JHash.
Inductive setop := Union | UnionAll | Intersect | ExceptOf | Minus.
Inductive datepart := DYear | DQuarter | DMonth | DWeek | DDay | DHour | DMinute | DSecond | DMicrosecond.
Inductive jsonop := JHasKey | JContains | JContainedBy | JHasKeys | JHasAnyKeys | JGetJson | JGetText | JGetPathJson | JGetPathText.

Definition arith_eqb (a b : arith) : bool :=
  match a, b with Add, Add | Sub, Sub | Mul, Mul | Div, Div => true | _, _ => false end.
Definition conn_eqb (a b : conn) : bool :=
  match a, b with And, And | Or, Or | Xor, Xor => true | _, _ => false end.

(* placeholder styles of Parameter.IDX_PLACEHOLDERS *)
Inductive phstyle := PhConst (s : str) | PhNumbered (prefix : str).

(* what `getattr(side, "operator", None)` yields for an operand of an ArithmeticExpression:
   None, an Arithmetic member, or some other object (a Field made up by Selectable.__getattr__),
   which is not None and compares "equal" to everything because Term.__eq__ returns a truthy
   criterion object *)
Inductive opattr := ONone | OArith (a : arith) | OTruthy.
Definition opattr_is_none (o : opattr) : bool := match o with ONone => true | _ => false end.
Definition arith_in (a : arith) (l : list arith) : bool := existsb (arith_eqb a) l.
Definition opattr_eq (o : opattr) (a : arith) : bool :=
  match o with ONone => false | OArith b => arith_eqb b a | OTruthy => true end.
Definition opattr_in (o : opattr) (l : list arith) : bool := existsb (opattr_eq o) l.
(* the operand of a ComplexCriterion, as far as needs_brackets looks at it *)
Definition child_is_complex (c : option conn) : bool := match c with Some _ => true | None => false end.
Definition child_conn_eq (c : option conn) (self : conn) : bool := match c with Some x => conn_eqb x self | None => false end.

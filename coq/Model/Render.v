(* Model/Render.v — executable model of every get_sql / _*_sql method: one structurally recursive
   family `render` mirroring the Python code one-to-one, including each ctx.copy(...), the dialect
   overrides (selected by the builder class of the statement) and the parameterizer threaded in
   EVALUATION order.  Parenthesisation decisions come from Gen/Prec.v, operator spellings from
   Gen/Enums.v, contexts from Gen/Ctx.v, placeholders from Gen/Placeholders.v.  No proofs. *)
From PT Require Import Base.Str Model.Types Model.Value Model.Interval Model.Syntax
     Gen.Ctx Gen.Enums Gen.Prec Gen.Placeholders.
Open Scope N_scope.

Inductive exn := ECase | ESetOp | EQueryExn | EAttr.
Inductive res (A : Type) := Ok (a : A) | Exn (e : exn).
Arguments Ok {A} a. Arguments Exn {A} e.

Notation "'do' x <- m ; k" := (match m with Ok x => k | Exn e => Exn e end)
  (at level 200, x pattern, m at level 100, k at level 200).

(* the parameterizer: an optional placeholder factory and the identities of the values seen *)
Record pzs := MkPz { pz_factory : option phstyle; pz_vals : list str }.
Definition pz := option pzs.

Definition ph_text (st : phstyle) (n : N) : str :=
  match st with PhConst s => s | PhNumbered pre => pre ++ N_to_str n end.

(* Parameterizer.create_param + Parameter.get_sql *)
Definition create_param (c : ctx) (z : pzs) (vid : str) : str * pzs :=
  let vals := pz_vals z ++ [vid] in
  let n := N.of_nat (length vals) in
  let txt := match pz_factory z with
             | Some st => ph_text st n
             | None => ph_text (placeholder_style (dialect c)) n
             end in
  (txt, MkPz (pz_factory z) vals).

Definition str_truthy (o : option str) : bool := match o with Some (_ :: _) => true | _ => false end.
Definition ostr (o : option str) : str := match o with Some s => s | None => L "None" end.

Definition alias_q (c : ctx) : str := match alias_quote_char c with [] => quote_char c | aq => aq end.

(* utils.format_alias_sql *)
Definition alias_sql (c : ctx) (sql : str) (a : option str) : str :=
  match a with
  | None => sql
  | Some al => sql ++ (if as_keyword c then L " AS " else L " ") ++ fquote (alias_q c) al
  end.
Definition alias_if (b : bool) (c : ctx) (sql : str) (a : option str) : str := if b then alias_sql c sql a else sql.

(* Selectable.get_table_name / Table.get_table_name *)
Definition qualifier (r : tref) : str :=
  if tr_istable r then (if str_truthy (tr_alias r) then ostr (tr_alias r) else tr_name r)
  else ostr (tr_alias r).

Definition schema_sql (c : ctx) (sch : list str) : str := join [46] (map (fquote (quote_char c)) sch).

Definition cmp_sql (o : cmpop) : str :=
  match o with CEq e => equality_sql e | CMatch m => matching_sql m | CJson j => jsonop_sql j | CRaw t => t end.

Definition paren (s : str) : str := [40] ++ s ++ [41].
Definition starts_minus (s : str) : bool := match s with c :: _ => c =? 45 | [] => false end.
Definition paren_if (b : bool) (s : str) : str := if b then paren s else s.

(* getattr(side, "operator", None) *)
Fixpoint op_of (t : term) : opattr :=
  match t with
  | TArith op _ _ _ => OArith op
  | TNot t' _ => op_of t'                      (* Not.__getattr__ delegates to the wrapped term *)
  | TQuery _ | TSetOp _ _ _ _ _ _ | TTable _ _ _ | TAliased _ _ => OTruthy   (* Selectable.__getattr__ makes up a Field *)
  | _ => ONone
  end.

(* _is_negative_constant: a ValueWrapper holding a negative int / float / Decimal (not a bool) *)
Definition is_neg_const (t : term) : bool :=
  match t with
  | TVal _ (VInt (Zneg _)) _ _ _ => true
  | TVal _ (VNumText (45 :: _)) _ _ _ => true
  | _ => false
  end.

(* _leads_with_minus *)
Definition conn_of (t : term) : option conn := match t with TComplex c _ _ _ => Some c | _ => None end.

Fixpoint leads_minus (t : term) : bool :=
  match t with
  | TNeg _ _ => true
  | TArith op l _ _ => if left_needs_parens op (op_of l) then false else leads_minus l
  (* a criterion used as an operand begins with the text of its first operand *)
  | TComplex c l _ _ => if needs_brackets c (conn_of l) then false else leads_minus l
  | TBasic _ l _ _ | TNested _ _ l _ _ _ => leads_minus l
  | TContains t' _ _ _ | TBetween t' _ _ _ | TIsNull t' _ => leads_minus t'
  | _ => is_neg_const t
  end.

Fixpoint terms_len (l : terms) : nat := match l with TNil => 0%nat | TCons _ r => S (terms_len r) end.
Fixpoint aliases_of (l : terms) : list (option str) := match l with TNil => [] | TCons t r => term_alias t :: aliases_of r end.
Definition alias_selected (a : option str) (sel : list (option str)) : bool :=
  match a with
  | Some (x :: xs) => existsb (fun o => match o with Some y => seqb (x :: xs) y | None => false end) sel
  | _ => false
  end.

Definition query_selects_len (q : query) : nat :=
  match q with MkQ _ _ _ _ selects _ _ _ _ _ _ _ _ _ _ _ _ _ _ _ _ _ _ _ _ _ => terms_len selects end.
Definition query_cls (q : query) : bcls :=
  match q with MkQ cls _ _ _ _ _ _ _ _ _ _ _ _ _ _ _ _ _ _ _ _ _ _ _ _ _ => cls end.
Definition query_select_aliases (q : query) : list (option str) :=
  match q with MkQ _ _ _ _ selects _ _ _ _ _ _ _ _ _ _ _ _ _ _ _ _ _ _ _ _ _ => aliases_of selects end.
Definition query_wrap_setops (q : query) : bool :=
  match q with MkQ _ (MkFl _ _ _ _ _ _ _ _ _ _ _ _ _ w _ _ _ _) _ _ _ _ _ _ _ _ _ _ _ _ _ _ _ _ _ _ _ _ _ _ _ _ => w end.

(* an operand with its own ORDER BY / LIMIT / OFFSET *)
Definition query_has_tail (q : query) : bool :=
  match q with MkQ _ _ _ _ _ _ _ _ _ _ _ _ _ orderbys _ lim off _ _ _ _ _ _ _ _ _ =>
    (match orderbys with ONil => false | _ => true end) || (match lim with NoT => false | _ => true end) || (match off with NoT => false | _ => true end)
  end.

Definition is_nonempty_terms (l : terms) : bool := match l with TNil => false | _ => true end.
Definition is_some_t (o : oterm) : bool := match o with NoT => false | SomeT _ => true end.
Definition from_len_gt1 (l : terms) : bool := match l with TCons _ (TCons _ _) => true | _ => false end.
Definition from0_is_query (l : terms) : bool := match l with TCons (TQuery _) _ => true | _ => false end.

(* QueryBuilder._with_sql marks the clause RECURSIVE when `body.from_ in [names]` is truthy: for a builder body `from_` is a bound method (never
   equal to a name); for any other body (a set operation, a table) the attribute lookup builds a Field, whose == is a criterion object - truthy *)
Fixpoint ctes_recursive (l : ctes) : bool :=
  match l with WNil => false | WCons _ (TQuery _) _ r => ctes_recursive r | WCons _ _ _ _ => true end.

Definition opt_app (o : option str) : str := match o with Some s => s | None => [] end.

(* the resolved GROUP BY entry: SomeT s when the item's alias is one of the selected aliases and s is
   the first select carrying it (resolved by the dumper, re-checked by gb_consistent) *)

(* Table.get_sql, given the already rendered temporal criteria *)
Definition table_text (c : ctx) (r : tref) (ofor ofp : option str) (alias : option str) : str :=
  let s := fquote (quote_char c) (tr_name r) in
  let s := match tr_schema r with [] => s | sch => schema_sql c sch ++ [46] ++ s end in
  match ofor with
  | Some f => alias_sql c (s ++ L " FOR " ++ f) alias
  | None => match ofp with
            | Some f => alias_sql c (s ++ L " FOR PORTION OF " ++ f) alias
            | None => alias_sql c s alias
            end
  end.

Section Render.

(* in-place helpers for the monad on lists *)
Definition ret {A} (a : A) (p : pz) : res (A * pz) := Ok (a, p).

(* ---- the body of QueryBuilder.get_sql (and its dialect overrides), clause by clause ----
   A Section over the recursive renderers (bound to the Fixpoint below) and over the fields of the statement,
   so that every clause is a top-level definition theorems can speak about; the two flags of the embedding
   position (subquery, with_alias) are explicit arguments of tail_with / generic_with / main_with. *)
(* ---- _SetOperation.get_sql ---- *)
Section SetOp.
Variables
  (render_query : ctx -> pz -> query -> res (str * pz))
  (render_sops : ctx -> nat -> pz -> sops -> res (str * pz))
  (render_obys : ctx -> list (option str) -> bool -> pz -> obys -> res (list str * pz))
  (render_o : ctx -> pz -> oterm -> res (option str * pz)).

(* the flags of the embedding position decide only about the parentheses and the alias around the whole set operation *)
Definition setop_ctx (c : ctx) : ctx :=
  let cn := set_with_namespace false (set_subquery false (set_with_alias false (set_subcriterion false c))) in
  match dialect cn with MSSQL | ORACLE => set_groupby_alias false cn | _ => cn end.

(* operands, ORDER BY and row limit *)
Definition setop_body (c1 : ctx) (p : pz) (base : query) (ops : sops) (obs : obys) (lim off : oterm) : res (str * pz) :=
      let set_ctx := set_subquery (query_wrap_setops base && negb (dial_eqb (dialect c1) MYSQL)) c1 in
      do (sb, p1) <- render_query (if query_has_tail base then set_subquery true set_ctx else set_ctx) p base;
      do (sops_, p2) <- render_sops set_ctx (query_selects_len base) p1 ops;
      let s := sb ++ sops_ in
      do (sob, p3) <- render_obys c1 (query_select_aliases base) false p2 obs;
      let s := match sob with [] => s | _ => s ++ L " ORDER BY " ++ join [44] sob end in
      do (spag, p5) <-
        (match lim, off with
         | NoT, NoT => Ok ([], p3)
         | _, _ =>
           match dialect c1 with
           | MSSQL =>
               do (oo, p4) <- render_o c1 p3 off;
               do (ol, p5) <- render_o c1 p4 lim;
               Ok ((match sob with [] => L " ORDER BY (SELECT 0)" | _ => [] end) ++ L " OFFSET " ++
                   (match oo with Some o => o | None => L "0" end) ++ L " ROWS" ++
                   (match ol with Some l => L " FETCH NEXT " ++ l ++ L " ROWS ONLY" | None => [] end), p5)
           | ORACLE =>
               do (oo, p4) <- render_o c1 p3 off;
               do (ol, p5) <- render_o c1 p4 lim;
               Ok ((match oo with Some o => L " OFFSET " ++ o ++ L " ROWS" | None => [] end) ++
                   (match ol with Some l => L " FETCH NEXT " ++ l ++ L " ROWS ONLY" | None => [] end), p5)
           | _ =>
               do (ol, p4) <- render_o c1 p3 lim;
               do (oo, p5) <- render_o c1 p4 off;
               Ok ((match ol with Some l => L " LIMIT " ++ l | None => [] end) ++
                   (match oo with Some o => L " OFFSET " ++ o | None => [] end), p5)
           end
         end);
      Ok (s ++ spag, p5).

Definition setop_render (c : ctx) (p : pz) (base : query) (ops : sops) (obs : obys) (lim off : oterm) (alias : option str) : res (str * pz) :=
  let c1 := setop_ctx c in
  do (s, p5) <- setop_body c1 p base ops obs lim off;
  Ok (alias_if (with_alias c) c1 (paren_if (subquery c) s) alias, p5).
End SetOp.

(* the recursive renderers a statement needs, bundled (bound to the Fixpoint below) *)
Record rens := MkRens {
  r_o : ctx -> pz -> oterm -> res (option str * pz);
  r_ts : ctx -> pz -> terms -> res (list str * pz);
  r_obys : ctx -> list (option str) -> bool -> pz -> obys -> res (list str * pz);
  r_rows : ctx -> pz -> rows -> res (list str * pz);
  r_upds : ctx -> ctx -> pz -> upds -> res (list str * pz);
  r_cupds : ctx -> ctx -> option str -> pz -> cupds -> res (list str * pz);
  r_joins : ctx -> pz -> joins -> res (list str * pz);
  r_ctes : ctx -> pz -> ctes -> res (list str * pz);
  r_gbys : ctx -> pz -> gbys -> res (list str * pz) }.

(* the fields of a statement *)
Definition q_cls (q : query) := match q with MkQ x _ _ _ _ _ _ _ _ _ _ _ _ _ _ _ _ _ _ _ _ _ _ _ _ _ => x end.
Definition q_from (q : query) := match q with MkQ _ _ x _ _ _ _ _ _ _ _ _ _ _ _ _ _ _ _ _ _ _ _ _ _ _ => x end.
Definition q_withs (q : query) := match q with MkQ _ _ _ x _ _ _ _ _ _ _ _ _ _ _ _ _ _ _ _ _ _ _ _ _ _ => x end.
Definition q_selects (q : query) := match q with MkQ _ _ _ _ x _ _ _ _ _ _ _ _ _ _ _ _ _ _ _ _ _ _ _ _ _ => x end.
Definition q_force_idx (q : query) := match q with MkQ _ _ _ _ _ x _ _ _ _ _ _ _ _ _ _ _ _ _ _ _ _ _ _ _ _ => x end.
Definition q_use_idx (q : query) := match q with MkQ _ _ _ _ _ _ x _ _ _ _ _ _ _ _ _ _ _ _ _ _ _ _ _ _ _ => x end.
Definition q_columns (q : query) := match q with MkQ _ _ _ _ _ _ _ x _ _ _ _ _ _ _ _ _ _ _ _ _ _ _ _ _ _ => x end.
Definition q_values (q : query) := match q with MkQ _ _ _ _ _ _ _ _ x _ _ _ _ _ _ _ _ _ _ _ _ _ _ _ _ _ => x end.
Definition q_wheres (q : query) := match q with MkQ _ _ _ _ _ _ _ _ _ x _ _ _ _ _ _ _ _ _ _ _ _ _ _ _ _ => x end.
Definition q_prewheres (q : query) := match q with MkQ _ _ _ _ _ _ _ _ _ _ x _ _ _ _ _ _ _ _ _ _ _ _ _ _ _ => x end.
Definition q_havings (q : query) := match q with MkQ _ _ _ _ _ _ _ _ _ _ _ x _ _ _ _ _ _ _ _ _ _ _ _ _ _ => x end.
Definition q_groupbys (q : query) := match q with MkQ _ _ _ _ _ _ _ _ _ _ _ _ x _ _ _ _ _ _ _ _ _ _ _ _ _ => x end.
Definition q_orderbys (q : query) := match q with MkQ _ _ _ _ _ _ _ _ _ _ _ _ _ x _ _ _ _ _ _ _ _ _ _ _ _ => x end.
Definition q_joins_ (q : query) := match q with MkQ _ _ _ _ _ _ _ _ _ _ _ _ _ _ x _ _ _ _ _ _ _ _ _ _ _ => x end.
Definition q_lim (q : query) := match q with MkQ _ _ _ _ _ _ _ _ _ _ _ _ _ _ _ x _ _ _ _ _ _ _ _ _ _ => x end.
Definition q_off (q : query) := match q with MkQ _ _ _ _ _ _ _ _ _ _ _ _ _ _ _ _ x _ _ _ _ _ _ _ _ _ => x end.
Definition q_updates (q : query) := match q with MkQ _ _ _ _ _ _ _ _ _ _ _ _ _ _ _ _ _ x _ _ _ _ _ _ _ _ => x end.
Definition q_insert_table (q : query) := match q with MkQ _ _ _ _ _ _ _ _ _ _ _ _ _ _ _ _ _ _ x _ _ _ _ _ _ _ => x end.
Definition q_update_table (q : query) := match q with MkQ _ _ _ _ _ _ _ _ _ _ _ _ _ _ _ _ _ _ _ x _ _ _ _ _ _ => x end.
Definition q_conflict_fields (q : query) := match q with MkQ _ _ _ _ _ _ _ _ _ _ _ _ _ _ _ _ _ _ _ _ x _ _ _ _ _ => x end.
Definition q_conflict_updates (q : query) := match q with MkQ _ _ _ _ _ _ _ _ _ _ _ _ _ _ _ _ _ _ _ _ _ x _ _ _ _ => x end.
Definition q_conflict_wheres (q : query) := match q with MkQ _ _ _ _ _ _ _ _ _ _ _ _ _ _ _ _ _ _ _ _ _ _ x _ _ _ => x end.
Definition q_conflict_update_wheres (q : query) := match q with MkQ _ _ _ _ _ _ _ _ _ _ _ _ _ _ _ _ _ _ _ _ _ _ _ x _ _ => x end.
Definition q_returns (q : query) := match q with MkQ _ _ _ _ _ _ _ _ _ _ _ _ _ _ _ _ _ _ _ _ _ _ _ _ x _ => x end.
Definition q_distinct_on (q : query) := match q with MkQ _ _ _ _ _ _ _ _ _ _ _ _ _ _ _ _ _ _ _ _ _ _ _ _ _ x => x end.
Definition q_alias (q : query) := match q with MkQ _ (MkFl x _ _ _ _ _ _ _ _ _ _ _ _ _ _ _ _ _) _ _ _ _ _ _ _ _ _ _ _ _ _ _ _ _ _ _ _ _ _ _ _ _ => x end.
Definition q_delete_from (q : query) := match q with MkQ _ (MkFl _ x _ _ _ _ _ _ _ _ _ _ _ _ _ _ _ _) _ _ _ _ _ _ _ _ _ _ _ _ _ _ _ _ _ _ _ _ _ _ _ _ => x end.
Definition q_replace_ (q : query) := match q with MkQ _ (MkFl _ _ x _ _ _ _ _ _ _ _ _ _ _ _ _ _ _) _ _ _ _ _ _ _ _ _ _ _ _ _ _ _ _ _ _ _ _ _ _ _ _ => x end.
Definition q_distinct (q : query) := match q with MkQ _ (MkFl _ _ _ x _ _ _ _ _ _ _ _ _ _ _ _ _ _) _ _ _ _ _ _ _ _ _ _ _ _ _ _ _ _ _ _ _ _ _ _ _ _ => x end.
Definition q_for_update (q : query) := match q with MkQ _ (MkFl _ _ _ _ x _ _ _ _ _ _ _ _ _ _ _ _ _) _ _ _ _ _ _ _ _ _ _ _ _ _ _ _ _ _ _ _ _ _ _ _ _ => x end.
Definition q_nowait (q : query) := match q with MkQ _ (MkFl _ _ _ _ _ x _ _ _ _ _ _ _ _ _ _ _ _) _ _ _ _ _ _ _ _ _ _ _ _ _ _ _ _ _ _ _ _ _ _ _ _ => x end.
Definition q_skip_locked (q : query) := match q with MkQ _ (MkFl _ _ _ _ _ _ x _ _ _ _ _ _ _ _ _ _ _) _ _ _ _ _ _ _ _ _ _ _ _ _ _ _ _ _ _ _ _ _ _ _ _ => x end.
Definition q_with_totals (q : query) := match q with MkQ _ (MkFl _ _ _ _ _ _ _ x _ _ _ _ _ _ _ _ _ _) _ _ _ _ _ _ _ _ _ _ _ _ _ _ _ _ _ _ _ _ _ _ _ _ => x end.
Definition q_mysql_rollup (q : query) := match q with MkQ _ (MkFl _ _ _ _ _ _ _ _ x _ _ _ _ _ _ _ _ _) _ _ _ _ _ _ _ _ _ _ _ _ _ _ _ _ _ _ _ _ _ _ _ _ => x end.
Definition q_select_into (q : query) := match q with MkQ _ (MkFl _ _ _ _ _ _ _ _ _ x _ _ _ _ _ _ _ _) _ _ _ _ _ _ _ _ _ _ _ _ _ _ _ _ _ _ _ _ _ _ _ _ => x end.
Definition q_foreign_table (q : query) := match q with MkQ _ (MkFl _ _ _ _ _ _ _ _ _ _ x _ _ _ _ _ _ _) _ _ _ _ _ _ _ _ _ _ _ _ _ _ _ _ _ _ _ _ _ _ _ _ => x end.
Definition q_on_conflict (q : query) := match q with MkQ _ (MkFl _ _ _ _ _ _ _ _ _ _ _ x _ _ _ _ _ _) _ _ _ _ _ _ _ _ _ _ _ _ _ _ _ _ _ _ _ _ _ _ _ _ => x end.
Definition q_do_nothing (q : query) := match q with MkQ _ (MkFl _ _ _ _ _ _ _ _ _ _ _ _ x _ _ _ _ _) _ _ _ _ _ _ _ _ _ _ _ _ _ _ _ _ _ _ _ _ _ _ _ _ => x end.
Definition q_for_update_of (q : query) := match q with MkQ _ (MkFl _ _ _ _ _ _ _ _ _ _ _ _ _ _ x _ _ _) _ _ _ _ _ _ _ _ _ _ _ _ _ _ _ _ _ _ _ _ _ _ _ _ => x end.
Definition q_modifiers (q : query) := match q with MkQ _ (MkFl _ _ _ _ _ _ _ _ _ _ _ _ _ _ _ x _ _) _ _ _ _ _ _ _ _ _ _ _ _ _ _ _ _ _ _ _ _ _ _ _ _ => x end.
Definition q_top (q : query) := match q with MkQ _ (MkFl _ _ _ _ _ _ _ _ _ _ _ _ _ _ _ _ x _) _ _ _ _ _ _ _ _ _ _ _ _ _ _ _ _ _ _ _ _ _ _ _ _ => x end.

(* ---- the body of QueryBuilder.get_sql (and its dialect overrides), clause by clause ----
   Section Q: over the renderers R and the statement q (its fields as local names); has_* / ns depend on q alone.
   Section Clauses: additionally over c0 (the context get_sql was called with, after the dialect override's copy) and
   c (the context of the clauses); the two flags of the embedding position (subquery, with_alias) are explicit
   arguments of tail_with / generic_with / main_with.  q_render ties them together. *)
Section Q.
Variable R : rens.
Variable q : query.
Let render_o := r_o R. Let render_ts := r_ts R. Let render_obys := r_obys R. Let render_rows := r_rows R. Let render_upds := r_upds R.
Let render_cupds := r_cupds R. Let render_joins := r_joins R. Let render_ctes := r_ctes R. Let render_gbys := r_gbys R.
Let cls := q_cls q.
Let from := q_from q.
Let withs := q_withs q.
Let selects := q_selects q.
Let force_idx := q_force_idx q.
Let use_idx := q_use_idx q.
Let columns := q_columns q.
Let values := q_values q.
Let wheres := q_wheres q.
Let prewheres := q_prewheres q.
Let havings := q_havings q.
Let groupbys := q_groupbys q.
Let orderbys := q_orderbys q.
Let joins_ := q_joins_ q.
Let lim := q_lim q.
Let off := q_off q.
Let updates := q_updates q.
Let insert_table := q_insert_table q.
Let update_table := q_update_table q.
Let conflict_fields := q_conflict_fields q.
Let conflict_updates := q_conflict_updates q.
Let conflict_wheres := q_conflict_wheres q.
Let conflict_update_wheres := q_conflict_update_wheres q.
Let returns := q_returns q.
Let distinct_on := q_distinct_on q.
Let alias := q_alias q.
Let delete_from := q_delete_from q.
Let replace_ := q_replace_ q.
Let distinct := q_distinct q.
Let for_update := q_for_update q.
Let nowait := q_nowait q.
Let skip_locked := q_skip_locked q.
Let with_totals := q_with_totals q.
Let mysql_rollup := q_mysql_rollup q.
Let select_into := q_select_into q.
Let foreign_table := q_foreign_table q.
Let on_conflict := q_on_conflict q.
Let do_nothing := q_do_nothing q.
Let for_update_of := q_for_update_of q.
Let modifiers := q_modifiers q.
Let top := q_top q.

Definition has_sel := is_nonempty_terms selects.
Definition has_ins := is_some_t insert_table.
Definition has_upd := is_some_t update_table.
Definition has_vals := match values with RNil => false | _ => true end.
Definition has_updates := match updates with UNil => false | _ => true end.
Definition has_joins := match joins_ with JNil => false | _ => true end.
Definition ns := has_joins || from_len_gt1 from || from0_is_query from || foreign_table || (has_upd && is_nonempty_terms from).
Definition sel_aliases := aliases_of selects.

Section Clauses.
Variables (c0 c : ctx).

Definition with_sql p := match withs with
                      | WNil => Ok ([], p)
                      | _ => do (ss, p1) <- render_ctes c p withs;
                             Ok (L "WITH " ++ (if ctes_recursive withs then L "RECURSIVE " else []) ++ join [44] ss, p1)
                      end.
Definition distinct_sql p :=
        match cls, distinct_on with
        | BPostgreSQL, TCons _ _ =>
            do (ss, p1) <- render_ts (set_with_alias true c) p distinct_on; Ok (L "DISTINCT ON(" ++ join [44] ss ++ L ") ", p1)
        | _, _ => Ok ((if distinct then L "DISTINCT " else []), p)
        end.
Definition select_sql p :=
        do (sd, p1) <- distinct_sql p;
        do (ss, p2) <- render_ts (set_with_alias true (set_subquery true c)) p1 selects;
        let extra := match cls with
                     | BMSSQL => match top with Some z => if Z.eqb z 0 then [] else L "TOP (" ++ Z_to_str z ++ L ") " | None => [] end
                     | BMySQL => match modifiers with [] => [] | _ => join [32] modifiers ++ [32] end
                     | _ => []
                     end in
        Ok (L "SELECT " ++ sd ++ extra ++ join [44] ss, p2).
Definition from_list_sql p (l : terms) := do (ss, p1) <- render_ts (set_with_alias true (set_subquery true c)) p l;
                                       Ok (L " FROM " ++ join [44] ss, p1).
Definition from_sql p := match from with TNil => Ok ([], p) | _ => from_list_sql p from end.
Definition joins_sql p := match joins_ with
                       | JNil => Ok ([], p)
                       | _ => do (ss, p1) <- render_joins c p joins_; Ok ([32] ++ join [32] ss, p1)
                       end.
Definition where_sql p := do (o, p1) <- render_o (set_subquery true c) p wheres;
                       Ok ((match o with Some s => L " WHERE " ++ s | None => [] end), p1).
Definition prewhere_sql p := do (o, p1) <- render_o (set_subquery true c) p prewheres;
                          Ok ((match o with Some s => L " PREWHERE " ++ s | None => [] end), p1).
Definition set_sql p := do (ss, p1) <- render_upds (set_with_namespace false c) (set_subquery true c) p updates; Ok (L " SET " ++ join [44] ss, p1).
Definition orderby_sql_c (cc : ctx) p :=
                         match orderbys with
                         | ONil => Ok ([], p)
                         | _ => do (ss, p1) <- render_obys (set_subquery true cc) sel_aliases true p orderbys; Ok (L " ORDER BY " ++ join [44] ss, p1)
                         end.
Definition orderby_sql := orderby_sql_c c.
Definition limit_kw_sql_c (cc : ctx) p :=
                          do (o, p1) <- render_o cc p lim;
                          Ok ((match o with
                               | Some s => (match cls with BMSSQL | BOracle => L " FETCH NEXT " ++ s ++ L " ROWS ONLY" | _ => L " LIMIT " ++ s end)
                               | None => (* SQLite / MySQL: no OFFSET without LIMIT *)
                                         match cls, off with
                                         | BSQLite, SomeT _ => L " LIMIT -1"
                                         | BMySQL, SomeT _ => L " LIMIT 18446744073709551615"
                                         | _, _ => []
                                         end
                               end), p1).
Definition limit_kw_sql := limit_kw_sql_c c.
Definition offset_kw_sql p :=
        match cls with
        | BMSSQL =>
            do (o, p1) <- render_o c p off;
            Ok ((match orderbys with ONil => L " ORDER BY (SELECT 0)" | _ => [] end) ++ L " OFFSET " ++
                (match o with Some s => s | None => L "0" end) ++ L " ROWS", p1)
        | BOracle => do (o, p1) <- render_o c p off; Ok ((match o with Some s => L " OFFSET " ++ s ++ L " ROWS" | None => [] end), p1)
        | _ => do (o, p1) <- render_o c p off; Ok ((match o with Some s => L " OFFSET " ++ s | None => [] end), p1)
        end.
Definition pagination p :=
        match cls with
        | BMSSQL =>
            do (so, p1) <- (if is_some_t lim || is_some_t off then offset_kw_sql p else Ok ([], p));
            do (sl, p2) <- (if is_some_t lim then limit_kw_sql p1 else Ok ([], p1));
            Ok (so ++ sl, p2)
        | BOracle => do (so, p1) <- offset_kw_sql p; do (sl, p2) <- limit_kw_sql p1; Ok (so ++ sl, p2)
        | _ => do (sl, p1) <- limit_kw_sql p; do (so, p2) <- offset_kw_sql p1; Ok (sl ++ so, p2)
        end.
Definition table_sql (cc : ctx) p (o : oterm) := do (x, p1) <- render_o cc p o; Ok (opt_app x, p1).
Definition on_conflict_sql p :=
        match cls with
        | BMySQL => Ok (alias_sql (set_as_keyword true c) [] alias, p)
        | _ =>
          let no_upd := match conflict_updates with CUNil => true | _ => false end in
          let no_fields := negb (is_nonempty_terms conflict_fields) in
          if negb do_nothing && no_upd then (if no_fields then Ok ([], p) else Exn EQueryExn)
          else if negb no_upd && no_fields then Exn EQueryExn
          else
            do (sf, p1) <- render_ts (set_with_alias true c) p conflict_fields;
            do (ow, p2) <- render_o (set_subquery true c) p1 conflict_wheres;
            Ok (L " ON CONFLICT" ++ (match sf with [] => [] | _ => L " (" ++ join (L ", ") sf ++ L ")" end) ++
                (match ow with Some w => L " WHERE " ++ w | None => [] end), p2)
        end.
Definition on_conflict_action_sql p :=
        let cn := set_with_namespace false c in
        match cls with
        | BMySQL =>
            match conflict_updates with
            | CUNil => Ok ([], p)
            | _ => do (ss, p1) <- render_cupds cn cn (Some (fquote (quote_char c) (ostr alias))) p conflict_updates;
                   Ok (L " ON DUPLICATE KEY UPDATE " ++ join [44] ss, p1)
            end
        | _ =>
            if do_nothing then Ok (L " DO NOTHING", p)
            else match conflict_updates with
                 | CUNil => Ok ([], p)
                 | _ =>
                   do (ss, p1) <- render_cupds cn (set_with_namespace true cn) None p conflict_updates;
                   do (ow, p2) <- render_o (set_with_namespace true (set_subquery true cn)) p1 conflict_update_wheres;
                   Ok (L " DO UPDATE SET " ++ join [44] ss ++ (match ow with Some w => L " WHERE " ++ w | None => [] end), p2)
                 end
        end.
Definition for_update_sql :=
        if for_update then
          L " FOR UPDATE" ++
          (match for_update_of with
           | [] => []
           | l => L " OF " ++ join (L ", ") (map (fun n => fquote (quote_char c) n) l)
           end) ++ (if nowait then L " NOWAIT" else if skip_locked then L " SKIP LOCKED" else [])
        else [].
Definition generic_update p :=
        do (sw, p1) <- with_sql p;
        do (st, p2) <- table_sql c p1 update_table;
        do (sj, p3) <- joins_sql p2;
        do (ss, p4) <- set_sql p3;
        do (sf, p5) <- from_sql p4;
        do (swh, p6) <- where_sql p5;
        Ok (sw ++ L "UPDATE " ++ st ++ sj ++ ss ++ sf ++ swh, p6).
Definition pg_sqlite_update p :=
        do (sw, p1) <- with_sql p;
        do (st, p2) <- table_sql c p1 update_table;
        do (ss, p3) <- set_sql p2;
        (* FROM <from...>[,<update table> AS <name>_] when there are joins *)
        do (sf, p4) <- (match joins_, update_table with
                        | JCons _ _, SomeT (TTable r f fp) =>
                            (* self._update_table.as_(get_table_name() + "_") rendered after the FROM items *)
                            let fc := set_with_alias true (set_subquery true c) in
                            do (s1, pa) <- render_ts fc p3 from;
                            do (ofor, pb) <- render_o fc pa f;
                            do (ofp, pc) <- (match ofor with Some _ => Ok (None, pb) | None => render_o fc pb fp end);
                            Ok (L " FROM " ++ join [44] (s1 ++ [table_text fc r ofor ofp (Some (qualifier r ++ [95]))]), pc)
                        | JCons _ _, _ => Exn EAttr
                        | JNil, _ => from_sql p3
                        end);
        do (sj, p5) <- joins_sql p4;
        do (swh, p6) <- where_sql p5;
        do (so, p7) <- orderby_sql p6;
        do (sl, p8) <- (if is_some_t lim then limit_kw_sql p7 else Ok ([], p7));
        Ok (sw ++ L "UPDATE " ++ st ++ ss ++ sf ++ sj ++ swh ++ so ++ sl, p8).
Definition tail_with (sq wa : bool) (qs : str) p :=       (* everything after the head of a SELECT / DELETE / INSERT..SELECT *)
        do (sf, p1) <- from_sql p;
        do (sfi, p2) <- (match force_idx with TNil => Ok ([], p1)
                         | _ => do (ss, p') <- render_ts c p1 force_idx; Ok (L " FORCE INDEX (" ++ join [44] ss ++ L ")", p') end);
        do (sui, p3) <- (match use_idx with TNil => Ok ([], p2)
                         | _ => do (ss, p') <- render_ts c p2 use_idx; Ok (L " USE INDEX (" ++ join [44] ss ++ L ")", p') end);
        do (sj, p4) <- joins_sql p3;
        do (spw, p5) <- prewhere_sql p4;
        do (sw, p6) <- where_sql p5;
        do (sg, p7) <- (match groupbys with
                        | GNil => Ok ([], p6)
                        | _ => do (ss, p') <- render_gbys (set_subquery true c) p6 groupbys;
                               Ok (L " GROUP BY " ++ join [44] ss ++ (if with_totals then L " WITH TOTALS" else []) ++
                                   (if mysql_rollup then L " WITH ROLLUP" else []), p')
                        end);
        do (sh, p8) <- (do (o, p') <- render_o (set_subquery true c) p7 havings; Ok ((match o with Some s => L " HAVING " ++ s | None => [] end), p'));
        do (so, p9) <- orderby_sql p8;
        do (sp, p10) <- pagination p9;
        let qs := qs ++ sf ++ sfi ++ sui ++ sj ++ spw ++ sw ++ sg ++ sh ++ so ++ sp ++ for_update_sql in
        let qs := paren_if sq qs in
        do (qs, p11) <- (if on_conflict then
                           do (s1, p') <- on_conflict_sql p10; do (s2, p'') <- on_conflict_action_sql p'; Ok (qs ++ s1 ++ s2, p'')
                         else Ok (qs, p10));
        Ok (alias_if wa c qs alias, p11).
Definition generic_with (sq wa : bool) p :=
        if has_upd then generic_update p
        else if delete_from then tail_with sq wa (L "DELETE") p
        else if negb select_into && has_ins then
          do (sw, p1) <- with_sql p;
          do (st, p2) <- table_sql c p1 insert_table;
          let head := sw ++ (if replace_ then L "REPLACE INTO "
                             else match cls with BMySQL => (if do_nothing then L "INSERT IGNORE INTO " else L "INSERT INTO ")
                                  | _ => L "INSERT INTO " end) ++ st in
          do (sc, p3) <- (match columns with TNil => Ok ([], p2)
                          | _ => do (ss, p') <- render_ts (set_with_namespace false c) p2 columns; Ok (L " (" ++ join [44] ss ++ L ")", p') end);
          if has_vals then
            do (sr, p4) <- render_rows (set_with_alias true (set_subquery true c)) p3 values;
            let qs := head ++ sc ++ L " VALUES (" ++ join (L "),(") sr ++ L ")" in
            if on_conflict then
              do (s1, p5) <- on_conflict_sql p4; do (s2, p6) <- on_conflict_action_sql p5; Ok (qs ++ s1 ++ s2, p6)
            else Ok (qs, p4)
          else
            do (ssel, p4) <- select_sql p3; tail_with sq wa (head ++ sc ++ [32] ++ ssel) p4
        else
          do (sw, p1) <- with_sql p;
          do (ssel, p2) <- select_sql p1;
          do (si, p3) <- (if has_ins then do (st, p') <- table_sql (set_with_alias false c) p2 insert_table; Ok (L " INTO " ++ st, p')
                          else Ok ([], p2));
          tail_with sq wa (sw ++ ssel ++ si) p3.
Definition returning (qs : str) p :=
        match cls, returns with
        | BPostgreSQL, TCons _ _ =>
            do (ss, p1) <- render_ts (set_with_alias true (set_with_namespace has_upd c)) p returns;
            Ok (qs ++ L " RETURNING " ++ join [44] ss, p1)
        | _, _ => Ok (qs, p)
        end.

Definition main_with (sq wa : bool) p : res (str * pz) :=
    match cls with
    | BPostgreSQL =>
        (* RETURNING is part of the statement: with it, the statement is rendered un-wrapped, RETURNING is appended and the parentheses and
           the alias of the embedding position go around the whole *)
        let ret := is_nonempty_terms returns in
        do (qs, p1) <- (if has_upd then pg_sqlite_update p
                        else generic_with (if ret then false else sq) (if ret then false else wa) p);
        do (qs2, p2) <- returning qs p1;
        Ok ((if ret then alias_if wa c (paren_if sq qs2) alias else qs2), p2)
    | BSQLite => if has_upd then pg_sqlite_update p else generic_with sq wa p
    | BMySQL =>
        do (qs, p1) <- generic_with sq wa p;
        match qs, has_upd with
        | _ :: _, true =>
            (* MySQLQueryBuilder.get_sql appends these with the context it was called with *)
            do (so, p2) <- orderby_sql_c c0 p1;
            do (sl, p3) <- (if is_some_t lim then limit_kw_sql_c c0 p2 else Ok ([], p2));
            Ok (qs ++ so ++ sl, p3)
        | _, _ => Ok (qs, p1)
        end
    | _ => generic_with sq wa p
    end.

End Clauses.

(* the context of the clauses: the flags of the embedding position decide only about the parentheses and the alias around the whole statement *)
Definition clause_ctx (c0 : ctx) : ctx :=
  set_with_namespace ns (set_subquery false (set_with_alias false (set_subcriterion false c0))).
(* dialect get_sql overrides that copy the context first *)
Definition adjust_ctx (c00 : ctx) : ctx := match cls with BMSSQL | BOracle => set_groupby_alias false c00 | _ => c00 end.

(* an incomplete builder renders the empty string *)
Definition q_render (c00 : ctx) p : res (str * pz) :=
  if negb (has_sel || has_ins || delete_from || has_upd) then Ok ([], p)
  else if has_ins && negb (has_sel || has_vals) then Ok ([], p)
  else if has_upd && negb has_updates then Ok ([], p)
  else let c0 := adjust_ctx c00 in main_with c0 (clause_ctx c0) (subquery c0) (with_alias c0) p.

End Q.


Fixpoint render (c : ctx) (p : pz) (t : term) {struct t} : res (str * pz) :=
  match t with
  | TField name tbl alias =>
      let f := fquote (quote_char c) name in
      let f := match tbl with
               | Some r => if with_namespace c || str_truthy (tr_alias r)
                           then fquote (quote_char c) (qualifier r) ++ [46] ++ f else f
               | None => f
               end in
      Ok (alias_if (with_alias c) c f alias, p)
  | TStar tbl _ =>
      match tbl with
      | Some r => if with_namespace c || str_truthy (tr_alias r)
                  then Ok (fquote (quote_char c) (if str_truthy (tr_alias r) then ostr (tr_alias r) else tr_name r) ++ L ".*", p)
                  else Ok (L "*", p)
      | None => Ok (L "*", p)
      end
  | TIndex name alias => Ok (alias_if (with_alias c) c (fquote (quote_char c) name) alias, p)
  | TVal w v vid alias allow =>
      match p with
      | Some z =>
          if should_parameterize v && allow then
            let '(txt, z') := create_param c z vid in Ok (alias_sql c txt alias, Some z')
          else Ok (alias_sql c (value_sql w (dial_eqb (dialect c) MYSQL) (secondary_quote_char c) v) alias, p)
      | None => Ok (alias_sql c (value_sql w (dial_eqb (dialect c) MYSQL) (secondary_quote_char c) v) alias, p)
      end
  | TValTerm w t' vid alias allow =>
      (* Parameterizer.should_parameterize answers False for a query-builder object: the wrapped term is statement text, never a listed value *)
      do (s, p1) <- render c p t'; Ok (alias_sql c s alias, p1)
  | TNeg t' alias =>
      do (s, p1) <- render (set_with_alias false c) p t';
      let compound := match t' with TArith _ _ _ _ => true | _ => leads_minus t' end in
      Ok (alias_if (with_alias c) c ([45] ++ paren_if (compound || starts_minus s) s) alias, p1)
  | TArith op l r alias =>
      do (sl, p1) <- render (set_with_alias false c) p l;
      do (sr, p2) <- render (set_with_alias false c) p1 r;
      let rp := right_needs_parens op (op_of r) || (arith_eqb op Sub && (leads_minus r || starts_minus sr)) in
      let s := paren_if (left_needs_parens op (op_of l)) sl ++ arith_sql op ++ paren_if rp sr in
      Ok (alias_if (with_alias c) c s alias, p2)
  | TBasic o l r alias =>
      do (sl, p1) <- render (set_with_alias false c) p l;
      do (sr, p2) <- render (set_with_alias false c) p1 r;
      Ok (alias_if (with_alias c) c (sl ++ cmp_sql o ++ sr) alias, p2)
  | TComplex cn l r alias =>
      do (sl, p1) <- render (set_with_alias false (set_subcriterion (needs_brackets cn (conn_of l)) c)) p l;
      do (sr, p2) <- render (set_with_alias false (set_subcriterion (needs_brackets cn (conn_of r)) c)) p1 r;
      Ok (alias_if (with_alias c) c (paren_if (subcriterion c) (sl ++ [32] ++ conn_sql cn ++ [32] ++ sr)) alias, p2)
  | TNested o nc l r n alias =>
      do (sl, p1) <- render (set_with_alias false c) p l;
      do (sr, p2) <- render (set_with_alias false c) p1 r;
      do (sn, p3) <- render (set_with_alias false c) p2 n;
      Ok (alias_if (with_alias c) c (sl ++ cmp_sql o ++ sr ++ nc ++ sn) alias, p3)
  | TNot t' alias =>
      do (s, p1) <- render (set_with_alias false (set_subcriterion true c)) p t'; Ok (alias_sql c (L "NOT " ++ s) alias, p1)
  | TAll t' alias => do (s, p1) <- render (set_with_alias false c) p t'; Ok (alias_sql c (s ++ L " ALL") alias, p1)
  | TIsNull t' alias => do (s, p1) <- render (set_with_alias false c) p t'; Ok (alias_sql c (s ++ L " IS NULL") alias, p1)
  | TContains t' cont neg alias =>
      do (s, p1) <- render (set_with_alias false c) p t';
      do (sc, p2) <- render (set_with_alias false (set_subquery true c)) p1 cont;
      Ok (alias_sql c (s ++ [32] ++ (if neg then L "NOT " else []) ++ L "IN " ++ sc) alias, p2)
  | TBetween t' s e alias =>
      do (st, p1) <- render (set_with_alias false c) p t'; do (ss, p2) <- render (set_with_alias false c) p1 s; do (se, p3) <- render (set_with_alias false c) p2 e;
      Ok (alias_sql c (st ++ L " BETWEEN " ++ ss ++ L " AND " ++ se) alias, p3)
  | TPeriod t' s e alias =>
      do (st, p1) <- render (set_with_alias false c) p t'; do (ss, p2) <- render (set_with_alias false c) p1 s; do (se, p3) <- render (set_with_alias false c) p2 e;
      Ok (alias_sql c (st ++ L " FROM " ++ ss ++ L " TO " ++ se) alias, p3)
  | TBitAnd t' v alias =>
      do (st, p1) <- render (set_with_alias false c) p t';
      do (sv, _) <- render default_ctx None v;                 (* "{value}".format(value=self.value): str(), default context *)
      Ok (alias_sql c (L "(" ++ st ++ L " & " ++ sv ++ L ")") alias, p1)
  | TCase cs els alias =>
      match cs with
      | CNil => Exn ECase
      | _ =>
        let c' := set_with_alias false c in
        do (ws, p1) <- render_cases c' p cs;
        do (oe, p2) <- render_o c' p1 els;
        let s := L "CASE " ++ join [32] ws ++ (match oe with Some e => L " ELSE " ++ e | None => [] end) ++ L " END" in
        Ok (alias_if (with_alias c) c s alias, p2)
      end
  | TFunc name args sp sp_from distinct filter over noparens schema alias =>
      (* the arguments are rendered first, then get_special_params_sql *)
      do (sargs, p1) <- render_ts (set_with_alias false c) p args;
      do (ofrom, p2) <- render_o (set_with_alias false c) p1 sp_from;
      let special := match ofrom with
                     | Some f => L "FROM " ++ f
                     | None => match sp with SpText s => s | SpNone => [] end
                     end in
      let base := if noparens then name
                  else name ++ L "(" ++ (if distinct then L "DISTINCT " else []) ++ join [44] sargs ++
                       (match special with [] => [] | _ => [32] ++ special end) ++ L ")" in
      do (ofilter, p3) <- render_o (set_with_alias false c) p2 filter;
      let base := match ofilter with Some f => base ++ L " FILTER(WHERE " ++ f ++ L ")" | None => base end in
      do (oov, p4) <- render_over (set_with_alias false c) p3 over;
      let base := match oov with Some o => base ++ L " OVER(" ++ o ++ L ")" | None => base end in
      let base := match schema with Some sch => schema_sql c sch ++ [46] ++ base | None => base end in
      Ok (alias_if (with_alias c) c base alias, p4)
  | TTuple vs alias =>
      do (ss, p1) <- render_ts (set_with_alias false c) p vs; Ok (alias_sql c (paren (join [44] ss)) alias, p1)
  | TArray vs vid hasterm alias =>
      match (if hasterm then None else p) with
      | Some z => let '(txt, z') := create_param c z vid in Ok (alias_sql c txt alias, Some z')
      | None =>
        do (ss, p1) <- render_ts (set_with_alias false c) p vs;
        let values := join [44] ss in
        let s := match dialect c with
                 | POSTGRESQL | REDSHIFT => match values with [] => L "'{}'" | _ => L "ARRAY[" ++ values ++ L "]" end
                 | _ => L "[" ++ values ++ L "]"
                 end in
        Ok (alias_sql c s alias, p1)
      end
  | TJson j alias => Ok (alias_sql c (fquote (secondary_quote_char c) (bsd (dial_eqb (dialect c) MYSQL) (json_sql j))) alias, p)
  | TValues f alias => do (s, p1) <- render (set_with_alias false c) p f; Ok (alias_if (with_alias c) c (L "VALUES(" ++ s ++ L ")") alias, p1)
  | TLiteral raw alias => Ok (alias_sql c raw alias, p)
  | TPseudo raw alias => Ok (alias_if (with_alias c) c raw alias, p)
  | TParam ph idx alias =>
      let s := match ph with
               | Some (x :: xs) => x :: xs
               | _ => ph_text (placeholder_style (dialect c)) (match idx with Some n => n | None => 0 end)
               end in
      Ok (alias_if (with_alias c) c s alias, p)
  | TAtTZ f zone interval alias =>
      do (s, p1) <- render (set_with_alias false c) p f;
      Ok (alias_sql c (s ++ L " AT TIME ZONE " ++ (if interval then L "INTERVAL " else []) ++ L "'" ++ zone ++ L "'") alias, p1)
  | TInterval a => Ok (interval_sql (dialect c) a, p)
  | TRawStr s => Ok (s, p)
  | TTable r for_ for_portion =>
      do (ofor, p1) <- render_o c p for_;
      do (ofp, p2) <- (match ofor with Some _ => Ok (None, p1) | None => render_o c p1 for_portion end);
      Ok (table_text c r ofor ofp (tr_alias r), p2)
  | TAliased name q =>
      match q with
      | NoT => Ok (name, p)
      | SomeT t' => render c p t'
      end
  | TQuery q => render_query c p q
  | TSetOp base ops obs lim off alias => setop_render render_query render_sops render_obys render_o c p base ops obs lim off alias
  (* CreateQueryBuilder.get_sql *)
  | TCreate tbl temporary unlogged if_not_exists sysver columns period_fors uniques pk as_select =>
      match tbl with
      | NoT => Ok ([], p)
      | SomeT tb =>
        match columns, as_select with
        | KNil, NoT => Ok ([], p)
        | _, _ =>
          do (st, p1) <- render c p tb;
          let qn n := fquote (quote_char c) n in
          let head := L "CREATE " ++ (if temporary then L "TEMPORARY " else if unlogged then L "UNLOGGED " else []) ++ L "TABLE " ++
                      (if if_not_exists then L "IF NOT EXISTS " else []) ++ st in
          match as_select with
          | SomeT q => do (sq, p2) <- render c p1 q; Ok (head ++ L " AS (" ++ sq ++ L ")", p2)
          | NoT =>
            do (scols, p2) <- render_cols c p1 columns;
            let clauses := scols ++
                           map (fun '(n, a, b) => L "PERIOD FOR " ++ qn n ++ L " (" ++ qn a ++ [44] ++ qn b ++ L ")") period_fors ++
                           map (fun u => L "UNIQUE (" ++ join [44] (map qn u) ++ L ")") uniques ++
                           (match pk with [] => [] | _ => [L "PRIMARY KEY (" ++ join [44] (map qn pk) ++ L ")"] end) in
            Ok (head ++ L " (" ++ join [44] clauses ++ L ")" ++ (if sysver then L " WITH SYSTEM VERSIONING" else []), p2)
          end
        end
      end
  (* MySQLLoadQueryBuilder.get_sql *)
  | TLoad file tbl =>
      match file, tbl with
      | Some (x :: xs), SomeT tb =>
          do (st, p1) <- render c p tb;
          Ok (L "LOAD DATA LOCAL INFILE " ++ fquote (secondary_quote_char c) (bsd (dial_eqb (dialect c) MYSQL) (x :: xs)) ++
              L " INTO TABLE " ++ st ++ L " FIELDS TERMINATED BY ','", p1)
      | _, _ => Ok ([], p)
      end
  (* DropQueryBuilder.get_sql *)
  | TDrop tbl if_exists =>
      match tbl with
      | NoT => Ok ([], p)
      | SomeT tb => do (st, p1) <- render c p tb; Ok (L "DROP TABLE " ++ (if if_exists then L "IF EXISTS " else []) ++ st, p1)
      end
  end

with render_o (c : ctx) (p : pz) (o : oterm) {struct o} : res (option str * pz) :=
  match o with
  | NoT => Ok (None, p)
  | SomeT t => do (s, p1) <- render c p t; Ok (Some s, p1)
  end

with render_ts (c : ctx) (p : pz) (l : terms) {struct l} : res (list str * pz) :=
  match l with
  | TNil => Ok ([], p)
  | TCons t r => do (s, p1) <- render c p t; do (ss, p2) <- render_ts c p1 r; Ok (s :: ss, p2)
  end

with render_cases (c : ctx) (p : pz) (l : cases) {struct l} : res (list str * pz) :=
  match l with
  | CNil => Ok ([], p)
  | CCons w t r =>
      do (sw, p1) <- render c p w; do (st, p2) <- render c p1 t; do (ss, p3) <- render_cases c p2 r;
      Ok ((L "WHEN " ++ sw ++ L " THEN " ++ st) :: ss, p3)
  end

(* ORDER BY items; sel: aliases of the select list; use_aq: QueryBuilder (alias quote, orderby_alias flag)
   vs _SetOperation (plain quote char, always by alias) *)
with render_obys (c : ctx) (sel : list (option str)) (is_builder : bool) (p : pz) (l : obys) {struct l} : res (list str * pz) :=
  match l with
  | ONil => Ok ([], p)
  | OCons t o r =>
      let by_alias := (if is_builder then orderby_alias c else true) && alias_selected (term_alias t) sel in
      do (s, p1) <- (if by_alias then Ok (fquote (if is_builder then alias_q c else quote_char c) (ostr (term_alias t)), p)
                     else render c p t);
      do (ss, p2) <- render_obys c sel is_builder p1 r;
      Ok ((match o with Some d => s ++ [32] ++ order_sql d | None => s end) :: ss, p2)
  end

(* analytic OVER(...) : partition terms and order-by items are rendered with the function's own ctx *)
with render_over (c : ctx) (p : pz) (o : oover) {struct o} : res (option str * pz) :=
  match o with
  | NoOver => Ok (None, p)
  | Over parts obs frame =>
      do (sp, p1) <- render_ts c p parts;
      do (so, p2) <- render_obys c [] true p1 obs;
      let a := match sp with [] => [] | _ => [L "PARTITION BY " ++ join [44] sp] end in
      let b := match so with [] => [] | _ => [L "ORDER BY " ++ join [44] so] end in
      let s := join [32] (a ++ b) in
      Ok (Some (match frame with Some f => s ++ [32] ++ f | None => s end), p2)
  end

with render_rows (c : ctx) (p : pz) (l : rows) {struct l} : res (list str * pz) :=
  match l with
  | RNil => Ok ([], p)
  | RCons r rs => do (ss, p1) <- render_ts c p r; do (rr, p2) <- render_rows c p1 rs; Ok (join [44] ss :: rr, p2)
  end

with render_upds (cf cv : ctx) (p : pz) (l : upds) {struct l} : res (list str * pz) :=
  match l with
  | UNil => Ok ([], p)
  | UCons f v r =>
      do (sf, p1) <- render cf p f; do (sv, p2) <- render cv p1 v; do (ss, p3) <- render_upds cf cv p2 r;
      Ok ((sf ++ [61] ++ sv) :: ss, p3)
  end

(* ON CONFLICT DO UPDATE / ON DUPLICATE KEY UPDATE entries; mysql_alias = Some qualifier text for MySQL *)
with render_cupds (cf cv : ctx) (mysql_q : option str) (p : pz) (l : cupds) {struct l} : res (list str * pz) :=
  match l with
  | CUNil => Ok ([], p)
  | CUCons f v r =>
      do (sf, p1) <- render cf p f;
      do (s, p2) <- (match v with
                     | SomeT t => do (sv, p') <- render cv p1 t; Ok (sf ++ [61] ++ sv, p')
                     | NoT => do (sf2, p') <- render cf p1 f;
                              Ok (sf ++ [61] ++ (match mysql_q with Some q => q | None => L "EXCLUDED" end) ++ [46] ++ sf2, p')
                     end);
      do (ss, p3) <- render_cupds cf cv mysql_q p2 r;
      Ok (s :: ss, p3)
  end

with render_join (c : ctx) (p : pz) (j : joinc) {struct j} : res (str * pz) :=
  let jc := set_with_alias true (set_subquery true c) in
  let pre how s := match jointype_sql how with [] => L "JOIN " ++ s | ty => ty ++ [32] ++ L "JOIN " ++ s end in
  match j with
  | JPlain item how => do (s, p1) <- render jc p item; Ok (pre how s, p1)
  | JOn item how crit collate =>
      do (s, p1) <- render jc p item;
      do (sc, p2) <- render (set_subquery true c) p1 crit;
      Ok (pre how s ++ L " ON " ++ sc ++ (match collate with Some (x :: xs) => L " COLLATE " ++ (x :: xs) | _ => [] end), p2)
  | JUsing item how fields =>
      do (s, p1) <- render jc p item;
      do (sf, p2) <- render_ts c p1 fields;
      Ok (pre how s ++ L " USING (" ++ join [44] sf ++ L ")", p2)
  end

with render_joins (c : ctx) (p : pz) (l : joins) {struct l} : res (list str * pz) :=
  match l with
  | JNil => Ok ([], p)
  | JCons j r => do (s, p1) <- render_join c p j; do (ss, p2) <- render_joins c p1 r; Ok (s :: ss, p2)
  end

with render_sops (c : ctx) (nbase : nat) (p : pz) (l : sops) {struct l} : res (str * pz) :=
  match l with
  | SNil => Ok ([], p)
  | SCons op q r =>
      do (s, p1) <- render (match q with TQuery q' => if query_has_tail q' then set_subquery true c else c | _ => c end) p q;
      match q with
      | TQuery q' =>
          if Nat.eqb nbase (query_selects_len q') then
            do (ss, p2) <- render_sops c nbase p1 r; Ok ([32] ++ setop_sql op ++ [32] ++ s ++ ss, p2)
          else Exn ESetOp
      | _ => Exn EAttr
      end
  end

with render_ctes (c : ctx) (p : pz) (l : ctes) {struct l} : res (list str * pz) :=
  match l with
  | WNil => Ok ([], p)
  | WCons name q ts r =>
      do (st, p1) <- render_ts c p ts;
      do (sq, p2) <- render (set_with_alias false (set_subquery false c)) p1 q;
      do (ss, p3) <- render_ctes c p2 r;
      Ok ((name ++ (match st with [] => [] | _ => paren (join [44] st) end) ++ L " AS (" ++ sq ++ L ") ") :: ss, p3)
  end

(* Column.get_sql for each column *)
with render_cols (c : ctx) (p : pz) (l : cols) {struct l} : res (list str * pz) :=
  match l with
  | KNil => Ok ([], p)
  | KCons name ty nullable default r =>
      do (od, p1) <- render_o c p default;
      let s := fquote (quote_char c) name ++
               (match ty with Some (x :: xs) => [32] ++ (x :: xs) | _ => [] end) ++
               (match nullable with Some true => L " NULL" | Some false => L " NOT NULL" | None => [] end) ++
               (match od with Some d => L " DEFAULT " ++ d | None => [] end) in
      do (ss, p2) <- render_cols c p1 r; Ok (s :: ss, p2)
  end

with render_gbys (c : ctx) (p : pz) (l : gbys) {struct l} : res (list str * pz) :=
  match l with
  | GNil => Ok ([], p)
  | GCons t hit r =>
      do (s, p1) <- (match hit with
                     | SomeT sel => if groupby_alias c then Ok (fquote (alias_q c) (ostr (term_alias t)), p) else render c p sel
                     | NoT => render c p t
                     end);
      do (ss, p2) <- render_gbys c p1 r; Ok (s :: ss, p2)
  end

with render_query (c0 : ctx) (p : pz) (q : query) {struct q} : res (str * pz) :=
  q_render (MkRens render_o render_ts render_obys render_rows render_upds render_cupds render_joins render_ctes render_gbys) q c0 p.

End Render.

(* Model/Value.v — executable model of how a constant is printed inline:
   ValueWrapper.get_formatted_value / get_value_sql, MySQLValueWrapper.get_value_sql,
   SQLLiteValueWrapper.get_value_sql, JSON._recursive_get_sql.  No proofs. *)
From PT Require Import Base.Str Model.Types.
Open Scope N_scope.

(* text produced by CPython (str(float), isoformat(), json.dumps ...) enters as text *)
Inductive value :=
  | VStr (s : str)
  | VInt (z : Z)
  | VBool (b : bool)
  | VNone
  | VNumText (s : str)                 (* float / Decimal: str(v) *)
  | VIso (s : str)                     (* date / datetime: isoformat() *)
  | VTime (iso : str) (iso_notz : str) (* time: isoformat(), and replace(tzinfo=None).isoformat() *)
  | VUuid (s : str)                    (* str(uuid) *)
  | VDatePart (text : str)             (* DatePart member: its raw value *)
  | VEnum (v : value)                  (* any other Enum member: its .value *)
  | VDumped (text : str)               (* dict / list: json.dumps(v) *)
  | VOther (text : str).               (* anything else: str(v) *)

(* value.replace(q, q*2); Python: replacing "" by "" is the identity *)
Definition qdouble (q : str) (s : str) : str :=
  match q with
  | [c] => dbl c s
  | _ => s
  end.
(* utils.format_quotes(value, q) for a Python string q of length <= 1: an embedded quote character is doubled *)
Definition fquote (q : str) (s : str) : str := q ++ qdouble q s ++ q.

(* ValueWrapper.get_formatted_value; my = (ctx.dialect == Dialects.MYSQL): backslashes doubled in str / dict / list values *)
Definition bsd (my : bool) (s : str) : str := if my then dbl 92 s else s.
Fixpoint fmt_plain (my : bool) (q : str) (v : value) : str :=
  match v with
  | VStr s => fquote q (bsd my s)
  | VInt z => Z_to_str z
  | VBool b => if b then L "true" else L "false"
  | VNone => L "null"
  | VNumText s => s
  | VIso s => fquote q (bsd my s)
  | VTime s _ => fquote q (bsd my s)
  | VUuid s => fquote q (bsd my s)
  | VDatePart t => t
  | VEnum v' => fmt_plain my q v'
  | VDumped t => fquote q (bsd my t)
  | VOther t => t
  end.

(* get_value_sql of the three wrapper classes; q = ctx.secondary_quote_char or "" *)
Definition value_sql (w : wcls) (my : bool) (q : str) (v : value) : str :=
  match w with
  | WPlain => fmt_plain my q v
  | WSQLite => match v with VBool b => if b then L "1" else L "0" | _ => fmt_plain my q v end
  | WMySQL =>
    match v with
    | VStr s => fquote q (dbl 92 s)
    | VTime _ s' => fquote q s'
    | VDumped t => dbl 92 (fquote q t)
    | _ => fmt_plain my q v
    end
  end.

(* Parameterizer.should_parameterize *)
Definition should_parameterize (v : value) : bool :=
  match v with
  | VDatePart _ | VEnum _ => false
  | VStr s => negb (seqb s (L "*"))
  | _ => true
  end.

(* JSON term *)
Inductive json := JStr (s : str) | JNull | JBool (b : bool) | JOther (text : str) (* str(v): ints, floats *)
                | JArr (l : list json) | JObj (l : list (json * json)).

(* json.dumps(s, ensure_ascii=False): the double quote, the backslash and the control characters below 0x20 are escaped *)
Definition hexdig (n : N) : char := if n <? 10 then 48 + n else 87 + n.
Definition json_esc_char (c : char) : str :=
  if c =? 34 then [92; 34] else if c =? 92 then [92; 92]
  else if c =? 10 then [92; 110] else if c =? 13 then [92; 114] else if c =? 9 then [92; 116]
  else if c =? 8 then [92; 98] else if c =? 12 then [92; 102]
  else if c <? 32 then [92; 117; 48; 48; hexdig (c / 16); hexdig (c mod 16)]
  else [c].
Definition json_str (s : str) : str := [34] ++ flat (map json_esc_char s) ++ [34].

Fixpoint json_sql (j : json) : str :=
  match j with
  | JStr s => json_str s
  | JNull => L "null"
  | JBool b => if b then L "true" else L "false"
  | JOther t => t
  | JArr l => [91] ++ join [44] (map json_sql l) ++ [93]
  | JObj l => [123] ++ join [44] (map (fun kv => json_sql (fst kv) ++ [58] ++ json_sql (snd kv)) l) ++ [125]
  end.

(* Model/Value.v — executable model of how a constant is printed inline:
   ValueWrapper.get_formatted_value / get_value_sql, MySQLValueWrapper.get_value_sql,
   SQLLiteValueWrapper.get_value_sql, JSON._recursive_get_sql.  No proofs. *)
From PT Require Import Base.Str Model.Types.
Open Scope N_scope.

(* text produced by CPython (str(float), isoformat(), json.dumps ...) enters as text *)
Inductive value :=
  | VStr (s : str)
  | VInt (z : Z)
  | VBool (b : bool)
  | VNone
  | VNumText (s : str)                 (* float / Decimal: str(v) *)
  | VIso (s : str)                     (* date / datetime: isoformat() *)
  | VTime (iso : str) (iso_notz : str) (* time: isoformat(), and replace(tzinfo=None).isoformat() *)
  | VUuid (s : str)                    (* str(uuid) *)
  | VDatePart (text : str)             (* DatePart member: its raw value *)
  | VEnum (v : value)                  (* any other Enum member: its .value *)
  | VDumped (text : str)               (* dict / list: json.dumps(v) *)
  | VOther (text : str).               (* anything else: str(v) *)

(* format_quotes(value, q) for a Python string q of length <= 1 *)
Definition fquote (q : str) (s : str) : str := q ++ s ++ q.
(* value.replace(q, q*2); Python: replacing "" by "" is the identity *)
Definition qdouble (q : str) (s : str) : str :=
  match q with
  | [c] => dbl c s
  | _ => s
  end.

Fixpoint fmt_plain (q : str) (v : value) : str :=
  match v with
  | VStr s => fquote q (qdouble q s)
  | VInt z => Z_to_str z
  | VBool b => if b then L "true" else L "false"
  | VNone => L "null"
  | VNumText s => s
  | VIso s => fquote q (qdouble q s)
  | VTime s _ => fquote q (qdouble q s)
  | VUuid s => fquote q (qdouble q s)
  | VDatePart t => t
  | VEnum v' => fmt_plain q v'
  | VDumped t => fquote q t
  | VOther t => t
  end.

(* get_value_sql of the three wrapper classes; q = ctx.secondary_quote_char or "" *)
Definition value_sql (w : wcls) (q : str) (v : value) : str :=
  match w with
  | WPlain => fmt_plain q v
  | WSQLite => match v with VBool b => if b then L "1" else L "0" | _ => fmt_plain q v end
  | WMySQL =>
    match v with
    | VStr s => fquote q (dbl 92 (qdouble q s))
    | VTime _ s' => fquote q s'
    | VDumped t => dbl 92 (fquote q t)
    | _ => fmt_plain q v
    end
  end.

(* Parameterizer.should_parameterize *)
Definition should_parameterize (v : value) : bool :=
  match v with
  | VDatePart _ | VEnum _ => false
  | VStr s => negb (seqb s (L "*"))
  | _ => true
  end.

(* JSON term *)
Inductive json := JStr (s : str) | JOther (text : str) (* str(v): ints, floats, True/False/None *)
                | JArr (l : list json) | JObj (l : list (json * json)).

Fixpoint json_sql (j : json) : str :=
  match j with
  | JStr s => fquote [34] s
  | JOther t => t
  | JArr l => [91] ++ join [44] (map json_sql l) ++ [93]
  | JObj l => [123] ++ join [44] (map (fun kv => json_sql (fst kv) ++ [58] ++ json_sql (snd kv)) l) ++ [125]
  end.

(* Model/Interval.v — executable model of pypika_tortoise.terms.Interval (__init__ and get_sql),
   including the semantics of re.sub for the pinned trim pattern.  No proofs here. *)

From PT Require Import Base.Str Model.Types Gen.Interval.

Open Scope N_scope.

Record iargs := MkIArgs { a_years : Z; a_months : Z; a_days : Z; a_hours : Z; a_minutes : Z; a_seconds : Z;
                          a_microseconds : Z; a_quarters : Z; a_weeks : Z }.

Definition comps (a : iargs) : list Z :=
  [a_years a; a_months a; a_days a; a_hours a; a_minutes a; a_seconds a; a_microseconds a].

(* ---- __init__ ---- *)
Record istate := MkIState { st_vals : list N;          (* abs values of the 7 components (0 when unset) *)
                            st_largest : option str; st_smallest : option str; st_negative : bool;
                            st_quarters : option Z; st_weeks : option Z }.

(* the loop `for unit, label, value in zip(units, labels, values): if value: ...` *)
Definition init_step (st : option str * option str * bool) (lv : str * Z) : option str * option str * bool :=
  let '(lg, sm, ng) := st in
  let '(lab, v) := lv in
  if Z.eqb v 0 then st
  else match lg with
       | None => (Some lab, Some lab, Z.ltb v 0)
       | Some _ => (lg, Some lab, ng)
       end.

Definition init (a : iargs) : istate :=
  if negb (Z.eqb (a_quarters a) 0) then MkIState (repeat 0 7) None None false (Some (a_quarters a)) None
  else if negb (Z.eqb (a_weeks a) 0) then MkIState (repeat 0 7) None None false None (Some (a_weeks a))
  else
    let '(lg, sm, ng) := fold_left init_step (combine labels (comps a)) (None, None, false) in
    MkIState (map Z.abs_N (comps a)) lg sm ng None None.

(* ---- re.sub(trim_pattern, "", s) ----
   pattern: (^0+\.)|(\.0+$)|(^[0\-.: ]+[\-: ])|([\-:. ][0\-.: ]+$)
   Python semantics: scan left to right; at each position try the alternatives in order; on a
   match delete it and resume after it; ^ matches only at position 0, $ only at the end
   (no MULTILINE flag — pinned by trim_flags = 32 = re.UNICODE only). *)
Definition in_cls (c : char) : bool := (c =? 48) || (c =? 45) || (c =? 46) || (c =? 58) || (c =? 32).
Definition in_sep3 (c : char) : bool := (c =? 45) || (c =? 58) || (c =? 32).
Definition in_sep4 (c : char) : bool := (c =? 45) || (c =? 58) || (c =? 46) || (c =? 32).

(* alt 1, anchored at 0:  0+ \.   -> length of the match *)
Fixpoint zeros_then_dot (s : str) (seen : nat) : option nat :=
  match s with
  | [] => None
  | c :: r => if c =? 48 then zeros_then_dot r (S seen)
              else if (c =? 46) && negb (Nat.eqb seen 0) then Some (S seen) else None
  end.
Definition alt1 (s : str) : option nat := zeros_then_dot s 0.

(* alt 2:  \. 0+ $  *)
Definition all_zero (s : str) : bool := forallb (fun c => c =? 48) s.
Definition alt2 (s : str) : bool :=
  match s with
  | c :: ((_ :: _) as r) => (c =? 46) && all_zero r
  | _ => false
  end.

(* alt 3, anchored at 0:  [cls]+ [sep3]  greedy with backtracking: the longest prefix inside the
   maximal cls-run that ends in a sep3 character and has length >= 2 *)
Fixpoint last_sep3 (s : str) : option nat :=
  match s with
  | [] => None
  | c :: r => if in_cls c
              then match last_sep3 r with
                   | Some k => Some (S k)
                   | None => if in_sep3 c then Some 1%nat else None
                   end
              else None
  end.
Definition alt3 (s : str) : option nat :=
  match last_sep3 s with
  | Some k => if Nat.leb 2 k then Some k else None
  | None => None
  end.

(* alt 4:  [sep4] [cls]+ $ *)
Definition alt4 (s : str) : bool :=
  match s with
  | c :: ((_ :: _) as r) => in_sep4 c && forallb in_cls r
  | _ => false
  end.

(* scanning at positions > 0: only the $-anchored alternatives can match, and they consume the rest *)
Fixpoint scan (s : str) : str :=
  match s with
  | [] => []
  | c :: r => if alt2 s || alt4 s then [] else c :: scan r
  end.

Definition trim (s : str) : str :=
  match alt1 s with
  | Some m => scan (skipn m s)
  | None =>
    if alt2 s then []
    else match alt3 s with
         | Some m => scan (skipn m s)
         | None => scan s        (* alt4 at 0 is tried by scan; otherwise s[0] is kept *)
         end
  end.

(* ---- get_sql ---- *)
Definition nthN (l : list N) (i : nat) : N := nth i l 0.

Definition fmt7 (v : list N) : str :=
  N_to_str (nthN v 0) ++ [45] ++ N_to_str (nthN v 1) ++ [45] ++ N_to_str (nthN v 2) ++ [32] ++
  N_to_str (nthN v 3) ++ [58] ++ N_to_str (nthN v 4) ++ [58] ++ N_to_str (nthN v 5) ++ [46] ++ N_to_str (nthN v 6).

Definition ostr_eqb (a b : option str) : bool :=
  match a, b with
  | None, None => true
  | Some x, Some y => seqb x y
  | _, _ => false
  end.

Definition pynone : str := L "None".    (* what an f-string prints for None; unreachable, kept for faithfulness *)
Definition ostr (o : option str) : str := match o with Some s => s | None => pynone end.

Definition lab_microsecond : str := nth 6 labels [].

Definition expr_unit (st : istate) : str * str :=
  if ostr_eqb (st_largest st) (Some (L "MICROSECOND")) then
    ((if st_negative st then [45] else []) ++ N_to_str (nthN (st_vals st) 6), L "MICROSECOND")
  else match st_quarters st with
  | Some q => (Z_to_str q, L "QUARTER")
  | None =>
    match st_weeks st with
    | Some w => (Z_to_str w, L "WEEK")
    | None =>
      let e := trim (fmt7 (st_vals st)) in
      let e := if st_negative st then 45 :: e else e in
      let u := if negb (ostr_eqb (st_largest st) (st_smallest st))
               then ostr (st_largest st) ++ [95] ++ ostr (st_smallest st)
               else match st_largest st with None => L "DAY" | Some l => l end in
      (e, u)
    end
  end.

Definition interval_sql (d : dial) (a : iargs) : str :=
  let '(e, u) := expr_unit (init a) in
  let '(p1, p2, p3) := template d in
  p1 ++ e ++ p2 ++ u ++ p3.

(* Model/EqHash.v — executable model of __eq__ / __hash__ of Table, Schema, AliasedQuery and QueryBuilder.
   A hash is modelled by its KEY: hash x = H (key x) for the unknown, process-seeded H of CPython, so "equal keys => equal hashes"
   is sound and seed independent; distinct keys are assumed to hash differently (collisions are outside the model: they can only turn a
   set lookup into one more == call, which these classes answer correctly).  No proofs. *)
From PT Require Import Base.Str.
Open Scope N_scope.

Fixpoint strs_eqb (a b : list str) : bool :=
  match a, b with [], [] => true | x :: a', y :: b' => seqb x y && strs_eqb a' b' | _, _ => false end.
Definition ostr_eqb (a b : option str) : bool :=
  match a, b with None, None => true | Some x, Some y => seqb x y | _, _ => false end.

(* Schema: a chain, innermost first:  Schema(name, parent)  ;  __eq__ compares _name and _parent recursively *)
Definition schema := list str.
Definition schema_eq (a b : schema) : bool := strs_eqb a b.
Definition schema_key (a : schema) : schema := a.

(* Table: __eq__ over (_table_name, _schema, alias); the temporal FOR clause is not compared; __hash__ over the same triple *)
Record tbl := MkTbl { tb_name : str; tb_schema : option schema; tb_alias : option str; tb_for : option str (* text of the FOR criterion, if any *) }.
Definition oschema_eqb (a b : option schema) : bool :=
  match a, b with None, None => true | Some x, Some y => schema_eq x y | _, _ => false end.
Definition tbl_eq (a b : tbl) : bool := seqb (tb_name a) (tb_name b) && oschema_eqb (tb_schema a) (tb_schema b) && ostr_eqb (tb_alias a) (tb_alias b).
Definition tbl_key (a : tbl) : str * option schema * option str := (tb_name a, tb_schema a, tb_alias a).
Definition tkey_eqb (x y : str * option schema * option str) : bool :=
  let '(n1, s1, a1) := x in let '(n2, s2, a2) := y in seqb n1 n2 && oschema_eqb s1 s2 && ostr_eqb a1 a2.

(* AliasedQuery / Cte: name;   QueryBuilder: alias *)
Definition aq_eq (a b : str) : bool := seqb a b.
Definition qb_eq (a b : option str) : bool := ostr_eqb a b.

(* CPython set / dict lookup of x among the elements s: some element with an equal hash that is identical or == x *)
Definition set_mem {A K} (eq : A -> A -> bool) (key : A -> K) (keq : K -> K -> bool) (x : A) (s : list A) : bool :=
  existsb (fun y => keq (key y) (key x) && eq y x) s.
Definition list_mem {A} (eq : A -> A -> bool) (x : A) (s : list A) : bool := existsb (fun y => eq y x) s.

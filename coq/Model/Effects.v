(* Model/Effects.v — the effect IR emitted by tools/gen_effects.py and the decision procedures
   over it: which builder methods are frame-safe (C01, C15), which render methods are pure (C02),
   which dynamic-lookup classes guard the copy/pickle protocol names (C15).  Executable. *)
From PT Require Import Base.Str.
Open Scope N_scope.

Inductive root := RSelf | RArg (name : str).
Inductive effect :=
  | EStore (r : root) (path : list str) (attr : str) (none_guard : bool) (fresh_uncond : bool)
  | EMutate (r : root) (path : list str)
  | EAugMutate (r : root) (path : list str)          (* x.a += e : in place iff x.a is a container *)
  | EIter (r : root) (path : list str)
  | ECallSelf (name : str) (alias_guarded_args : list nat)
  | ECallOn (r : root) (path : list str) (name : str).

Record methrec := MkMeth { m_name : str; m_builder : bool; m_ignore_copy : bool; m_params : list str; m_effects : list effect }.
Record classrec := MkClass { c_name : str; c_bases : list str; c_containers : list str; c_sets : list str;
                             c_copy : option (list str); c_methods : list methrec }.

Definition mem (x : str) (l : list str) : bool := existsb (seqb x) l.

Section Analysis.
Variable classes : list classrec.

Definition find_class (n : str) : option classrec := find (fun c => seqb (c_name c) n) classes.
Definition find_meth (c : classrec) (n : str) : option methrec := find (fun m => seqb (m_name m) n) (c_methods c).

(* method resolution over the MRO (the class itself first) *)
Definition mro (c : classrec) : list classrec :=
  c :: flat (map (fun b => match find_class b with Some x => [x] | None => [] end) (c_bases c)).
Definition resolve (c : classrec) (n : str) : option methrec :=
  match flat (map (fun k => match find_meth k n with Some m => [m] | None => [] end) (mro c)) with
  | m :: _ => Some m
  | [] => None
  end.
Definition containers_of (c : classrec) : list str := flat (map c_containers (mro c)).
Definition sets_of (c : classrec) : list str := flat (map c_sets (mro c)).

(* when a helper is inlined, stores through its k-th parameter become stores through an argument of
   unknown name; only whether the caller guarded `arg.alias is None` is kept *)
Definition nth_param (m : methrec) (k : nat) : str := nth k (m_params m) [].
Definition rebase (m : methrec) (guarded : list nat) (e : effect) : effect :=
  match e with
  | EStore (RArg p) [] attr g f =>
      let g' := g || existsb (fun k => seqb (nth_param m k) p) guarded in
      EStore (RArg p) [] attr g' false
  | EStore r path attr g _ => EStore r path attr g false      (* a store inside a helper is not "unconditional in the method" *)
  | _ => e
  end.

(* transitive inlining of self.<helper>() with fuel *)
Fixpoint closure (fuel : nat) (c : classrec) (effs : list effect) : list effect :=
  match fuel with
  | O => effs
  | S f =>
    flat (map (fun e =>
      match e with
      | ECallSelf n guarded =>
          match resolve c n with
          | Some m => if m_builder m then [e]      (* a builder called on self works on its own copy *)
                      else e :: closure f c (map (rebase m guarded) (m_effects m))
          | None => [e]
          end
      | _ => [e]
      end) effs)
  end.

Definition FUEL := 6%nat.

Definition writes_self (e : effect) : bool :=
  match e with
  | EStore RSelf _ _ _ _ | EMutate RSelf _ | EAugMutate RSelf _ => true
  | _ => false
  end.

(* does some non-builder method of this name, in any class, write to its own receiver? *)
Definition callee_mutates (n : str) : bool :=
  existsb (fun c =>
    match find_meth c n with
    | Some m => negb (m_builder m) && existsb writes_self (closure FUEL c (m_effects m))
    | None => false
    end) classes.

(* the names of all mutating non-builder methods, computed once (vm_compute is call-by-value) *)
Definition all_method_names : list str := flat (map (fun c => map m_name (c_methods c)) classes).
Definition mut_names : list str := filter callee_mutates all_method_names.

(* ---------------- C01: builder methods ---------------- *)
Definition recopied (c : classrec) : list str := match c_copy c with Some l => l | None => [] end.

(* position-aware check: a container may be mutated in place only if the copy rule re-copies it or
   the method itself has unconditionally rebound it to a fresh container EARLIER *)
Fixpoint builder_ok_from (mn : list str) (c : classrec) (rebound : list str) (effs : list effect) : bool :=
  match effs with
  | [] => true
  | e :: r =>
    let ok_mut a := mem a (recopied c) || mem a rebound in
    let here :=
      match e with
      | EStore RSelf [] _ _ _ => true
      | EStore RSelf (_ :: _) _ _ _ => false                      (* store into an object shared with the receiver *)
      | EMutate RSelf [] => true
      | EMutate RSelf [a] => ok_mut a
      | EMutate RSelf _ => false
      | EAugMutate RSelf [a] => if mem a (containers_of c) then ok_mut a else true
      | EAugMutate RSelf _ => false
      | EStore (RArg _) _ attr guard _ => seqb attr (L "alias") && guard   (* the permitted auto-alias *)
      | EMutate (RArg _) _ | EAugMutate (RArg _) _ => false
      | EIter _ _ => true
      | ECallSelf _ _ => true
      | ECallOn RSelf [] _ => true
      | ECallOn _ _ n => negb (mem n mn)
      end in
    let rebound' := match e with EStore RSelf [] a _ true => a :: rebound | _ => rebound end in
    here && builder_ok_from mn c rebound' r
  end.

Definition builder_ok (mn : list str) (c : classrec) (m : methrec) : bool := builder_ok_from mn c [] (closure FUEL c (m_effects m)).

(* every @builder method reachable on every class (own or inherited) *)
Definition builder_names (c : classrec) : list str :=
  flat (map (fun k => map m_name (filter m_builder (c_methods k))) (mro c)).
Definition class_builders_ok (mn : list str) (c : classrec) : bool :=
  forallb (fun n => match resolve c n with Some m => if m_builder m then builder_ok mn c m else true | None => false end) (builder_names c).
Definition all_builders_ok : bool := let mn := mut_names in forallb (class_builders_ok mn) classes.
Definition unsafe_builders : list (str * str) :=
  let mn := mut_names in
  flat (map (fun c => flat (map (fun n => match resolve c n with
                                          | Some m => if m_builder m && negb (builder_ok mn c m) then [(c_name c, n)] else []
                                          | None => [] end) (builder_names c))) classes).
Definition n_builder_instances : nat := length (flat (map builder_names classes)).

(* A helper object returned by a @builder method (Joiner: it holds the fresh copy made by join() in .query) completes the call
   by invoking a method on that copy (do_join): the callee must pass the same frame check, on every class that has it. *)
Definition continuation_names : list str :=
  flat (map (fun c =>
    if seqb (c_name c) (L "Joiner") then
      flat (map (fun m => flat (map (fun e => match e with
                                               | ECallOn RSelf [a] n => if seqb a (L "query") then [n] else []
                                               | _ => [] end) (m_effects m))) (c_methods c))
    else []) classes).
Definition continuations_ok : bool :=
  let mn := mut_names in
  let ns := continuation_names in
  negb (match ns with [] => true | _ => false end) &&
  forallb (fun c => forallb (fun n => match resolve c n with Some m => builder_ok mn c m | None => true end) ns) classes.

(* ---------------- C02: render methods ---------------- *)
Fixpoint has_suffix (suf s : str) : bool :=
  if seqb suf s then true else match s with [] => false | _ :: r => has_suffix suf r end.
Fixpoint has_prefix (p s : str) : bool :=
  match p, s with [], _ => true | a :: p', b :: s' => (a =? b) && has_prefix p' s' | _, [] => false end.

Definition render_names : list str :=
  [L "__str__"; L "__repr__"; L "__hash__"; L "__eq__"; L "__ne__"; L "nodes_"; L "find_"; L "fields_"; L "tables_";
   L "is_aggregate"; L "get_table_name"; L "get_parameterized_sql"; L "needs_brackets"; L "left_needs_parens";
   L "right_needs_parens"; L "_list_aliases"; L "_orderby_field"; L "get_formatted_value"; L "should_parameterize";
   L "is_joined"; L "_validate_table"].
Definition is_render_name (n : str) : bool :=
  mem n render_names || has_suffix (L "_sql") n || has_prefix (L "get_") n && has_suffix (L "sql") n.

Definition render_ok_eff (mn : list str) (c : classrec) (e : effect) : bool :=
  match e with
  | EStore _ _ _ _ _ | EMutate _ _ | EAugMutate _ _ => false
  | EIter RSelf [a] => negb (mem a (sets_of c))                        (* iteration order of a set reaches the output *)
  | EIter _ _ => true
  | ECallSelf _ _ => true
  | ECallOn (RArg x) (p :: _) n =>                                       (* ctx.parameterizer.create_param: the one permitted write *)
      if seqb x (L "ctx") && seqb p (L "parameterizer") then true else negb (mem n mn)
  | ECallOn _ _ n => negb (mem n mn)
  end.
Definition render_ok (mn : list str) (c : classrec) (m : methrec) : bool := forallb (render_ok_eff mn c) (closure FUEL c (m_effects m)).
Definition is_parameterizer (c : classrec) : bool := seqb (c_name c) (L "Parameterizer").
Definition render_methods (c : classrec) : list methrec :=
  filter (fun m => is_render_name (m_name m) && negb (m_builder m)) (c_methods c).
Definition all_renders_ok : bool :=
  let mn := mut_names in
  forallb (fun c => is_parameterizer c || forallb (render_ok mn c) (render_methods c)) classes.
Definition impure_renders : list (str * str) :=
  let mn := mut_names in
  flat (map (fun c => if is_parameterizer c then [] else
                      map (fun m => (c_name c, m_name m)) (filter (fun m => negb (render_ok mn c m)) (render_methods c))) classes).
Definition n_render_methods : nat := length (flat (map render_methods classes)).

(* ---------------- C15: dynamic attribute lookup vs the copy / pickle protocol ---------------- *)
(* special names that copy.copy / copy.deepcopy / pickle look up on an instance (or on a blank
   instance made by __reduce_ex__) and that `object` does not already provide *)
Definition probe_names : list str :=
  [L "__copy__"; L "__deepcopy__"; L "__getstate__"; L "__setstate__"; L "__getnewargs__";
   L "__slots__"].      (* copyreg._reduce_ex (pickle protocols 0 and 1) reads it from the INSTANCE *)
Definition dyn_methods (c : classrec) : list methrec :=
  filter (fun m => seqb (m_name m) (L "__getattr__")) (c_methods c).
Variable ignore_copy_names : list str.
Definition dyn_lookup_guarded : bool :=
  forallb (fun c => forallb m_ignore_copy (dyn_methods c)) classes &&
  forallb (fun n => mem n ignore_copy_names) probe_names.
Definition n_dyn_classes : nat := length (filter (fun c => match dyn_methods c with [] => false | _ => true end) classes).

End Analysis.

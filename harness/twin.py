"""Twin rendering (C05, C07, reused by C08): every program is built twice through the public API —
B with harmless MARKERS for the user-supplied names / inlined values, A with the actual (adversarial)
ones — and Ref.Align.twin_ok (Coq) judges the two implementation texts.  The same mapping from a base
draw to (marker, actual) is used in both builds, injectively, so that equal names stay equal."""
from __future__ import annotations

import datetime
import decimal
import json
import random
import uuid

import pypika_tortoise as P
from pypika_tortoise import functions as fn, analytics as an, terms as T, queries as Q
from pypika_tortoise.enums import DatePart, JoinType, Order, SqlTypes, Dialects
from pypika_tortoise.dialects import MSSQLQuery, MySQLQuery, OracleQuery, PostgreSQLQuery, SQLLiteQuery

from coqemit import cstr, clist
from dump import dump_value
import genobj

QCLS = genobj.QUERY_CLASSES
QNAMES = genobj.QNAMES

ADV_NAMES = ['we"ird', "ti`ck", "qu'ote", "select", "sp ace", "d.ot", "Mixed", "ünï", "from", "a--b", "/*x*/", "semi;", "q?m", "%s", "$1",
             "back\\slash", '""', "``", "x\ny", "order", "TABLE", "a\"b\"c", "`", '"', "tr\"", "{b}", "[br]", "(p)", "null", "1st"]
ADV_STRS = ["it's", 'say "hi"', "back\\slash", "tick`tock", "a--b", "/*c*/", "?", "%s", "$1", "semi;colon", "new\nline", "nul\x00byte",
            "üñí", "trail\\", "''", "\\'", "%", "_", "a'b\\c\"d`e", "", "x", "' OR 1=1 --", "\\", "'", "\\\\'", "*/", "--", "\r\t", "𝔘𝔫𝔦", "\\n",
            "{}", "{0}", "%(x)s", "\x1a", "a''b", "'quoted'"]
ADV_INTS = [0, 1, -1, -5, 7, 42, 123456789012345678901234567890, -98765432109876543210, 10, 100]
ADV_NUMS = [1.5, 0.1, 1e-05, 1e16, -2.25, 100.0, decimal.Decimal("1.10"), decimal.Decimal("0.001"), decimal.Decimal("-3"),
            decimal.Decimal("1E+2"), 1e100, -0.0, 2.5e-10]
ADV_JSON = [{"a": 1}, {"k": "v'q", "n": [1, 2, None]}, [1, "two", {"x": True}], {"b\\s": "q\"d"}, {"q'": "'"}, ["\\", "\n", "'"], {"u": "ü "},
            {"deep": {"er": [{"x": "it's"}]}}, []]
ADV_DICTS = [x for x in ADV_JSON if isinstance(x, dict)]
FIXED_VALUES = [True, False, None, datetime.date(2020, 1, 2), datetime.datetime(2020, 1, 2, 3, 4, 5),
                datetime.datetime(2020, 1, 2, 3, 4, 5, 600, tzinfo=datetime.timezone.utc), datetime.time(1, 2, 3),
                uuid.UUID("12345678-1234-5678-1234-567812345678"), Order.asc, JoinType.left, Dialects.MYSQL]


import enum  # noqa: E402


class AdvEnum(enum.Enum):
    quote = "it's"
    trail = "trail\\"
    mixed = "a'b\\c\"d"
    comment = "x--y/*z*/"


class AdvStrEnum(str, enum.Enum):
    """a str-mixin enum: its members ARE strings; what is inlined is the member's value, not its name"""
    quote = "it's red"
    trail = "blue\\"
    plain = "green"


class MarkerEnum(enum.Enum):
    m = "zqve0"


FIXED_VALUES += list(AdvEnum)
STR_ENUM_VALUES = list(AdvStrEnum)


def case_twin(a):
    """another name that differs from `a` only in letter case (or, for a caseless name, by one added letter)"""
    b = a.swapcase()
    return b if b != a else a + "A"


def negative(a):
    """is the number written with a minus sign"""
    return str(a).startswith("-")


def magnitude(a):
    if not negative(a):
        return a
    return a.copy_abs() if isinstance(a, decimal.Decimal) else (abs(a) if type(a) is int else -a)


class Mapping:
    """base key -> (marker, actual); kinds: 'n' names, 's' strings, 'i' ints, 'f' floats/decimals, 'j' dict/list."""

    def __init__(self, salt=0, names=True, values=True):
        self.salt = salt
        self.names, self.values = names, values
        self.idx = {}

    def _i(self, kind, key):
        k = (kind, key)
        if k not in self.idx:
            self.idx[k] = sum(1 for kk in self.idx if kk[0] == kind)
        return self.idx[k]

    @staticmethod
    def _pick(pool, i, salt, uniq):
        x = pool[(i + salt) % len(pool)]
        return uniq(x, i // len(pool)) if i >= len(pool) else x

    def name(self, key, mode):
        if not self.names:
            return key
        if key.endswith("~"):
            # the case-swapped twin of another name: a DIFFERENT identifier that only letter case tells apart
            base = self.name(key[:-1], mode)
            self.case_twins = getattr(self, "case_twins", set()) | {key[:-1]}
            return base + "c" if mode == "B" else case_twin(base)
        i = self._i("n", key)
        if mode == "B":
            return "zqn%dx" % i
        if key.startswith("="):
            return key[1:]                    # a site that asks for one particular actual name
        return self._pick(ADV_NAMES, i, self.salt, lambda x, r: x + str(r))

    def value(self, key_value, mode):
        """key_value: the base draw (any Python value)."""
        v = key_value
        if not self.values:
            return v
        if isinstance(v, bool) or v is None:
            return v
        if isinstance(v, str):
            i = self._i("s", v)
            return "zqv%d" % i if mode == "B" else self._pick(ADV_STRS, i, self.salt, lambda x, r: x + "#" + str(r))
        # (a numeric marker carries the SIGN of the actual value: the library decides about parentheses after a minus sign on
        #  the sign of a constant, which is structure, not text; the map sends the marker's digits to the actual magnitude)
        if type(v) is int:
            i = self._i("i", v)
            a = self._pick(ADV_INTS, i, self.salt, lambda x, r: x * 1000 + r)
            return (-(7700000 + i) if negative(a) else 7700000 + i) if mode == "B" else a
        if isinstance(v, (float, decimal.Decimal)):
            i = self._i("f", str(v))
            a = self._pick(ADV_NUMS, i, self.salt, lambda x, r: x)
            return (-(7700000.5 + i) if negative(a) else 7700000.5 + i) if mode == "B" else a
        if isinstance(v, dict):      # (a list becomes an SQL array / tuple of separately inlined elements: left as drawn)
            i = self._i("j", json.dumps(v, sort_keys=True))
            return {"zqv": i} if mode == "B" else self._pick(ADV_DICTS, i, self.salt, lambda x, r: x)
        return v

    def coq_map(self):
        """The marker map as a Gallina term of type Ref.Align.mmap (markers as they appear as token payloads)."""
        ents = []
        for (kind, key), i in self.idx.items():
            if kind == "n":
                a = key[1:] if key.startswith("=") else self._pick(ADV_NAMES, i, self.salt, lambda x, r: x + str(r))
                m = "zqn%dx" % i
                ents.append("(%s, MName %s)" % (cstr(m), cstr(a)))
                for suf in ("2", "_"):   # the library's derived names: self-join tag, UPDATE..FROM tag
                    ents.append("(%s, MName %s)" % (cstr(m + suf), cstr(a + suf)))
                if key in getattr(self, "case_twins", ()):
                    ents.append("(%s, MName %s)" % (cstr(m + "c"), cstr(case_twin(a))))
            elif kind == "s":
                a = self._pick(ADV_STRS, i, self.salt, lambda x, r: x + "#" + str(r))
                ents.append("(%s, MVal %s)" % (cstr("zqv%d" % i), dump_value(a)))
            elif kind == "i":
                a = self._pick(ADV_INTS, i, self.salt, lambda x, r: x * 1000 + r)
                ents.append("(%s, MVal %s)" % (cstr(str(7700000 + i)), dump_value(magnitude(a))))
            elif kind == "f":
                a = self._pick(ADV_NUMS, i, self.salt, lambda x, r: x)
                ents.append("(%s, MVal %s)" % (cstr(str(7700000.5 + i)), dump_value(magnitude(a))))
            elif kind == "j":
                a = self._pick(ADV_DICTS, i, self.salt, lambda x, r: x)
                ents.append("(%s, MVal %s)" % (cstr(json.dumps({"zqv": i})), dump_value(a)))
        return clist(ents)

    def json_map(self):
        out = {}
        for (kind, key), i in self.idx.items():
            out["%s%d" % (kind, i)] = repr(key)
        return out


class TwinG(genobj.G):
    """genobj.G whose names and values pass through a Mapping; the base class consumes the same random draws in
    both builds, so the two objects have the same shape."""

    def __init__(self, rng, mapping, mode, wrap_str=False, **kw):
        super().__init__(rng, weird_names=False, special_values=False, **kw)
        self.mp, self.mode, self.wrap_str = mapping, mode, wrap_str

    def name(self):
        return self.mp.name(super().name(), self.mode)

    def new_table(self, aliased=None, schema=None):
        t = super().new_table(aliased, schema)
        self.tables.pop()
        kw = {}
        if t.alias:
            kw["alias"] = self.mp.name(t.alias, self.mode)
        sch = t._schema
        if sch is not None:
            chain = []
            while sch is not None:
                chain.append(self.mp.name(sch._name, self.mode))
                sch = sch._parent
            s = None
            for nm in reversed(chain):
                s = Q.Schema(nm, parent=s)
            kw["schema"] = s
        t2 = P.Table(self.mp.name(t._table_name, self.mode), **kw)
        self.tables.append(t2)
        return t2

    def maybe_alias(self, t, p=0.2):
        t2 = super().maybe_alias(t, p)
        if t2 is not t and getattr(t2, "alias", None):
            return t.as_(self.mp.name(t2.alias, self.mode))
        return t2

    def pyvalue(self):
        v = super().pyvalue()
        if isinstance(v, str) and v in ("*", ""):
            v = "x"
        v = self.mp.value(v, self.mode)
        if self.wrap_str and isinstance(v, str):
            return T.ValueWrapper(v)       # a bare str handed to select() would be a column name
        return v

    def pyvalue_simple(self):
        v = self.mp.value(super().pyvalue_simple(), self.mode)
        if self.wrap_str and isinstance(v, str):
            return T.ValueWrapper(v)
        return v


def build_twin(make, seed, salt, names, values, wrap_str=False):
    """make(g) -> object.  Returns (objA, objB, mapping) or None when a build raises."""
    mp = Mapping(salt, names=names, values=values)
    out = {}
    for mode in ("B", "A"):
        g = TwinG(random.Random(seed), mp, mode, wrap_str=wrap_str)
        try:
            out[mode] = make(g)
        except Exception as e:  # noqa
            return None
    return out["A"], out["B"], mp


def render(obj, ctx):
    try:
        s = obj.get_sql(ctx)
    except Exception as e:  # noqa
        return "EXC:" + type(e).__name__
    return s if isinstance(s, str) else "EXC:nonstr"


HEADER = ("From PT Require Import Base.Str Base.Codes Model.Types Model.Value Ref.Lexer Ref.Align.\nOpen Scope N_scope.\n"
          "Definition j (d : dial) (m : mmap) (b a : str) : N := match twin_ok d m b a with Some true => 1 | Some false => 0 | None => 2 end.\n")


# ----------------------------------------------------------------------------------------------------------------
def ctx_for(qc):
    return qc.SQL_CONTEXT


def run_twin_property(run, *, prop, propfile, module, theorems, cases, known_pred, rule, assumptions=(), extra_targets=()):
    """cases: iterable of dict(label, qc, A, B, mp) (objects already built).  known_pred(case) -> id of the known-finding
    class the case lies in, or None."""
    import core
    import corr as corr_mod
    proofs_ok = core.proof_stage(run, propfile, module, theorems, extra_targets=list(extra_targets) + ["Base/Codes.v", "Model/Render.v", "Ref/Align.v"])
    C = corr_mod.Corr(run, prop.lower())
    exprs, meta = [], []
    nskip = 0
    dist = {}
    for c in cases:
        qc = c["qc"]
        ctx = ctx_for(qc)
        # an earlier rendering under another dialect's conventions (other quote character, other backslash rule), str() and hash() must not
        # influence this one: the objects are rendered there first (a per-object memo of quoted text shows up as a false twin statement)
        other = ctx_for(PostgreSQLQuery if qc is MySQLQuery else MySQLQuery)
        for o in (c["A"], c["B"]):
            render(o, other)
            try:
                str(o), hash(o)
            except Exception:  # noqa
                pass
        sa, sb = render(c["A"], ctx), render(c["B"], ctx)
        if sb.startswith("EXC:") and sa.startswith("EXC:"):
            nskip += 1
            continue
        if sb == "" and sa == "":
            nskip += 1
            continue
        C.add(c["A"], [(QNAMES[qc], ctx, "inline")], {"label": c["label"]})
        exprs.append("j %s %s %s %s" % (ctx.dialect.name, c["mp"].coq_map(), cstr(sb), cstr(sa)))
        meta.append((c, sa, sb))
        dist[c["label"].split(":")[0]] = dist.get(c["label"].split(":")[0], 0) + 1
    vals, errors = core.coq_eval(run, prop.lower() + "_twin", HEADER, exprs)
    agree, cerrors = C.evaluate(shard_objs=60)
    errors += cerrors
    fails, known_hit, napp, npass, nna = [], {}, 0, 0, 0
    for i, v in enumerate(vals):
        if v is None:
            continue
        if v == 2:
            nna += 1
            continue
        napp += 1
        if v == 1:
            npass += 1
            continue
        k = known_pred(meta[i][0], meta[i][1], meta[i][2])
        if k:
            known_hit.setdefault(k, i)
        else:
            fails.append(i)
    for e in core.load_known(prop):
        if e.get("status") == "known" and e["id"] in known_hit:
            run.known(e["what_fails"])
    listed = {e["id"] for e in core.load_known(prop) if e.get("status") == "known"}
    for k, i in known_hit.items():
        if k not in listed:
            fails.append(i)
    for i in fails[:3]:
        c, sa, sb = meta[i]
        run.violation("%s: the twin statement is false on the implementation's output at site %s under %s: actual text %r does not read as the marker "
                      "text %r with each marker replaced by one token denoting the actual name/value" % (prop, c["label"], QNAMES[c["qc"]], sa[:300], sb[:300]),
                      {"kind": "twin", "site": c["label"], "query_class": QNAMES[c["qc"]], "actual_sql": sa, "marker_sql": sb,
                       "mapping": c["mp"].coq_map(), "seed": c.get("seed")})
    mism = [i for i, a in enumerate(agree) if a is False]
    if not fails:
        if mism:
            i = mism[0]
            oid, name, ctx, mode, sql, vals_, m = C.cases[i]
            run.violation("correspondence Model.Render / implementation broken on %d cases (e.g. %s: impl %r); the property's statement held on every output examined"
                          % (len(mism), name, sql[:200]),
                          {"correspondence": "Model.Render.render vs get_sql", "context": name, "impl_sql": sql, "meta": m,
                           "model": C.debug_case(i)}, found_input=False)
        elif C.unexpected_unmodelled():
            u = C.unexpected_unmodelled()
            run.violation("the model no longer covers what the generator builds: %d object(s) the dumper refuses (%s) - fail closed"
                          % (sum(u.values()), "; ".join("%s x%d" % kv for kv in list(u.items())[:4])),
                          {"correspondence": "harness/dump.py (live object -> Model.Syntax term)", "refused": u}, found_input=False)
        elif errors:
            run.violation("case files could not be evaluated: %s" % errors[0], {"errors": errors[:3]}, found_input=False)
        elif not proofs_ok:
            run.violation("proof obligation broken: %s" % "; ".join(run.broken), {"broken": run.broken, "theorems": theorems, "file": "coq/" + propfile},
                          found_input=False)
    samples = [{"site": meta[i][0]["label"], "class": QNAMES[meta[i][0]["qc"]], "actual_sql": meta[i][1][:200], "marker_sql": meta[i][2][:200], "verdict": vals[i]}
               for i in (0, len(meta) // 2, len(meta) - 1) if 0 <= i < len(meta)]
    run.cov.update({"evaluations": len(exprs), "distinct_nontrivial": len({(m[1], m[2]) for m in meta if m[1] != m[2]}), "rule": rule, "samples": samples,
                    "exhaustive": False, "twin_applicable": napp, "twin_true": npass, "twin_not_applicable": nna, "twin_false_outside_known": len(fails),
                    "twin_false_in_known_class": {k: 1 for k in known_hit}, "skipped_both_raise_or_empty": nskip, "site_distribution": dist,
                    "model_objects": len(C.items), "model_agrees": sum(1 for a in agree if a), "model_unmodelled": C.unmodelled,
                    "disagreements_checked": len(mism)})
    run.assumptions += list(assumptions)

"""Shared machinery of ./check: regeneration, build, audit, Coq case files, verdicts, evidence."""
from __future__ import annotations

import fcntl
import hashlib
import json
import os
import re
import shutil
import subprocess
import sys
import time

ROOT = os.path.dirname(os.path.dirname(os.path.abspath(__file__)))
COQ = os.path.join(ROOT, "coq")
REPO = os.environ.get("VERIF_REPO", "/repo")
PY = "/venv/bin/python"
NPROC = 16

ALLOWED_AXIOMS: set = set()   # every property theorem is expected to be closed under the global context

FORBIDDEN = re.compile(
    r"\bAdmitted\b|\badmit\b|\bAxiom\b|\bAxioms\b|\bParameter\b|\bParameters\b|\bConjecture\b|Unset\s+Guard|"
    r"bypass_check|type-in-type|impredicative-set|Admit\s+Obligations|Unset\s+Positivity|Unset\s+Universe")


def env_for_impl(hashseed="0"):
    e = dict(os.environ)
    e["PYTHONPATH"] = REPO
    e["PYTHONHASHSEED"] = hashseed
    e["PYPIKA_TORTOISE_VERIF"] = "1"
    return e


def sh(cmd, timeout, cwd=None, env=None):
    """Run a command; returns (rc, output). A timeout is rc=124."""
    try:
        p = subprocess.run(cmd, cwd=cwd, env=env, stdout=subprocess.PIPE, stderr=subprocess.STDOUT,
                           timeout=timeout, text=True, errors="replace")
        return p.returncode, p.stdout
    except subprocess.TimeoutExpired as e:
        out = e.stdout or ""
        if isinstance(out, bytes):
            out = out.decode(errors="replace")
        return 124, out + "\n[timeout after %ss]" % timeout


class Lock:
    def __enter__(self):
        self.f = open(os.path.join(COQ, ".lock"), "w")
        fcntl.flock(self.f, fcntl.LOCK_EX)
        return self

    def __exit__(self, *a):
        fcntl.flock(self.f, fcntl.LOCK_UN)
        self.f.close()


# ----------------------------------------------------------------------------------------------
# regen / build / audit

def regen():
    """Run every translator. Returns list of failure strings (empty = ok)."""
    fails = []
    tools = sorted(f for f in os.listdir(os.path.join(ROOT, "tools")) if f.startswith("gen_") and f.endswith(".py"))
    with Lock():
        for t in tools:
            rc, out = sh([PY, os.path.join(ROOT, "tools", t)], 120, cwd=ROOT, env=env_for_impl())
            if rc != 0:
                fails.append("%s: rc=%d: %s" % (t, rc, "; ".join(l for l in out.splitlines() if "TRANSLATION-FAILED" in l or "Error" in l or "error" in l)[:600]))
    return fails


def vfiles():
    out = []
    for d in ("Base", "Model", "Gen", "Ref", "Proofs", "Props"):
        p = os.path.join(COQ, d)
        if os.path.isdir(p):
            for f in sorted(os.listdir(p)):
                if f.endswith(".v"):
                    out.append("%s/%s" % (d, f))
    return out


def ensure_makefile():
    proj = "-Q . PT\n-arg -w -arg -notation-overridden,-deprecated-hint-without-locality,-deprecated-instance-without-locality,-unused-pattern-matching-variable\n" + "\n".join(vfiles()) + "\n"
    path = os.path.join(COQ, "_CoqProject")
    old = open(path).read() if os.path.exists(path) else None
    if old != proj or not os.path.exists(os.path.join(COQ, "Makefile")):
        with open(path, "w") as f:
            f.write(proj)
        rc, out = sh(["coq_makefile", "-f", "_CoqProject", "-o", "Makefile"], 60, cwd=COQ)
        if rc != 0:
            raise RuntimeError("coq_makefile failed: " + out)


def build(targets=None, timeout=1500):
    """Full .vo build of the given targets (or everything). Returns (ok, log)."""
    with Lock():
        ensure_makefile()
        cmd = ["make", "-j%d" % NPROC] + (list(targets) if targets else [])
        rc, out = sh(cmd, timeout, cwd=COQ)
    return rc == 0, out


def audit(files):
    """grep the development for anything that would make a theorem hollow."""
    hits = []
    for f in files:
        p = os.path.join(COQ, f)
        if not os.path.exists(p):
            hits.append("%s: missing" % f)
            continue
        txt = open(p).read()
        txt_nc = re.sub(r'"(?:[^"]|"")*"', '""', strip_comments(txt))   # string literals cannot declare anything
        for m in FORBIDDEN.finditer(txt_nc):
            hits.append("%s: %s" % (f, m.group(0)))
    return hits


def strip_comments(txt):
    out, depth, i, n = [], 0, 0, len(txt)
    while i < n:
        if txt.startswith("(*", i):
            depth += 1
            i += 2
        elif txt.startswith("*)", i) and depth > 0:
            depth -= 1
            i += 2
        else:
            if depth == 0:
                out.append(txt[i])
            i += 1
    return "".join(out)


STMT = re.compile(r"^\s*(?:Local\s+|Global\s+)?(Theorem|Lemma|Corollary|Example|Fact|Remark|Proposition)\s+([A-Za-z0-9_']+)", re.M)


def count_obligations(files):
    """Statements proved in the given files (all closed by Qed when the build succeeded)."""
    names = []
    for f in files:
        p = os.path.join(COQ, f)
        if os.path.exists(p):
            txt = strip_comments(open(p).read())
            names += ["%s:%s" % (f, m.group(2)) for m in STMT.finditer(txt)]
    return names


def cone(propfile):
    """The .v files a Props file depends on, through coqdep (transitively)."""
    with Lock():
        ensure_makefile()
        rc, out = sh(["coqdep", "-Q", ".", "PT"] + vfiles(), 120, cwd=COQ)
    deps = {}
    for line in out.splitlines():
        if ":" not in line:
            continue
        lhs, rhs = line.split(":", 1)
        tgt = [t for t in lhs.split() if t.endswith(".vo")]
        if not tgt:
            continue
        deps[tgt[0][:-1]] = [d[:-1] for d in rhs.split() if d.endswith(".vo")]
    seen, todo = [], [propfile]
    while todo:
        f = todo.pop()
        if f in seen:
            continue
        seen.append(f)
        todo += deps.get(f, [])
    return sorted(seen)


def print_assumptions(workdir, module, theorems):
    """Print Assumptions for each theorem; returns {theorem: text}."""
    src = "From PT Require Import %s.\n" % module
    for t in theorems:
        src += 'Goal True. idtac "@@BEGIN %s". Abort.\nPrint Assumptions %s.\nGoal True. idtac "@@END". Abort.\n' % (t, t)
    rc, out = coqc_text(workdir, "Audit_%s" % module.replace(".", "_"), src, timeout=300)
    res = {}
    if rc != 0:
        return None, out
    for m in re.finditer(r"@@BEGIN (\S+)\n(.*?)@@END", out, re.S):
        res[m.group(1)] = m.group(2).strip()
    return res, out


def assumptions_ok(text):
    if "Closed under the global context" in text:
        return True
    # otherwise every listed axiom must be allowed
    names = re.findall(r"^([A-Za-z0-9_.']+)\s*:", text, re.M)
    return bool(names) and all(n in ALLOWED_AXIOMS for n in names)


# ----------------------------------------------------------------------------------------------
# Coq case files

def coqc_text(workdir, name, text, timeout=600):
    os.makedirs(workdir, exist_ok=True)
    path = os.path.join(workdir, name + ".v")
    with open(path, "w") as f:
        f.write(text)
    rc, out = sh(["coqc", "-Q", COQ, "PT", "-w", "-notation-overridden,-abstract-large-number", path], timeout, cwd=workdir)
    return rc, out


CODES_RE = re.compile(r'@@CODES\s*=\s*"([^"]*)"', re.S)


def parse_codes(out):
    """The harness prints one result string per case file:  Eval vm_compute in (codes ...)  preceded by
    an idtac marker; the string holds one character per case."""
    m = re.search(r'@@CODES.*?=\s*"(.*?)"\s*(?:%string)?\s*:\s*string', out, re.S)
    if not m:
        return None
    return re.sub(r"\s+", "", m.group(1))


def run_shards(workdir, shards, timeout=900):
    """shards: list of (name, text). Runs coqc on each in parallel; returns {name: (rc,out)}."""
    import concurrent.futures as cf
    res = {}
    with cf.ThreadPoolExecutor(max_workers=min(NPROC, max(1, len(shards)))) as ex:
        futs = {ex.submit(coqc_text, workdir, n, t, timeout): n for n, t in shards}
        for fu in cf.as_completed(futs):
            res[futs[fu]] = fu.result()
    return res


# ----------------------------------------------------------------------------------------------
# verdicts

class Run:
    """One invocation of one property check."""

    def __init__(self, prop, tier, seed):
        self.prop, self.tier, self.seed = prop, tier, seed
        self.t0 = time.time()
        self.workdir = os.path.join(ROOT, "_work", "%s-%s-%d" % (prop, tier, os.getpid()))
        os.makedirs(self.workdir, exist_ok=True)
        self.violations = []          # (replay_path, no_input_found)
        self.known_lines = []
        self.cov = {}
        self.assumptions = []
        self.notes = []

    # -- reporting
    def violation(self, what, replay, found_input=True):
        os.makedirs(os.path.join(ROOT, "replays"), exist_ok=True)
        blob = json.dumps(replay, sort_keys=True, default=str)
        h = hashlib.sha1(blob.encode()).hexdigest()[:10]
        path = os.path.join(ROOT, "replays", "%s-%s.json" % (self.prop, h))
        with open(path, "w") as f:
            json.dump({"property": self.prop, "what": what, "replay": replay, "seed": self.seed, "tier": self.tier},
                      f, indent=1, default=str)
        self.violations.append((path, found_input, what))

    def known(self, what):
        self.known_lines.append(what)

    def finish(self, level="proof"):
        wall = time.time() - self.t0
        ev = {"property_id": self.prop, "tier": self.tier, "seed": self.seed, "level": level,
              "coverage": self.cov, "assumptions": self.assumptions, "wall_s": round(wall, 2),
              "violations": len(self.violations)}
        if self.notes:
            ev["coverage"]["notes"] = self.notes
        if ev["coverage"].get("discharged", 1) == 0:
            # schema: a proof-level record needs discharged >= 1; a broken build is reported through the
            # generic counts instead (and through the VIOLATION line)
            ev["coverage"]["discharged_count"] = ev["coverage"].pop("discharged")
        ev["coverage"]["known_findings_printed"] = list(self.known_lines)
        os.makedirs(os.path.join(ROOT, "evidence"), exist_ok=True)
        with open(os.path.join(ROOT, "evidence", "%s.json" % self.prop), "w") as f:
            json.dump(ev, f, indent=1, default=str)
        shutil.rmtree(self.workdir, ignore_errors=True)
        for k in self.known_lines:
            print("KNOWN-FINDING: property=%s %s" % (self.prop, k))
        seen = set()
        for path, found, what in self.violations[:20]:
            if path in seen:
                continue
            seen.add(path)
            print("VIOLATION property=%s replay=%s%s" % (self.prop, path, "" if found else " no-failing-input-found"))
        if self.violations:
            for path, found, what in self.violations[:5]:
                print("  -> %s" % what[:400])
            return 1
        print("OK property=%s tier=%s wall=%.1fs %s" % (self.prop, self.tier, wall,
              " ".join("%s=%s" % (k, self.cov[k]) for k in ("obligations", "discharged", "evaluations", "distinct_nontrivial") if k in self.cov)))
        return 0


def load_known(prop):
    p = os.path.join(ROOT, "known_findings.json")
    if not os.path.exists(p):
        return []
    return [e for e in json.load(open(p)) if e.get("property") == prop]


TRUSTED_BASE_COMMON = [
    "Coq 8.16.1 kernel (coqc, full .vo build); vm_compute used in proofs by computation and in case files; no native_compute",
    "the translators tools/gen_*.py (Python ast + reflection, fail-closed)",
    "the correspondence harness (generator, interpreter over the public API, printer to Gallina literals, reader of coqc output)",
    "Ref/* definitions as the formal reading of the property text",
]


TRANSLATOR_OUTPUTS = {
    "gen_children.py": ["Gen/Children.v", "Gen/EqHash.v"], "gen_effects.py": ["Gen/Effects.v"], "gen_footprints.py": ["Gen/Footprints.v"],
    "gen_prec.py": ["Gen/Prec.v"], "gen_tables.py": ["Gen/Ctx.v", "Gen/Enums.v", "Gen/Placeholders.v", "Gen/Interval.v"],
}


def proof_stage(run: Run, propfile, module, theorems, extra_targets=()):
    """regen + build + audit + Print Assumptions. Returns True when every obligation is discharged.
    Fills run.cov obligations/discharged. On failure records what broke in run.notes and returns False."""
    fails = regen()
    ok_all = True
    broken = []
    tgt = [propfile + "o"] + [t + "o" for t in extra_targets]
    if fails:
        # a translator that fails leaves its generated file as it was: it breaks the tie of exactly those properties whose proofs or case
        # files (the cone of the targets) read that file - not of the others
        try:
            needed = set()
            for t in [propfile] + list(extra_targets):
                needed |= set(cone(t))
        except Exception:  # noqa
            needed = None
        for f in fails:
            tool = f.split(":", 1)[0]
            outs = TRANSLATOR_OUTPUTS.get(tool)
            if needed is None or outs is None or any(o in needed for o in outs):
                ok_all = False
                broken.append("translator: " + f)
            else:
                run.notes.append("translator %s failed; its output (%s) is not read by this property's proofs or case files" % (tool, ", ".join(outs)))
    ok, log = build(tgt)
    if not ok:
        ok_all = False
        errs = [l for l in log.splitlines() if l.startswith("File ") or "Error" in l or "timeout" in l]
        broken.append("build of %s failed: %s" % (propfile, " | ".join(errs[:6])))
    files = cone(propfile) if ok else [propfile]
    hits = audit(files)
    if hits:
        ok_all = False
        broken.append("audit: " + "; ".join(hits[:10]))
    obligations = count_obligations([f for f in files if not f.startswith("Gen/")])
    discharged = len(obligations) if ok else 0
    ass = {}
    if ok:
        ass, out = print_assumptions(run.workdir, module, theorems)
        if ass is None:
            ok_all = False
            broken.append("Print Assumptions failed: " + out[-400:])
            ass = {}
        else:
            for t in theorems:
                if t not in ass or not assumptions_ok(ass[t]):
                    ok_all = False
                    broken.append("theorem %s: assumptions not allowed / not found: %s" % (t, ass.get(t, "<missing>")[:200]))
    run.cov["obligations"] = len(obligations) + len(theorems) * 0
    run.cov["discharged"] = discharged if ok_all or ok else 0
    run.cov["checker_cmd"] = "cd /verif/coq && make -j16 %s  (coq_makefile, full .vo) ; coqc Audit_*.v (Print Assumptions)" % " ".join(tgt)
    run.cov["theorems"] = {t: ass.get(t, "<not checked>") for t in theorems}
    run.cov["cone_files"] = files
    run.cov["trusted_base"] = list(TRUSTED_BASE_COMMON)
    run.broken = broken
    return ok_all


# ----------------------------------------------------------------------------------------------
# evaluating lists of Coq expressions (statement-only case files: no model term involved)

def coq_eval(run, name, header, exprs, shard=300, timeout=1200):
    """exprs: Coq terms of type N (each 0..60).  Returns (values, errors): values[i] is an int or None."""
    shards, index = [], []
    for s in range(0, len(exprs), shard):
        chunk = exprs[s:s + shard]
        text = header + "\nDefinition cases : list N := [\n" + ";\n".join(chunk) + '\n].\nGoal True. idtac "@@CODES". Abort.\nEval vm_compute in (codes cases).\n'
        shards.append(("%s_%04d" % (name, len(shards)), text))
        index.append(list(range(s, s + len(chunk))))
    res = run_shards(run.workdir, shards, timeout=timeout)
    vals = [None] * len(exprs)
    errors = []
    for (nm, _), idxs in zip(shards, index):
        rc, out = res[nm]
        codes = parse_codes(out) if rc == 0 else None
        if codes is None or len(codes) != len(idxs):
            errors.append("%s: rc=%s %s" % (nm, rc, out[-500:]))
            continue
        for i, c in zip(idxs, codes):
            vals[i] = ord(c) - 48
    return vals, errors

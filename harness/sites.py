"""Emission sites for names (C07) and value positions (C05): small programs over the public API, parameterised by
N (name key -> name), V (base value -> value) and the query class."""
from __future__ import annotations

import pypika_tortoise as P
from pypika_tortoise import functions as fn, analytics as an, terms as T, queries as Q
from pypika_tortoise.enums import Order
from pypika_tortoise.dialects import MSSQLQuery, MySQLQuery, OracleQuery, PostgreSQLQuery, SQLLiteQuery

UPSERT = (P.Query, PostgreSQLQuery, SQLLiteQuery, MySQLQuery)


def _t(N, k="t", **kw):
    return P.Table(N(k), **kw)


# ---------------------------------------------------------------------------------------------- names
def name_sites():
    S = []

    def site(label, only=None):
        def deco(f):
            S.append((label, f, only))
            return f
        return deco

    @site("from-table,select-column")
    def _(N, V, Qc):
        t = _t(N)
        return Qc.from_(t).select(t[N("c")], N("d"))

    @site("schema-str")
    def _(N, V, Qc):
        t = _t(N, schema=N("s"))
        return Qc.from_(t).select(t[N("c")])

    @site("schema-chain")
    def _(N, V, Qc):
        t = P.Table(N("t"), schema=[N("db"), N("s")])
        return Qc.from_(t).select("*")

    @site("database-schema-table")
    def _(N, V, Qc):
        t = getattr(getattr(Q.Database(N("db")), N("s")), N("t")) if N("s").isidentifier() and N("t").isidentifier() and not N("s").startswith("_") and not N("t").startswith("_") \
            else P.Table(N("t"), schema=Q.Schema(N("s"), parent=Q.Database(N("db"))))
        return Qc.from_(t).select(t[N("c")])

    @site("table-alias,qualifier")
    def _(N, V, Qc):
        t = _t(N, alias=N("al"))
        return Qc.from_(t).select(t[N("c")], t.star).where(t[N("d")] == 1)

    @site("join-on,qualifiers")
    def _(N, V, Qc):
        t, u = _t(N), _t(N, "u")
        return Qc.from_(t).join(u).on(t[N("c")] == u[N("d")]).select(t[N("c")], u[N("e")]).orderby(u[N("d")])

    @site("join-aliased")
    def _(N, V, Qc):
        t, u = _t(N), _t(N, "u", alias=N("ua"))
        return Qc.from_(t).left_join(u).on(t[N("c")] == u[N("c")]).select(u.star, t[N("c")])

    @site("self-join")
    def _(N, V, Qc):
        t = _t(N)
        t2 = _t(N)
        return Qc.from_(t).join(t2).on(t[N("c")] == t2[N("d")]).select(t[N("c")], t2[N("d")])

    @site("join-using")
    def _(N, V, Qc):
        t, u = _t(N), _t(N, "u")
        return Qc.from_(t).join(u).using(N("c"), N("d")).select(t[N("c")])

    @site("select-alias,groupby-alias,orderby-alias")
    def _(N, V, Qc):
        t = _t(N)
        f = fn.Sum(t[N("c")]).as_(N("al"))
        g = t[N("d")].as_(N("gl"))
        return Qc.from_(t).select(g, f).groupby(g).orderby(f, order=Order.desc)

    @site("alias-as-keyword-context")
    def _(N, V, Qc):
        t = _t(N, alias=N("ta"))
        return Qc.from_(t).select(t[N("c")].as_(N("al")))

    @site("index-hints")
    def _(N, V, Qc):
        t = _t(N)
        return Qc.from_(t).select(t[N("c")]).force_index(N("i1"), N("i2")).use_index(N("i3"))

    @site("index-term")
    def _(N, V, Qc):
        t = _t(N)
        return Qc.from_(t).select(t[N("c")]).force_index(T.Index(N("i1")))

    @site("for-update-of")
    def _(N, V, Qc):
        t = _t(N)
        return Qc.from_(t).select(t[N("c")]).for_update(of=(N("t"), N("u")))

    # names that differ only in letter case are different identifiers: both must be written, each as given
    @site("for-update-of-case-twins")
    def _(N, V, Qc):
        t = _t(N)
        return Qc.from_(t).select(t[N("c")]).for_update(of=(N("t"), N("t~"), N("u")))

    @site("columns-case-twins")
    def _(N, V, Qc):
        t = _t(N)
        return Qc.from_(t).select(t[N("c")], t[N("c~")].as_(N("al"))).where(t[N("c~")] == 1).groupby(t[N("c")], t[N("c~")]).orderby(t[N("c~")])

    @site("tables-case-twins")
    def _(N, V, Qc):
        t, u = P.Table(N("t")), P.Table(N("t~"))
        return Qc.from_(t).join(u).on(t[N("k")] == u[N("k")]).select(t[N("c")], u[N("c")])

    # particular names that mean something when written bare: a COLUMN called "*", "NULL", "DEFAULT", "?" is still one quoted identifier
    for special in ("*", "NULL", "DEFAULT", "?", "%s", "1"):
        @site("column-named-%s" % special)
        def _(N, V, Qc, special=special):
            t = _t(N)
            c = t.field(N("=" + special))
            return Qc.from_(t).select(c, t[N("d")]).where(c > 1).groupby(c).orderby(c)

        @site("update-column-named-%s" % special)
        def _(N, V, Qc, special=special):
            t = _t(N)
            return Qc.update(t).set(t.field(N("=" + special)), 2).where(t.field(N("=" + special)) == 1)

    # the helper constructors (Query.Table / Query.Tables / make_tables / make_columns) with names of every short length: a name is a
    # name whatever its length, a (name, alias) pair only when it is given as a 2-tuple
    for short in ("i", "id", 'x"', "a b", "ab`"):
        @site("tables-helper-name-%r" % short)
        def _(N, V, Qc, short=short):
            t, u = Qc.Tables(N("=" + short), (N("u"), N("ua")))
            return Qc.from_(t).join(u).on(t[N("c")] == u[N("d")]).select(t[N("c")], u.star).where(t[N("=" + short)] == 1)

        @site("table-helper-name-%r" % short)
        def _(N, V, Qc, short=short):
            t = Qc.Table(N("=" + short))
            (w,) = Q.make_tables(N("w"))
            return Qc.from_(t).join(w).on(t[N("c")] == w[N("c")]).select(t[N("c")], w[N("=" + short)])

        @site("create-table-columns-helper-%r" % short)
        def _(N, V, Qc, short=short):
            cols = Q.make_columns(N("=" + short), (N("c"), "INT"))
            return Qc.create_table(N("t")).columns(*cols).unique(N("=" + short))

    @site("cte-definition-and-reference")
    def _(N, V, Qc):
        t = _t(N)
        inner = Qc.from_(t).select(t[N("c")])
        a = P.AliasedQuery(N("cte"))
        return Qc.with_(inner, N("cte")).from_(a).select(a[N("c")])

    @site("subquery-alias,qualifier")
    def _(N, V, Qc):
        t = _t(N)
        sub = Qc.from_(t).select(t[N("c")]).as_(N("sq"))
        return Qc.from_(sub).select(sub[N("c")])

    @site("subquery-auto-alias")
    def _(N, V, Qc):
        t = _t(N)
        sub = Qc.from_(t).select(t[N("c")])
        return Qc.from_(sub).select(sub[N("c")])

    @site("insert-columns")
    def _(N, V, Qc):
        return Qc.into(_t(N)).columns(N("c"), N("d")).insert(1, 2)

    @site("update-set,where")
    def _(N, V, Qc):
        t = _t(N)
        return Qc.update(t).set(t[N("c")], 1).set(N("d"), 2).where(t[N("e")] == 3)

    @site("update-from-join")
    def _(N, V, Qc):
        t, u = _t(N), _t(N, "u")
        return Qc.update(t).join(u).on(t[N("c")] == u[N("c")]).set(t[N("d")], u[N("d")])

    @site("delete-where")
    def _(N, V, Qc):
        t = _t(N)
        return Qc.from_(t).delete().where(t[N("c")] == 1)

    @site("on-conflict-fields,do-update", only=UPSERT)
    def _(N, V, Qc):
        t = _t(N)
        return Qc.into(t).columns(N("c"), N("d")).insert(1, 2).on_conflict(N("c")).do_update(N("d"), 5).do_update(N("e"))

    @site("returning", only=(PostgreSQLQuery,))
    def _(N, V, Qc):
        t = _t(N)
        return Qc.into(t).insert(1).returning(t[N("c")], N("d"), t[N("e")].as_(N("al")))

    @site("distinct-on", only=(PostgreSQLQuery,))
    def _(N, V, Qc):
        t = _t(N)
        return Qc.from_(t).select(t[N("c")]).distinct_on(N("d"), t[N("e")])

    @site("setop-orderby")
    def _(N, V, Qc):
        t, u = _t(N), _t(N, "u")
        return Qc.from_(t).select(t[N("c")]).union(Qc.from_(u).select(u[N("c")])).orderby(N("c"))

    @site("analytic-partition-order")
    def _(N, V, Qc):
        t = _t(N)
        return Qc.from_(t).select(an.Rank().over(t[N("c")]).orderby(t[N("d")]).as_(N("al")))

    @site("function-args,case")
    def _(N, V, Qc):
        t = _t(N)
        return Qc.from_(t).select(fn.Coalesce(t[N("c")], t[N("d")]), P.Case().when(t[N("e")] == 1, t[N("c")]).else_(t[N("d")]).as_(N("al")))

    @site("in-subquery")
    def _(N, V, Qc):
        t, u = _t(N), _t(N, "u")
        return Qc.from_(t).select(t[N("c")]).where(t[N("c")].isin(Qc.from_(u).select(u[N("d")])))

    @site("temporal-for")
    def _(N, V, Qc):
        t = _t(N)
        return Qc.from_(t.for_(t[N("p")].between(1, 2))).select(N("c"))

    @site("mysql-on-duplicate-alias", only=(MySQLQuery,))
    def _(N, V, Qc):
        t = _t(N)
        return Qc.into(t).columns(N("c")).insert(1).as_(N("al")).on_conflict().do_update(N("c"))

    @site("create-table-columns")
    def _(N, V, Qc):
        return P.Query.create_table(_t(N)).columns(P.Column(N("c"), "INT"), P.Column(N("d"), "VARCHAR(10)", nullable=False)).unique(N("c"), N("d")).primary_key(N("c"))

    @site("create-table-period,foreign-key")
    def _(N, V, Qc):
        return P.Query.create_table(_t(N)).columns(P.Column(N("c"), "INT"), P.Column(N("d"), "INT")).period_for(N("p"), N("c"), N("d"))

    @site("create-as-select,drop")
    def _(N, V, Qc):
        t = _t(N)
        return P.Query.create_table(_t(N, "n")).as_select(P.Query.from_(t).select(t[N("c")]))

    @site("drop-table")
    def _(N, V, Qc):
        return P.Query.drop_table(_t(N, schema=N("s"))).if_exists()

    @site("mysql-load", only=(MySQLQuery,))
    def _(N, V, Qc):
        return MySQLQuery.load("/f.csv").into(_t(N))
    return S


# ---------------------------------------------------------------------------------------------- values
def value_sites():
    S = []

    def site(label, only=None):
        def deco(f):
            S.append((label, f, only))
            return f
        return deco

    @site("select-list")
    def _(N, V, Qc):
        t = P.Table("t")
        x = V
        return Qc.from_(t).select(t.a, T.ValueWrapper(x) if isinstance(x, str) else x)

    @site("select-list-dialect-wrapper")
    def _(N, V, Qc):
        t = P.Table("t")
        b = Qc._builder()
        return Qc.from_(t).select(b._wrapper_cls(V), t.a)

    @site("where-eq")
    def _(N, V, Qc):
        t = P.Table("t")
        return Qc.from_(t).select(t.a).where(t.a == V).where(t.b == 1)

    @site("where-like,between")
    def _(N, V, Qc):
        t = P.Table("t")
        return Qc.from_(t).select(t.a).where(t.a.like(V) if isinstance(V, str) else t.a.between(V, 5)).where(t.c < 2)

    @site("in-list")
    def _(N, V, Qc):
        t = P.Table("t")
        return Qc.from_(t).select(t.a).where(t.a.isin([1, V, "z"]))

    @site("insert-row")
    def _(N, V, Qc):
        return Qc.into(P.Table("t")).columns("a", "b", "c").insert(1, V, "z").insert(V, 2, None)

    @site("update-set")
    def _(N, V, Qc):
        t = P.Table("t")
        return Qc.update(t).set(t.a, V).set("b", 1).where(t.c == V)

    @site("function-argument")
    def _(N, V, Qc):
        t = P.Table("t")
        return Qc.from_(t).select(fn.Coalesce(t.a, V), fn.Concat(V, t.b, "z")).where(fn.Lower(t.a) == V)

    @site("case-branches")
    def _(N, V, Qc):
        t = P.Table("t")
        return Qc.from_(t).select(P.Case().when(t.a == V, V).when(t.b == 1, "z").else_(V))

    @site("having,groupby")
    def _(N, V, Qc):
        t = P.Table("t")
        return Qc.from_(t).select(t.a, fn.Count("*")).groupby(t.a).having(fn.Max(t.b) > V)

    @site("join-on")
    def _(N, V, Qc):
        t, u = P.Table("t"), P.Table("u")
        return Qc.from_(t).join(u).on((t.a == u.a) & (u.b == V)).select(t.a)

    @site("upsert-update", only=UPSERT)
    def _(N, V, Qc):
        t = P.Table("t")
        return Qc.into(t).columns("a", "b").insert(1, V).on_conflict("a").do_update("b", V)

    @site("subquery-where")
    def _(N, V, Qc):
        t, u = P.Table("t"), P.Table("u")
        return Qc.from_(t).select(t.a).where(t.a.isin(Qc.from_(u).select(u.a).where(u.b == V)))

    @site("setop-operand")
    def _(N, V, Qc):
        t, u = P.Table("t"), P.Table("u")
        return Qc.from_(t).select(t.a).where(t.b == V).union(Qc.from_(u).select(u.a).where(u.b == V))

    @site("mysql-load-file", only=(MySQLQuery,))
    def _(N, V, Qc):
        if not isinstance(V, str) or V == "":
            raise ValueError("a file name (an empty one means: no file given yet, the builder is incomplete)")
        return MySQLQuery.load(V).into(P.Table("t"))

    @site("column-default")
    def _(N, V, Qc):
        return P.Query.create_table(P.Table("t")).columns(P.Column("a", "VARCHAR(20)", default=V), P.Column("b", "INT"))

    @site("tuple,array")
    def _(N, V, Qc):
        t = P.Table("t")
        return Qc.from_(t).select(t.a).where(T.Tuple(t.a, t.b) == T.Tuple(V, 1)).where(t.c == T.Array(V, 2))

    @site("json-term")
    def _(N, V, Qc):
        t = P.Table("t")
        return Qc.from_(t).select(T.JSON(V))

    # the right operand of the JSON operators (constants are wrapped by their own helper)
    @site("json-contains")
    def _(N, V, Qc):
        t = P.Table("t")
        if not isinstance(V, (str, int, dict, list)):
            raise ValueError("a key, a scalar written as a plain literal, or a JSON document")
        return Qc.from_(t).select(t.a).where(t.j.contains(V)).where(t.b == 1)

    @site("json-contained-by,has-key")
    def _(N, V, Qc):
        t = P.Table("t")
        if not isinstance(V, (str, int, dict, list)):
            raise ValueError("a key, a scalar written as a plain literal, or a JSON document")
        return Qc.from_(t).select(t.a).where(t.j.contained_by(V) | t.j.has_key(V))

    @site("json-path,value")
    def _(N, V, Qc):
        t = P.Table("t")
        if not isinstance(V, (str, int)) or isinstance(V, bool):
            raise ValueError("a key, index or path")
        return Qc.from_(t).select(t.j.get_json_value(V), t.j.get_text_value(V)).where(t.j.get_path_json_value(V).isnull() if isinstance(V, str) else t.b == 1)

    @site("orderby,analytic")
    def _(N, V, Qc):
        t = P.Table("t")
        return Qc.from_(t).select(an.Lag(t.a, 1, V).over(t.b)).orderby(fn.Coalesce(t.a, V))

    @site("returning", only=(PostgreSQLQuery,))
    def _(N, V, Qc):
        t = P.Table("t")
        return Qc.update(t).set(t.a, V).returning(t.a, V if not isinstance(V, str) else T.ValueWrapper(V))
    return S

"""Confirm a seeded change and store it under /verif/seeded/.  Usage: seedtool.py <Cxx> <k> [--check]
Confirms in a scratch worktree of /repo HEAD: patch applies, the test suite passes with it, the demo
fails with it and passes without it.  With --check also applies it to /repo, runs ./check Cxx, reverts."""
import json, os, shutil, subprocess, sys
prop, k = sys.argv[1], sys.argv[2]
docheck = "--check" in sys.argv
src = "/tmp/seed_%s" % prop
wt = "/tmp/wt_confirm_%s_%s" % (prop, k)
def sh(cmd, **kw):
    return subprocess.run(cmd, shell=True, capture_output=True, text=True, **kw)
sh("git -C /repo worktree remove --force %s" % wt)
r = sh("git -C /repo worktree add -q --detach %s HEAD" % wt); assert r.returncode == 0, r.stderr
res = {}
try:
    demo = "%s/demo_%s.py" % (src, k)
    r = sh("PYTHONPATH=%s /venv/bin/python %s" % (wt, demo)); res["demo_rc_pristine"] = r.returncode
    r = sh("git -C %s apply %s/patch_%s.diff" % (wt, src, k)); res["apply_rc"] = r.returncode; res["apply_err"] = r.stderr[-300:]
    if r.returncode == 0:
        r = sh("cd %s && PYTHONPATH=%s /venv/bin/python -m pytest -q -p no:cacheprovider 2>&1 | tail -1" % (wt, wt)); res["pytest"] = r.stdout.strip()
        r = sh("PYTHONPATH=%s /venv/bin/python %s" % (wt, demo)); res["demo_rc_changed"] = r.returncode
finally:
    sh("git -C /repo worktree remove --force %s" % wt)
ok = res.get("apply_rc") == 0 and "867 passed" in res.get("pytest", "") and res.get("demo_rc_pristine") == 0 and res.get("demo_rc_changed", 0) != 0
res["confirmed"] = ok
if docheck and ok:
    assert sh("git -C /repo status --porcelain").stdout.strip() == "", "/repo not clean"
    sh("git -C /repo apply %s/patch_%s.diff" % (src, k))
    try:
        r = sh("cd /verif && ./check %s --tier quick" % prop, timeout=1800)
        res["check_rc"] = r.returncode
        res["check_out"] = [l for l in r.stdout.splitlines() if l.startswith(("VIOLATION", "OK", "KNOWN", "  ->"))][:6]
    finally:
        sh("git -C /repo checkout -- .")
        sh("rm -f /verif/replays/%s-*.json" % prop)
print(json.dumps(res, indent=1))
if ok:
    dst = "/verif/seeded/%s_%s" % (prop, k)
    os.makedirs(dst, exist_ok=True)
    shutil.copy("%s/patch_%s.diff" % (src, k), dst + "/patch.diff")
    shutil.copy(demo, dst + "/demo.py")
    meta = json.load(open("%s/meta_%s.json" % (src, k)))
    meta["confirmed_by"] = {"worktree_of": sh("git -C /repo rev-parse --short HEAD").stdout.strip(), "pytest": res.get("pytest"),
                            "demo_rc_pristine": res["demo_rc_pristine"], "demo_rc_changed": res["demo_rc_changed"]}
    if "check_rc" in res:
        meta["check"] = {"cmd": "./check %s --tier quick" % prop, "rc": res["check_rc"], "output": res["check_out"]}
    json.dump(meta, open(dst + "/meta.json", "w"), indent=1)

import sys, os, collections
sys.path.insert(0, os.path.dirname(os.path.dirname(os.path.abspath(__file__))))
import builders as B
leaks = collections.OrderedDict()
ncomb = 0
noargs = []
for cls, name in B.discover():
    recs = B.receivers(cls, name)
    if not recs:
        noargs.append((cls.__name__, name, "no receivers")); continue
    for ri, rf in enumerate(recs):
        for pat in range(3):
            r = rf()
            a0 = B.args_for(cls, name, r, 0)
            if a0 is None:
                noargs.append((cls.__name__, name, "no args")); break
            f0, objs0 = a0
            f1, objs1 = B.args_for(cls, name, r, 1)
            f2, objs2 = B.args_for(cls, name, r, 2)
            snap_r = B.observe(r)
            try:
                a = f0(r)
            except Exception as e:
                if B.observe(r) != snap_r:
                    leaks.setdefault((cls.__name__, name), []).append("receiver changed by a call that raised %s" % type(e).__name__)
                continue
            ncomb += 1
            if a is r:
                leaks.setdefault((cls.__name__, name), []).append("returned the receiver itself"); continue
            if B.observe(r) != snap_r:
                leaks.setdefault((cls.__name__, name), []).append("receiver changed (recv %d)" % ri); continue
            snap_a = B.observe(a)
            try:
                b = f1(r)
            except Exception:
                b = None
            if B.observe(r) != snap_r:
                leaks.setdefault((cls.__name__, name), []).append("receiver changed by 2nd call (recv %d)" % ri)
            if B.observe(a) != snap_a:
                leaks.setdefault((cls.__name__, name), []).append("sibling changed by 2nd call on receiver (recv %d)" % ri)
                snap_a = B.observe(a)
            snap_b = B.observe(b) if b is not None else None
            try:
                c = f2(a)
            except Exception:
                c = None
            if B.observe(a) != snap_a:
                leaks.setdefault((cls.__name__, name), []).append("object changed by a call on itself->child (recv %d)" % ri)
            if B.observe(r) != snap_r:
                leaks.setdefault((cls.__name__, name), []).append("ancestor changed by grandchild call (recv %d)" % ri)
            if b is not None and B.observe(b) != snap_b:
                leaks.setdefault((cls.__name__, name), []).append("sibling changed by call on other branch (recv %d)" % ri)
            break
print("combinations", ncomb)
for k, v in leaks.items():
    print("LEAK", k, sorted(set(v))[:3])
for x in noargs: print("SKIP", x)

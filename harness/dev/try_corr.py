"""Development driver: correspondence of Render on random objects; prints mismatches."""
import random, sys, os, collections
sys.path.insert(0, os.path.dirname(os.path.dirname(os.path.abspath(__file__))))
import core, corr, genobj

kind = sys.argv[1] if len(sys.argv) > 1 else "term"
n = int(sys.argv[2]) if len(sys.argv) > 2 else 300
seed = int(sys.argv[3]) if len(sys.argv) > 3 else 1
rng = random.Random(seed)
run = core.Run("DEV", "quick", seed)
ok, log = core.build(["Model/Render.vo", "Base/Codes.vo"])
if not ok:
    print(log[-3000:]); sys.exit(1)
C = corr.Corr(run)
g = genobj.G(rng, weird_names=True)
for i in range(n):
    try:
        if kind == "term":
            obj = g.term(3, 0.3)
        elif kind == "crit":
            obj = g.criterion(3)
        else:
            obj = g.statement()
    except Exception as e:
        continue
    cms = []
    for name, base in rng.sample(corr.BASE_CTXS, 3):
        if kind in ("term", "crit"):
            for c in corr.flag_variants(rng, base, 1):
                cms.append((name, c, rng.choice(["inline", "param", "inline", "factory"])))
        else:
            cms.append((name, base, "inline")); cms.append((name, base, "param"))
            for c in corr.flag_variants(rng, base, 1):
                cms.append((name, c, rng.choice(["inline", "param"])))
    C.add(obj, cms)
agree, errors = C.evaluate()
print("objects", len(C.items), "cases", len(C.cases), "unmodelled", C.unmodelled, "skipped_impl", C.skipped_impl)
for e in errors[:3]:
    print("ERR", e)
bad = [i for i, a in enumerate(agree) if a is False]
print("agree", sum(1 for a in agree if a), "mismatch", len(bad), "unevaluated", sum(1 for a in agree if a is None))
seen = set()
shown = 0
for i in bad:
    oid = C.cases[i][0]
    if oid in seen: continue
    seen.add(oid)
    c = C.cases[i]
    print("---- case", i, c[1], c[3], "flags", {k: getattr(c[2], k) for k in ("with_alias","with_namespace","subquery","subcriterion","as_keyword","groupby_alias","orderby_alias")})
    print("impl :", repr(c[4]), c[5])
    print("model:", C.debug_case(i))
    shown += 1
    if shown >= 6: break
import shutil; shutil.rmtree(run.workdir, ignore_errors=True)

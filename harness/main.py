"""./check dispatcher."""
from __future__ import annotations

import argparse
import importlib
import os
import sys
import traceback

sys.path.insert(0, os.path.dirname(os.path.abspath(__file__)))
import core  # noqa: E402


def setup():
    fails = core.regen()
    for f in fails:
        print("TRANSLATION-FAILED", f)
    ok, log = core.build(None, timeout=3000)
    print(log[-3000:])
    if not ok:
        print("SETUP: build failed")
        return 1
    print("SETUP: ok (%d files)" % len(core.vfiles()))
    return 0


def main():
    ap = argparse.ArgumentParser()
    ap.add_argument("prop", nargs="?")
    ap.add_argument("--setup", action="store_true")
    ap.add_argument("--tier", default=os.environ.get("VERIF_TIER", "quick"), choices=["quick", "thorough"])
    ap.add_argument("--replay")
    a = ap.parse_args()
    if a.setup:
        sys.exit(setup())
    if not a.prop:
        ap.error("property id required")
    seed = int(os.environ.get("VERIF_SEED", "20260926"))
    mod = importlib.import_module("props.%s" % a.prop.lower())
    run = core.Run(a.prop, a.tier, seed)
    try:
        if a.replay:
            sys.exit(mod.replay(run, a.replay))
        mod.check(run)
        rc = run.finish(level=getattr(mod, "LEVEL", "proof"))
    except Exception:
        # an internal error of the machinery is never a pass
        traceback.print_exc()
        run.violation("internal error of the check: " + traceback.format_exc()[-800:],
                      {"internal_error": traceback.format_exc()}, found_input=False)
        rc = run.finish(level=getattr(mod, "LEVEL", "proof"))
    sys.exit(rc)


if __name__ == "__main__":
    main()

"""Common flow of the rendering properties (C04-C13, C16): proofs, correspondence of Model.Render with the
implementation on property-specific objects, the property's executable statement (P_check, defined on the
specification side in Coq) judged on the IMPLEMENTATION's text, known findings, verdict, evidence."""
from __future__ import annotations

import base64
import json
import pickle
import random

import core
import corr

NS = {}


def eval_ns():
    """Namespace in which known-finding witnesses (Python expressions) are evaluated."""
    if NS:
        return NS
    import pypika_tortoise as P
    from pypika_tortoise import functions as fn, analytics as an, terms as T, queries as Q
    from pypika_tortoise.dialects import MSSQLQuery, MySQLQuery, OracleQuery, PostgreSQLQuery, SQLLiteQuery
    import datetime, decimal, uuid
    NS.update(dict(P=P, fn=fn, an=an, T=T, Q=Q, Query=P.Query, MSSQLQuery=MSSQLQuery, MySQLQuery=MySQLQuery, OracleQuery=OracleQuery,
                   PostgreSQLQuery=PostgreSQLQuery, SQLLiteQuery=SQLLiteQuery, Table=P.Table, Field=T.Field, datetime=datetime,
                   decimal=decimal, uuid=uuid))
    for k in dir(T):
        if k[0].isupper():
            NS.setdefault(k, getattr(T, k))
    NS["Table"] = P.Table
    return NS


CTX_BY_NAME = dict(corr.BASE_CTXS)


def pack(obj):
    try:
        return base64.b64encode(pickle.dumps(obj)).decode()
    except Exception:
        return None


def run_render_property(run, *, prop, propfile, module, theorems, items, pcheck, rule, nontrivial=lambda o: True,
                        extra_targets=(), assumptions=(), shard_objs=40, extra_cov=None):
    """items: iterable of (obj, [(ctxname, ctx, mode)], meta-dict).
    pcheck: (coq imports string, coq text defining pcheck and known)."""
    proofs_ok = core.proof_stage(run, propfile, module, theorems, extra_targets=list(extra_targets) + ["Base/Codes.v", "Model/Render.v"])
    C = corr.Corr(run, prop.lower())
    objs = []
    nobj = 0
    for it in items:
        obj, cms, meta = it[:3]
        ref = it[3] if len(it) > 3 else None
        nobj += 1
        r = C.add(obj, cms, meta, ref)
        if r is not None:
            objs.append(obj)
    # known findings: witnesses are evaluated like any other case
    known_entries = [e for e in core.load_known(prop) if e.get("status") == "known"]
    kidx = {}
    for e in known_entries:
        w = e["witness"]
        try:
            o = eval(w["expr"], eval_ns())
        except Exception as ex:  # noqa
            run.notes.append("known finding %s: witness does not build any more (%s)" % (e["id"], type(ex).__name__))
            continue
        n0 = len(C.cases)
        C.add(o, [(w.get("ctx", "Query"), _ctx_of(w), w.get("mode", "inline"))], {"known_id": e["id"]})
        if len(C.cases) > n0:
            kidx[e["id"]] = n0
            C.items_obj = getattr(C, "items_obj", {})
    agree, errors = C.evaluate(shard_objs=shard_objs, pcheck=pcheck)
    V = C.verdicts
    fails, mism, n_known, n_app, n_pass, n_known_pass = [], [], 0, 0, 0, 0
    for i, v in enumerate(V):
        if v is None:
            continue
        if not v["agree"]:
            mism.append(i)
        if v["pcheck"] is not None:
            n_app += 1
            if v["pcheck"]:
                n_pass += 1
                n_known_pass += 1 if v["known"] else 0
            elif v["known"]:
                n_known += 1
            else:
                fails.append(i)
    # the listed known findings
    known_ids_in_cases = set(kidx.values())
    for e in known_entries:
        i = kidx.get(e["id"])
        if i is None or V[i] is None:
            continue
        if V[i]["pcheck"] is False:
            run.known(e["what_fails"])
    fails = [i for i in fails if i not in known_ids_in_cases]
    # ---- verdict
    obj_of_case = {}
    for i in fails[:3]:
        oid, name, ctx, mode, sql, vals, meta = C.cases[i]
        run.violation("%s: the property's statement is false of the implementation's output under %s/%s: %r" % (prop, name, mode, sql[:300]),
                      {"kind": "pcheck", "context": name, "mode": mode, "flags": _flags(ctx), "impl_sql": sql, "impl_values": vals,
                       "meta": meta, "model": _dbg(C, i), "coq_term": C.items[oid][1][:6000]})
    if not fails:
        if mism:
            i = mism[0]
            oid, name, ctx, mode, sql, vals, meta = C.cases[i]
            run.violation("correspondence Model.Render / implementation broken on %d cases (e.g. %s/%s: impl %r); the property's statement held on every output examined"
                          % (len(mism), name, mode, sql[:200]),
                          {"correspondence": "Model.Render.render vs get_sql", "context": name, "mode": mode, "flags": _flags(ctx), "impl_sql": sql,
                           "impl_values": vals, "model": _dbg(C, i), "meta": meta}, found_input=False)
        elif C.unexpected_unmodelled():
            u = C.unexpected_unmodelled()
            run.violation("the model no longer covers what the generator builds: %d object(s) the dumper refuses (%s) - fail closed"
                          % (sum(u.values()), "; ".join("%s x%d" % kv for kv in list(u.items())[:4])),
                          {"correspondence": "harness/dump.py (live object -> Model.Syntax term)", "refused": u}, found_input=False)
        elif errors:
            run.violation("case files could not be evaluated: %s" % errors[0], {"errors": errors[:3]}, found_input=False)
        elif not proofs_ok:
            run.violation("proof obligation broken: %s" % "; ".join(run.broken),
                          {"broken": run.broken, "theorems": theorems, "file": "coq/" + propfile}, found_input=False)
    samples = []
    for i in (0, len(C.cases) // 2, len(C.cases) - 1):
        if 0 <= i < len(C.cases):
            c = C.cases[i]
            samples.append({"context": c[1], "mode": c[3], "impl_sql": c[4][:300], "values": c[5][:6], "verdict": V[i]})
    run.cov.update({
        "evaluations": len(C.cases), "distinct_nontrivial": len({C.items[c[0]][1] for c in C.cases if nontrivial(c)}),
        "rule": rule, "samples": samples, "exhaustive": False,
        "programs": len(C.items), "disagreements_checked": len(mism),
        "objects_generated": nobj, "objects_modelled": len(C.items), "unmodelled": C.unmodelled, "skipped_impl": C.skipped_impl,
        "model_agrees": sum(1 for a in agree if a), "pcheck_applicable": n_app, "pcheck_true": n_pass,
        "pcheck_false_in_known_class": n_known, "pcheck_true_in_known_class": n_known_pass, "pcheck_false_outside_known": len(fails),
    })
    if extra_cov:
        run.cov.update(extra_cov)
    run.assumptions += list(assumptions)
    return C


def _ctx_of(w):
    base = CTX_BY_NAME[w.get("ctx", "Query")]
    return base.copy(**w.get("flags", {}))


def _flags(ctx):
    return {k: getattr(ctx, k) for k in ("with_alias", "with_namespace", "subquery", "subcriterion", "as_keyword", "groupby_alias", "orderby_alias")}


def _dbg(C, i):
    try:
        return C.debug_case(i)
    except Exception as e:  # noqa
        return "<%s>" % type(e).__name__


def generic_replay(run, path, pcheck):
    """Re-judge the stored implementation text of a replay file, and print the stored details."""
    r = json.load(open(path))["replay"]
    print(json.dumps({k: v for k, v in r.items() if k != "coq_term"}, indent=1)[:4000])
    import shutil
    shutil.rmtree(run.workdir, ignore_errors=True)
    return 0

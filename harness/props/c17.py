"""C17 — equality and hashing of tables, schemas, aliased queries and query builders are coherent.

proof:   Props/C17.v (== is an equivalence, eq <-> equal hash key, set membership = linear search, for ALL names / schema chains / aliases; on the
         regenerated source facts: __hash__ reads exactly the attributes __eq__ compares, nodes_() visits every attribute that can hold a reference)
tie:     Gen/EqHash.v and Gen/Children.v regenerated on every run + correspondence of Model.EqHash.tbl_eq / tbl_key with the implementation's == and
         hash equality on the cross product of table variants (evaluated in Coq)
P_check: relational on the implementation: reflexive / symmetric / transitive, eq => equal hashes, `in set` / dict lookup / `in list` agree, equality
         and hash unchanged by rendering and consistent after as_() / for_() on an already hashed table; fields_() and tables_ equal an independent
         walk of the object graph for every Term subclass in every operand slot, both operand orders, same-named columns of different tables
"""
from __future__ import annotations

import itertools
import random

import core
import stmtprop
import termzoo
from coqemit import cstr, copt, clist
import pypika_tortoise as P
from pypika_tortoise import queries as Q, terms as T, functions as fn
from pypika_tortoise.dialects import PostgreSQLQuery, MySQLQuery
from props.c12 import operand_slots

LEVEL = "proof"
THEOREMS = ["C17_table_eq_equivalence", "C17_table_eq_hash", "C17_set_mem_is_linear", "C17_schema_aliased_builder", "C17_hash_over_eq_fields",
            "C17_visit_complete", "C17_nonvacuous"]
HEADER = ("From PT Require Import Base.Str Base.Codes Model.EqHash.\nOpen Scope N_scope.\n"
          "Definition j (a b : tbl) (impl_eq impl_hash_eq : bool) : N := b2n (Bool.eqb (tbl_eq a b) impl_eq && Bool.eqb (tkey_eqb (tbl_key a) (tbl_key b)) impl_hash_eq).\n")
FAIL, SEEN = [], {"pairs": 0, "triples": 0, "fields": 0}


def variants():
    """(description for the model, constructor) of table variants"""
    names = ["t", "u", "T"]
    # (a name that CONTAINS a dot is one name: "db.s" is not the schema s of database db)
    schemas = [None, "s", ["db", "s"], Q.Schema("s"), Q.Schema("s", parent=Q.Schema("db")), Q.Database("db").s, "S", "db.s", Q.Schema("db.s")]
    aliases = [None, "a", "t", ""]
    out = []
    for n, s, al in itertools.product(names, schemas, aliases):
        for temporal in (None, "for", "portion"):
            if temporal and (n != "t" or al == "t"):
                continue

            def mk(n=n, s=s, al=al, temporal=temporal):
                t = P.Table(n, schema=s, alias=al)
                if temporal == "for":
                    t = t.for_(T.Field("x") == 1)
                elif temporal == "portion":
                    t = t.for_portion(T.Field("p").from_to(1, 2))
                return t
            out.append(((n, s, al, temporal), mk))
    return out


def chain(t):
    s, out = t._schema, []
    while s is not None:
        out.append(s._name)
        s = s._parent
    return out if t._schema is not None else None


def coq_tbl(t):
    ch = chain(t)
    f = None
    if t._for is not None or t._for_portion is not None:
        f = "temporal"
    return "(MkTbl %s %s %s %s)" % (cstr(t._table_name), "None" if ch is None else "(Some %s)" % clist(ch, cstr), copt(t.alias), copt(f))


def graph_refs(x, seen=None, depth=0, stop_at_statements=True, top=True):
    """independent walk of the object graph: the (table identity, column) references and the tables held by x"""
    seen = seen if seen is not None else set()
    fields, tables = set(), set()
    if id(x) in seen or depth > 14:
        return fields, tables
    seen.add(id(x))
    if isinstance(x, T.Field) and not isinstance(x, T.Star):
        fields.add((x.name, tkey(x.table)))
    if isinstance(x, Q.Table):
        tables.add(tkey(x))
        return fields, tables
    if isinstance(x, (Q.QueryBuilder, Q._SetOperation)) and not top and stop_at_statements:
        return fields, tables        # a sub-query keeps its own fields
    if isinstance(x, (list, tuple, set, frozenset)):
        for y in x:
            f, t = graph_refs(y, seen, depth + 1, stop_at_statements, False)
            fields |= f
            tables |= t
    elif hasattr(x, "__dict__") and isinstance(x, (T.Node, Q.Join)):
        for k, y in x.__dict__.items():
            if k == "original_value":
                continue
            f, t = graph_refs(y, seen, depth + 1, stop_at_statements, False)
            fields |= f
            tables |= t
    return fields, tables


def sstr(e):
    try:
        return str(e)[:160]
    except Exception as ex:  # noqa  (an object that cannot be rendered still has references)
        return "<%s: %s>" % (type(e).__name__, type(ex).__name__)


def tkey(t):
    if t is None:
        return None
    if isinstance(t, Q.Table):
        return ("T", t._table_name, tuple(chain(t) or ()), t.alias)
    return ("S", id(t))


def cases(run, rng):
    del FAIL[:]
    for k in SEEN:
        SEEN[k] = 0
    V = variants()
    objs = [(d, mk()) for d, mk in V]
    # ---- pairs: ==, hash, containers; against the model
    pairs = list(itertools.product(range(len(objs)), repeat=2))
    if run.tier == "quick":
        pairs = [p for p in pairs if p[0] == p[1] or rng.random() < 0.25]
    for i, k in pairs:
        (da, a), (db, b) = objs[i], objs[k]
        eq, heq = bool(a == b), hash(a) == hash(b)
        SEEN["pairs"] += 1
        if eq != bool(b == a):
            FAIL.append({"kind": "not symmetric", "a": da, "b": db})
        if (a != b) == eq:
            FAIL.append({"kind": "!= is not the negation of ==", "a": da, "b": db})
        if eq and not heq:
            FAIL.append({"kind": "equal objects, different hashes", "a": da, "b": db})
        if (a in {b}) != (a in [b]) or (a in {b: 1}) != (a in [b]):
            FAIL.append({"kind": "set/dict membership differs from a linear search with ==", "a": da, "b": db, "in_set": a in {b}, "in_list": a in [b]})
        if i == k and not eq:
            FAIL.append({"kind": "not reflexive", "a": da})
        yield {"label": "pair", "corr": [], "expr": "j %s %s %s %s" % (coq_tbl(a), coq_tbl(b), "true" if eq else "false", "true" if heq else "false"), "known": None,
               "describe": {"a": str(da), "b": str(db), "impl_eq": eq, "impl_hash_eq": heq}}
    # ---- transitivity on triples
    idx = list(range(len(objs)))
    for _ in range(3000 if run.tier == "quick" else 40000):
        i, k, m = rng.choice(idx), rng.choice(idx), rng.choice(idx)
        a, b, c = objs[i][1], objs[k][1], objs[m][1]
        SEEN["triples"] += 1
        if a == b and b == c and not a == c:
            FAIL.append({"kind": "not transitive", "a": objs[i][0], "b": objs[k][0], "c": objs[m][0]})
    # ---- rendering and builder calls do not disturb equality / hashing
    for d, mk in V:
        a, b = mk(), mk()
        h0 = hash(a)
        str(a)
        a.get_sql(MySQLQuery.SQL_CONTEXT)
        if hash(a) != h0 or not a == b or hash(a) != hash(b):
            FAIL.append({"kind": "rendering changed equality or hash", "a": d})
        hash(a)                                      # hashed first ...
        x = a.as_("zz")                              # ... then derived
        y = P.Table(d[0], schema=d[1], alias="zz")
        if d[3] is None and (not x == y or hash(x) != hash(y) or (x in {y}) != (x in [y])):
            FAIL.append({"kind": "a table derived with as_() from an already hashed table is == but hashes differently", "a": d})
        f1, f2 = a.for_(T.Field("v") == 1) if d[3] is None else a, mk()
        if not f1 == f2 or hash(f1) != hash(f2):
            FAIL.append({"kind": "for_() changes identity (== or hash)", "a": d})
    # schemas, aliased queries, builders
    S = [Q.Schema("s"), Q.Schema("s"), Q.Schema("s", parent=Q.Schema("db")), Q.Database("db").s, Q.Schema("t"), Q.Schema("db.s"), Q.Schema("s", parent=Q.Schema("x.db")),
         Q.Schema("s", parent=Q.Schema("db", parent=Q.Schema("x"))), Q.Schema("db.s", parent=Q.Schema("x")), Q.Schema("")]
    AQ = [Q.AliasedQuery("c"), Q.AliasedQuery("c").as_("x"), Q.Cte("c", P.Query.from_("t").select("a")), Q.AliasedQuery("d"), Q.AliasedQuery("d", P.Query.from_("t").select("a")),
          # the same name around different things: an aliased sub-query, a table, another class's query
          Q.Cte("c", P.Query.from_("t").select("a").as_("x")), Q.AliasedQuery("c", P.Table("t")), Q.Cte("c", PostgreSQLQuery.from_("u").select("b").as_("y")),
          Q.AliasedQuery("d", P.Table("t", alias="ta")),
          # re-aliased so that name and alias differ, against a query whose NAME is that alias
          Q.AliasedQuery("b").as_("a"), Q.AliasedQuery("a"), Q.AliasedQuery("a").as_("b"), Q.Cte("b", P.Query.from_("t").select("a")).as_("c")]
    t1, t2 = P.Table("t"), P.Table("u")
    QB = [P.Query.from_(t1).select("a"), P.Query.from_(t2).select("b"), P.Query.from_(t1).select("a").as_("x"), PostgreSQLQuery.from_(t2).select("b").as_("x"),
          P.Query.from_(t1).select("a").as_("y")]
    for fam, L in (("Schema", S), ("AliasedQuery", AQ), ("QueryBuilder", QB)):
        for a, b in itertools.product(L, repeat=2):
            SEEN["pairs"] += 1
            try:
                eq, heq = bool(a == b), hash(a) == hash(b)
            except TypeError as e:
                FAIL.append({"kind": "unhashable", "family": fam, "error": str(e)})
                continue
            if eq != bool(b == a) or (eq and not heq) or (a in {b}) != (a in [b]):
                FAIL.append({"kind": "incoherent ==/hash/membership", "family": fam, "a": str(getattr(a, "__dict__", a))[:120], "b": str(getattr(b, "__dict__", b))[:120],
                             "eq": eq, "hash_eq": heq})
        for a, b, c in itertools.product(L, repeat=3):
            if a == b and b == c and not a == c:
                FAIL.append({"kind": "not transitive", "family": fam})
    # ---- fields_() / tables_ against the independent graph walk
    t, u, v = P.Table("t"), P.Table("u"), P.Table("t", schema="s")
    for cls in termzoo.live_term_classes():
        if cls.__name__ in termzoo.ABSTRACT or issubclass(cls, (Q.QueryBuilder, Q._SetOperation)):
            continue
        for tb in (t, u):
            x = termzoo.make(cls, tb)
            if x is None:
                continue
            exprs = [("self", x)]
            for sn, sf in operand_slots(t).items():        # the slots' own fields "qa","qb" belong to t; x's fields "a","b","c" to tb: overlapping names via below
                try:
                    exprs.append((sn, sf(termzoo.make(cls, tb))))
                except Exception:
                    pass
            # same-named columns of different tables, in both operand orders
            fa, fb, fc = T.Field("a", table=t), T.Field("a", table=u), T.Field("a", table=v)
            from pypika_tortoise import analytics as an_
            exprs += [("window-filter", an_.Sum(fa).filter(fc == fb).over(fb).orderby(fa)), ("window-filter-only-there", an_.Count(T.Star()).filter(fc > 1).over(fb)),
                      ("aggregate-filter", fn.Sum(fa).filter(fc == fb)), ("window-in-arith", an_.Max(fa).filter(fb.isnull()).over(fc) + fb),
                      ("in-container-field", fa.isin(fb)), ("in-container-function", fc.isin(fn.Coalesce(fb, fa))), ("notin-container-arith", fa.notin(fb + fc)),
                      ("in-container-under-not", ~(fa.isin(T.Function("unnest", fc)) & (fb == 1))),
                      ("same-name:t-u", fa == fb), ("same-name:u-t", fb == fa), ("same-name:sum", fa + fb + fc), ("same-name:between", fa.between(fb, fc)),
                      ("same-name:in", fc.isin([fb, fa])), ("same-name:case", P.Case().when(fa == 1, fb).else_(fc)), ("same-name:func", fn.Coalesce(fb, fc, fa))]
            for sn, e in exprs:
                if not hasattr(e, "fields_"):
                    continue
                try:
                    got_f = {(f.name, tkey(f.table)) for f in e.fields_() if not isinstance(f, T.Star)}
                    got_t = {tkey(tt) for tt in e.tables_}
                except Exception as ex:  # noqa
                    FAIL.append({"kind": "fields_/tables_ raises", "class": cls.__name__, "slot": sn, "error": type(ex).__name__})
                    continue
                exp_f, exp_t = graph_refs(e)
                SEEN["fields"] += 1
                if got_f != exp_f:
                    FAIL.append({"kind": "fields_() misses or invents references", "class": cls.__name__, "slot": sn, "missing": sorted(map(str, exp_f - got_f)),
                                 "extra": sorted(map(str, got_f - exp_f)), "sql": sstr(e)})
                elif got_t != exp_t:
                    FAIL.append({"kind": "tables_ misses or invents tables", "class": cls.__name__, "slot": sn, "missing": sorted(map(str, exp_t - got_t)),
                                 "extra": sorted(map(str, got_t - exp_t)), "sql": sstr(e)})


class LazyViolations:
    def __iter__(self):
        return iter([("C17: %s: %s" % (f["kind"], {k: str(v)[:200] for k, v in f.items() if k != "kind"}), dict(f)) for f in FAIL])


def lazy_cov():
    return {"pairs_compared": SEEN["pairs"], "triples_compared": SEEN["triples"], "fields_tables_compared": SEEN["fields"], "differences": len(FAIL),
            "distinct_nontrivial": SEEN["pairs"] + SEEN["fields"], "table_variants": len(variants())}


def check(run: core.Run):
    rng = random.Random(run.seed)
    stmtprop.run_statement_property(
        run, prop="C17", propfile="Props/C17.v", module="Props.C17", theorems=THEOREMS, header=HEADER, cases=cases(run, rng),
        what="the model's == / hash-key agree with the implementation", extra_violations=LazyViolations(), extra_cov=lazy_cov,
        extra_targets=["Gen/Children.v", "Gen/EqHash.v", "Model/EqHash.v"],
        rule="table variants = cross product of name x schema (None, str, list, Schema, nested Schema, Database attribute, other case) x alias x temporal clause "
             "(for_, for_portion): all (quick: a quarter of the) ordered pairs: == symmetric, != its negation, equal => equal hashes, `in set` / dict lookup = `in list`, and both == and "
             "hash equality equal Model.EqHash.tbl_eq / key equality evaluated in Coq; random triples for transitivity; equality and hash unchanged by rendering; a table derived by "
             "as_() / for_() from an already hashed table; schemas, aliased queries / CTEs and builders pairwise; fields_() and tables_ of every non-statement Term subclass in "
             "every operand slot, and of expressions over same-named columns of three tables in both operand orders, against an independent walk of the object graph.",
        assumptions=["distinct hash keys hash differently (collisions of CPython's hash are outside the model)"])


def replay(run, path):
    return stmtprop.generic_replay(run, path)

"""C03 — SQLite-dialect statements mean what the builder calls say (engine-checked).   PARTIAL.

proof:   Props/C03.v restates, for the SQLite class, the theorems the reading of a rendered statement rests on (operator tables C06, qualification C11,
         clause order and incomplete builders C13, literals C05, identifiers C07, row limiting C09) - "the rendered text and the transcription have the
         same reading under the reference grammar" is NOT proved as one theorem, and "the engine returns the same rows" cannot be (no formal SQLite).
tie:     correspondence of Model.Render on every generated statement; Ref.Clauses.wellformed in Coq on the implementation's text
search / supporting oracle (testing, labelled as such): every generated program is (a) built through SQLLiteQuery and rendered, (b) transcribed by an
         independent plain printer (fully parenthesised, every column qualified, AS for aliases) straight from the program; a real SQLite engine must accept
         (a), and on generated databases (NULL-heavy, duplicate-heavy, empty, single-row) both must return the same rows - in order when the program orders
         totally, as multisets otherwise - or leave the same table contents.
"""
from __future__ import annotations

import itertools
import random
import sqlite3

import core
import stmtprop
from coqemit import cstr
import pypika_tortoise as P
from pypika_tortoise import functions as fn, analytics as an, terms as T
from pypika_tortoise.dialects import SQLLiteQuery
from pypika_tortoise.dialects.sqlite import SQLLiteQueryBuilder

LEVEL = "proof"
THEOREMS = ["C03_sqlite_operator_tables", "C03_sqlite_qualification", "C03_sqlite_incomplete_is_empty", "C03_sqlite_literals_identifiers", "C03_sqlite_row_limit", "C03_scope"]
HEADER = ("From PT Require Import Base.Str Base.Codes Model.Types Ref.Lexer Ref.Clauses.\nOpen Scope N_scope.\n"
          "Definition j (sql : str) : N := match wellformed SQLITE BSQLite sql with Some true => 1 | Some false => 0 | None => 2 end.\n")
FAIL, SEEN = [], {"programs": 0, "executions": 0, "rejected_by_both": 0}
COLS = ["a", "b", "c"]          # a INTEGER, b INTEGER, c TEXT ; all NULL-able


# ----------------------------------------------------------------------------------------------------------------- program language
class E:
    """expression node: kind + children; `lib(env)` builds it through the public API, `plain(env)` transcribes it"""

    def __init__(self, kind, *kids, **kw):
        self.kind, self.kids, self.kw = kind, kids, kw

    def lib(self, env):
        k, c = self.kind, self.kids
        L = lambda i: c[i].lib(env)  # noqa
        if k == "col":
            return T.Field(c[1], table=env[c[0]])
        if k == "int":
            return T.ValueWrapper(c[0])
        if k == "str":
            return T.ValueWrapper(c[0])
        if k == "null":
            return P.NULL
        if k in "+-*":
            return {"+": lambda a, b: a + b, "-": lambda a, b: a - b, "*": lambda a, b: a * b}[k](L(0), L(1))
        if k == "neg":
            return -L(0)
        if k in ("=", "<>", "<", "<=", ">", ">="):
            return {"=": lambda a, b: a == b, "<>": lambda a, b: a != b, "<": lambda a, b: a < b, "<=": lambda a, b: a <= b, ">": lambda a, b: a > b,
                    ">=": lambda a, b: a >= b}[k](L(0), L(1))
        if k == "and":
            return L(0) & L(1)
        if k == "or":
            return L(0) | L(1)
        if k == "not":
            return ~L(0)
        if k == "isnull":
            return L(0).isnull()
        if k == "notnull":
            return L(0).notnull()
        if k == "in":
            return L(0).isin([x.lib(env) for x in c[1]])
        if k == "inraw":      # the list holds plain Python constants (None included), as a user writes it
            return L(0).notin(list(c[1])) if c[2] else L(0).isin(list(c[1]))
        if k == "between":
            return L(0).between(L(1), L(2))
        if k == "like":
            return L(0).like(c[1])
        if k == "case":
            cs = P.Case()
            for w, t in c[0]:
                cs = cs.when(w.lib(env), t.lib(env))
            return cs.else_(c[1].lib(env)) if c[1] is not None else cs
        if k == "fn":
            return {"COALESCE": fn.Coalesce, "ABS": fn.Abs, "LENGTH": fn.Length, "UPPER": fn.Upper, "LOWER": fn.Lower}[c[0]](*[x.lib(env) for x in c[1]])
        if k == "agg":
            f = {"SUM": fn.Sum, "COUNT": fn.Count, "MIN": fn.Min, "MAX": fn.Max, "AVG": fn.Avg}[c[0]]
            return f(c[1].lib(env)) if c[1] is not None else fn.Count("*")
        if k == "win":
            f = {"ROW_NUMBER": an.RowNumber, "RANK": an.Rank}[c[0]]() if c[1] is None else {"SUM": an.Sum, "COUNT": an.Count, "MAX": an.Max}[c[0]](c[1].lib(env))
            if c[2]:
                f = f.over(*[x.lib(env) for x in c[2]])
            # consecutive keys of one direction go into ONE orderby(k1, k2, .., order=d) call, as a user writes it
            runs = []
            for x, desc in c[3]:
                if runs and runs[-1][1] == desc:
                    runs[-1][0].append(x)
                else:
                    runs.append(([x], desc))
            for xs, desc in runs:
                f = f.orderby(*[x.lib(env) for x in xs], order=P.enums.Order.desc if desc else P.enums.Order.asc)
            return f
        if k == "insub":
            return L(0).isin(c[1].lib())
        raise KeyError(k)

    def plain(self, env):
        k, c = self.kind, self.kids
        S = lambda i: c[i].plain(env)  # noqa
        if k == "col":
            return '%s."%s"' % (env[c[0]], c[1])
        if k == "int":
            return "(%d)" % c[0]
        if k == "str":
            return "'%s'" % c[0].replace("'", "''")
        if k == "null":
            return "NULL"
        if k in "+-*" or k in ("=", "<>", "<", "<=", ">", ">="):
            return "(%s %s %s)" % (S(0), k, S(1))
        if k == "neg":
            return "(- %s)" % S(0)
        if k == "and":
            return "(%s AND %s)" % (S(0), S(1))
        if k == "or":
            return "(%s OR %s)" % (S(0), S(1))
        if k == "not":
            return "(NOT %s)" % S(0)
        if k == "isnull":
            return "(%s IS NULL)" % S(0)
        if k == "notnull":
            return "(NOT (%s IS NULL))" % S(0)
        if k == "in":
            return "(%s IN (%s))" % (S(0), ", ".join(x.plain(env) for x in c[1]))
        if k == "inraw":
            lits = ", ".join("NULL" if v is None else ("(%d)" % v if isinstance(v, int) else "'%s'" % v.replace("'", "''")) for v in c[1])
            return "(%s%s IN (%s))" % (S(0), " NOT" if c[2] else "", lits)
        if k == "between":
            return "(%s BETWEEN %s AND %s)" % (S(0), S(1), S(2))
        if k == "like":
            return "(%s LIKE '%s')" % (S(0), c[1])
        if k == "case":
            return "(CASE " + " ".join("WHEN %s THEN %s" % (w.plain(env), t.plain(env)) for w, t in c[0]) + (" ELSE %s" % c[1].plain(env) if c[1] is not None else "") + " END)"
        if k == "fn":
            return "%s(%s)" % (c[0], ", ".join(x.plain(env) for x in c[1]))
        if k == "agg":
            return "%s(%s)" % (c[0], c[1].plain(env) if c[1] is not None else "*")
        if k == "win":
            s = "%s(%s) OVER (" % (c[0], c[1].plain(env) if c[1] is not None else "")
            parts = []
            if c[2]:
                parts.append("PARTITION BY " + ", ".join(x.plain(env) for x in c[2]))
            if c[3]:
                parts.append("ORDER BY " + ", ".join(x.plain(env) + (" DESC" if d else " ASC") for x, d in c[3]))
            return s + " ".join(parts) + ")"
        if k == "insub":
            return "(%s IN (%s))" % (S(0), c[1].plain())
        raise KeyError(k)


class Sel:
    """SELECT program over sources: [(name, table-or-Sel, alias)]"""

    def __init__(self, rng=None):
        self.sources, self.joins, self.items, self.where, self.groupby, self.having = [], [], [], None, [], None
        self.distinct, self.orderby, self.limit, self.offset, self.setops = False, [], None, None, []

    def _envs(self):
        lib, plain = {}, {}
        for name, src, alias in self.sources + [(n, s, a) for (_, n, s, a, _) in self.joins]:
            if isinstance(src, Sel):
                lib[name] = src._lib_obj
                plain[name] = '"%s"' % alias
            else:
                lib[name] = src if alias is None else src
                plain[name] = '"%s"' % (alias or src._table_name)
        return lib, plain

    def lib(self):
        for name, src, alias in self.sources + [(n, s, a) for (_, n, s, a, _) in self.joins]:
            if isinstance(src, Sel):
                src._lib_obj = src.lib().as_(alias)
        lib, _ = self._envs()
        first = self.sources[0]
        q = SQLLiteQueryBuilder(wrap_set_operation_queries=False).from_(lib[first[0]])
        for name, src, alias in self.sources[1:]:
            q = q.from_(lib[name])
        for kind, name, src, alias, on in self.joins:
            j = q.join(lib[name], {"inner": P.enums.JoinType.inner, "left": P.enums.JoinType.left, "cross": P.enums.JoinType.cross}[kind])
            q = j.cross() if kind == "cross" else j.on(on.lib(lib))
        sel = []
        aliased = {}        # a select item reused as GROUP BY / ORDER BY key is handed over as the same aliased term (as a user does)
        for e, al in self.items:
            x = e.lib(lib)
            sel.append(x.as_(al) if al else x)
            if al:
                aliased[id(e)] = (e, al)
        key_term = lambda e: e.lib(lib).as_(aliased[id(e)][1]) if id(e) in aliased else e.lib(lib)  # noqa
        q = q.select(*sel)
        if self.distinct:
            q = q.distinct()
        if self.where is not None:
            q = q.where(self.where.lib(lib))
        if self.groupby:
            q = q.groupby(*[key_term(e) for e in self.groupby])
        if self.having is not None:
            q = q.having(self.having.lib(lib))
        for op, other in self.setops:
            q = getattr(q, op)(other.lib())
        for e, desc in self.orderby:
            q = q.orderby(key_term(e), order=P.enums.Order.desc if desc else P.enums.Order.asc)
        if self.limit is not None:
            q = q.limit(self.limit)
        if self.offset is not None:
            q = q.offset(self.offset)
        return q

    def plain(self):
        _, env = self._envs()

        def srcsql(src, alias):
            if isinstance(src, Sel):
                return "(%s) AS \"%s\"" % (src.plain(), alias)
            return '"%s"' % src._table_name + (' AS "%s"' % alias if alias else "")
        s = "SELECT " + ("DISTINCT " if self.distinct else "") + ", ".join(e.plain(env) + (' AS "%s"' % al if al else "") for e, al in self.items)
        s += " FROM " + ", ".join(srcsql(src, alias) for _, src, alias in self.sources)
        for kind, name, src, alias, on in self.joins:
            s += {"inner": " INNER JOIN ", "left": " LEFT JOIN ", "cross": " CROSS JOIN "}[kind] + srcsql(src, alias) + ("" if kind == "cross" else " ON " + on.plain(env))
        if self.where is not None:
            s += " WHERE " + self.where.plain(env)
        if self.groupby:
            s += " GROUP BY " + ", ".join(e.plain(env) for e in self.groupby)
        if self.having is not None:
            s += " HAVING " + self.having.plain(env)
        for op, other in self.setops:
            s += {"union": " UNION ", "union_all": " UNION ALL ", "intersect": " INTERSECT ", "except_of": " EXCEPT "}[op] + other.plain()
        if self.orderby:
            s += " ORDER BY " + ", ".join((e.plain(env) if not self.setops else str(i + 1 if False else self._pos(e))) + (" DESC" if d else " ASC") for i, (e, d) in enumerate(self.orderby))
        if self.limit is not None or self.offset is not None:
            s += " LIMIT %d" % (self.limit if self.limit is not None else -1)
            if self.offset is not None:
                s += " OFFSET %d" % self.offset
        return s

    def _pos(self, e):
        for i, (x, al) in enumerate(self.items):
            if x is e:
                return i + 1
        return 1


# ----------------------------------------------------------------------------------------------------------------- generator
def gen_expr(r, srcs, d, numeric=None):
    """srcs: list of source names whose columns a,b (INTEGER) and c (TEXT) are available"""
    if d <= 0 or r.random() < 0.3:
        k = r.random()
        if k < 0.6:
            col = r.choice(["a", "b"]) if numeric is not False else "c"
            if numeric is None and r.random() < 0.25:
                col = "c"
            return E("col", r.choice(srcs), col)
        if k < 0.85:
            return E("int", r.choice([0, 1, 2, 3, 5, -1, -2, 10])) if numeric is not False else E("str", r.choice(["x", "y", "it's", ""]))
        if k < 0.93:
            return E("null")
        return E("str", r.choice(["x", "y", "it's"])) if numeric is None else E("int", 7)
    k = r.random()
    if k < 0.45:
        op = r.choice("+-*")
        return E(op, gen_expr(r, srcs, d - 1, True), gen_expr(r, srcs, d - 1, True))
    if k < 0.55:
        return E("neg", gen_expr(r, srcs, d - 1, True))
    if k < 0.7:
        return E("fn", r.choice(["COALESCE"]), [gen_expr(r, srcs, d - 1, True), gen_expr(r, srcs, d - 1, True)])
    if k < 0.8:
        return E("fn", "ABS", [gen_expr(r, srcs, d - 1, True)])
    if k < 0.9:
        return E("case", [(gen_crit(r, srcs, d - 1), gen_expr(r, srcs, d - 1, True))], gen_expr(r, srcs, d - 1, True) if r.random() < 0.7 else None)
    return E("fn", "LENGTH", [E("col", r.choice(srcs), "c")])


def gen_crit(r, srcs, d):
    k = r.random()
    if d <= 0 or k < 0.4:
        return E(r.choice(["=", "<>", "<", "<=", ">", ">="]), gen_expr(r, srcs, max(d - 1, 0), True), gen_expr(r, srcs, max(d - 1, 0), True))
    if k < 0.55:
        return E(r.choice(["and", "or"]), gen_crit(r, srcs, d - 1), gen_crit(r, srcs, d - 1))
    if k < 0.63:
        return E("not", gen_crit(r, srcs, d - 1))
    if k < 0.73:
        return E(r.choice(["isnull", "notnull"]), gen_expr(r, srcs, d - 1, None))
    if k < 0.78:
        return E("in", gen_expr(r, srcs, d - 1, True), [E("int", x) for x in r.sample([0, 1, 2, 3, 5, 10], r.randint(1, 3))])
    if k < 0.83:
        return E("inraw", gen_expr(r, srcs, d - 1, True), r.sample([0, 1, 2, 3, 5, None, None], r.randint(1, 3)), r.random() < 0.5)
    if k < 0.92:
        return E("between", gen_expr(r, srcs, d - 1, True), E("int", r.choice([0, 1])), E("int", r.choice([2, 3, 5])))
    return E("like", E("col", r.choice(srcs), "c"), r.choice(["x%", "%", "_", "it%"]))


def gen_select(r, depth=2, simple=False):
    t, u = P.Table("t"), P.Table("u")
    s = Sel()
    shape = r.random()
    if shape < 0.45 or simple:
        al = r.choice([None, None, "ta"])
        s.sources = [("t", P.Table("t", alias=al) if al else t, al)]
    elif shape < 0.6:
        s.sources = [("t", t, None), ("u", u, None)]
    elif shape < 0.8 and depth > 0:
        s.sources = [("sq", gen_select(r, depth - 1, simple=True), "sq")]
    else:
        s.sources = [("t", t, None)]
    names = [n for n, _, _ in s.sources]
    subq_cols = None
    if s.sources[0][0] == "sq":
        subq_cols = [al for _, al in s.sources[0][1].items]
    if not simple and s.sources[0][0] != "sq" and r.random() < 0.5:
        kind = r.choice(["inner", "left", "left", "cross"])
        jal = r.choice([None, "ua"])
        jt = P.Table("u", alias=jal) if jal else (u if "u" not in names else P.Table("u", alias="u2"))
        jal = jt.alias
        on = gen_crit(r, names + ["j"], 1) if kind != "cross" else None
        if on is not None and r.random() < 0.7:
            on = E("=", E("col", names[0], "a"), E("col", "j", "a"))
        s.joins.append((kind, "j", jt, jal, on))
        names.append("j")

    def ex(d, numeric=None):
        if subq_cols is not None:
            e = E("col", "sq", r.choice(subq_cols))
            return e if d <= 0 or r.random() < 0.5 else E(r.choice("+-*"), e, E("int", r.choice([1, 2, -1])))
        return gen_expr(r, names, d, numeric)

    def cr(d):
        if subq_cols is not None:
            return E(r.choice(["=", "<", ">=", "<>"]), ex(0), E("int", r.choice([0, 1, 2, 5])))
        return gen_crit(r, names, d)
    def is_const(e):
        return e.kind in ("int", "str", "null") or (e.kind == "neg" and is_const(e.kids[0]))

    def key():
        e = ex(0)
        return e if not is_const(e) else (E("col", "sq", subq_cols[0]) if subq_cols is not None else E("col", names[0], "a"))
    grouped = not simple and r.random() < 0.3
    if grouped:
        keys = [key() for _ in range(r.randint(1, 2))]
        s.groupby = keys
        s.items = [(k, "g%d" % i) for i, k in enumerate(keys)] + [(E("agg", r.choice(["SUM", "COUNT", "MIN", "MAX"]), ex(1, True)), "agg0")]
        if r.random() < 0.4:
            s.items.append((E("agg", "COUNT", None), "cnt"))
        if r.random() < 0.5:
            s.having = E(r.choice([">", ">=", "<>"]), E("agg", r.choice(["COUNT", "MAX"]), ex(0, True)), E("int", r.choice([0, 1, 2])))
    else:
        s.items = [(ex(depth), "c%d" % i) for i in range(r.randint(1, 3))]
        if not simple and subq_cols is None and r.random() < 0.2:
            s.items.append((E("win", r.choice(["ROW_NUMBER", "RANK"]), None, [E("col", names[0], "a")], [(E("col", names[0], "b"), r.random() < 0.5), (E("col", names[0], "c"), False),
                                                                                                       (E("col", names[0], "a"), False)]), "w0"))
        if not simple and subq_cols is None and r.random() < 0.15:
            s.items.append((E("win", "SUM", E("col", names[0], "b"), [E("col", names[0], "a")], []), "w1"))
        s.distinct = r.random() < 0.2
    if r.random() < 0.65:
        s.where = cr(2)
        if not simple and subq_cols is None and depth > 0 and r.random() < 0.2:
            inner = gen_select(r, 0, simple=True)
            inner.items = inner.items[:1]
            s.where = E("and", s.where, E("insub", E("col", names[0], "a"), inner))
    if not simple and not grouped and r.random() < 0.15 and subq_cols is None:
        other = gen_select(r, 0, simple=True)
        other.items = [(gen_expr(r, [other.sources[0][0]], 1), None) for _ in s.items]
        other.distinct, other.orderby, other.limit, other.offset = False, [], None, None
        s.setops.append((r.choice(["union", "union_all", "intersect", "except_of"]), other))
    if r.random() < 0.6 and not s.setops:
        # a total order: every select item
        # (an integer constant as ORDER BY key is a column position in SQLite: constants are left out - the order is then total only if none was)
        s.orderby = [(e, r.random() < 0.4) for e, _ in s.items if not is_const(e)] if r.random() < 0.7 else [(x, r.random() < 0.5) for x, _ in s.items[:1] if not is_const(x)]
        if r.random() < 0.5:
            s.limit = r.choice([0, 1, 2, 5])
            if r.random() < 0.5:
                s.offset = r.choice([0, 1, 3])
        elif r.random() < 0.2:
            s.offset = r.choice([1, 2])
    return s


def total_order(s):
    def is_const(e):
        return e.kind in ("int", "str", "null") or (e.kind == "neg" and is_const(e.kids[0]))
    return bool(s.orderby) and len(s.orderby) >= len([1 for e, _ in s.items if not is_const(e)]) and not s.setops


def databases(r):
    vals_i = [None, 0, 1, 2, 3, 5, -1]
    vals_s = [None, "x", "y", "it's", "X", ""]
    out = [[], []]          # (t rows, u rows)
    dbs = [([], []), ([(1, 2, "x")], [(1, 5, "y")])]
    for _ in range(4):
        dbs.append(([(r.choice(vals_i), r.choice(vals_i), r.choice(vals_s)) for _ in range(r.randint(2, 7))], [(r.choice(vals_i), r.choice(vals_i), r.choice(vals_s)) for _ in range(r.randint(1, 6))]))
    dbs.append(([(1, 1, "x")] * 4 + [(None, None, None)] * 2, [(1, None, "x")] * 3))
    return dbs


def run_sql(sql, db_rows, dml_table=None):
    db = sqlite3.connect(":memory:")
    db.execute('CREATE TABLE "t" ("a" INTEGER, "b" INTEGER, "c" TEXT)')
    db.execute('CREATE TABLE "u" ("a" INTEGER, "b" INTEGER, "c" TEXT)')
    db.execute('CREATE TABLE "k" ("a" INTEGER PRIMARY KEY, "b" INTEGER, "c" TEXT)')
    db.executemany('INSERT INTO "t" VALUES (?,?,?)', db_rows[0])
    db.executemany('INSERT INTO "u" VALUES (?,?,?)', db_rows[1])
    seen = set()
    for row in db_rows[0]:
        if row[0] is not None and row[0] not in seen:
            seen.add(row[0])
            db.execute('INSERT INTO "k" VALUES (?,?,?)', row)
    try:
        cur = db.execute(sql)
        rows = cur.fetchall()
    except sqlite3.Error as e:
        return "ERR:" + str(e), None
    if dml_table:
        return "ok", sorted(db.execute('SELECT * FROM "%s"' % dml_table).fetchall(), key=repr)
    return "ok", rows


def dml_programs(r):
    """(label, library statement, transcription, table whose contents are compared)"""
    t, k = P.Table("t"), P.Table("k")
    out = []
    v1, v2 = r.choice([1, 2, 9]), r.choice([0, 5, None])
    s = r.choice(["x", "it's", ""])
    out.append(("insert-values", SQLLiteQuery.into(t).columns("a", "b", "c").insert(v1, v2, s).insert(7, None, "z"),
                'INSERT INTO "t" ("a", "b", "c") VALUES (%d, %s, \'%s\'), (7, NULL, \'z\')' % (v1, "NULL" if v2 is None else v2, s.replace("'", "''")), "t"))
    w = gen_crit(r, ["t"], 1)
    e = gen_expr(r, ["t"], 1, True)
    env_l, env_p = {"t": t}, {"t": '"t"'}
    out.append(("insert-select", SQLLiteQuery.into(P.Table("u")).columns("a", "b", "c").from_(t).select(t.a, e.lib(env_l), t.c).where(w.lib(env_l)),
                'INSERT INTO "u" ("a", "b", "c") SELECT "t"."a", %s, "t"."c" FROM "t" WHERE %s' % (e.plain(env_p), w.plain(env_p)), "u"))
    out.append(("update", SQLLiteQuery.update(t).set(t.b, e.lib(env_l)).set(t.c, s).where(w.lib(env_l)),
                'UPDATE "t" SET "b" = %s, "c" = \'%s\' WHERE %s' % (e.plain(env_p), s.replace("'", "''"), w.plain(env_p)), "t"))
    out.append(("delete", SQLLiteQuery.from_(t).delete().where(w.lib(env_l)), 'DELETE FROM "t" WHERE %s' % w.plain(env_p), "t"))
    out.append(("upsert-update", SQLLiteQuery.into(k).columns("a", "b", "c").insert(v1, 100, "new").on_conflict("a").do_update("b", 200).do_update("c"),
                'INSERT INTO "k" ("a", "b", "c") VALUES (%d, 100, \'new\') ON CONFLICT ("a") DO UPDATE SET "b" = 200, "c" = EXCLUDED."c"' % v1, "k"))
    out.append(("upsert-nothing", SQLLiteQuery.into(k).columns("a", "b", "c").insert(v1, 100, "new").on_conflict("a").do_nothing(),
                'INSERT INTO "k" ("a", "b", "c") VALUES (%d, 100, \'new\') ON CONFLICT ("a") DO NOTHING' % v1, "k"))
    return out


class Raw:
    """a hand-written program: the builder calls and the plain transcription side by side (rows compared as multisets)"""
    orderby, items, setops = [], [], []

    def __init__(self, libf, plain):
        self.libf, self._plain = libf, plain

    def lib(self):
        return self.libf()

    def plain(self):
        return self._plain


def correlated_programs():
    """correlated sub-queries whose WHERE is built by several where() calls, in every order of the calls"""
    Q_ = SQLLiteQuery
    t, u = P.Table("t"), P.Table("u")
    inner_plain = 'SELECT "u"."a" FROM "u" WHERE (("u"."b" = "t"."b") AND ("u"."c" = \'x\'))'
    conds = {"corr": lambda: u.b == t.b, "local": lambda: u.c == "x"}
    out = []
    for order in (("corr", "local"), ("local", "corr")):
        def inner(order=order):
            q = Q_.from_(u).select(u.a)
            for k in order:
                q = q.where(conds[k]())
            return q
        tag = "-then-".join(order)
        out.append(("shape:correlated-in:" + tag, Raw(lambda inner=inner: Q_.from_(t).select(t.a, t.b).where(t.a.isin(inner())),
                                                       'SELECT "t"."a", "t"."b" FROM "t" WHERE ("t"."a" IN (%s))' % inner_plain)))
        out.append(("shape:correlated-not-in:" + tag, Raw(lambda inner=inner: Q_.from_(t).select(t.a, t.b).where(t.a.notin(inner())),
                                                           'SELECT "t"."a", "t"."b" FROM "t" WHERE ("t"."a" NOT IN (%s))' % inner_plain)))
        out.append(("shape:correlated-scalar:" + tag, Raw(lambda inner=inner: Q_.from_(t).select(t.a, inner().limit(1)),
                                                           'SELECT "t"."a", (%s LIMIT 1) FROM "t"' % inner_plain)))
    return out


def shape_programs():
    """hand-made programs for constructs whose reading is delicate: operator adjacency and grouping, DISTINCT with GROUP BY, ORDER BY directions"""
    C = lambda n: E("col", "t", n)  # noqa
    I = lambda v: E("int", v)  # noqa
    exprs = [E("-", C("a"), E("*", I(-1), C("b"))), E("-", C("a"), E("*", E("neg", C("b")), I(2))), E("-", C("a"), E("neg", C("b"))), E("-", C("a"), I(-2)),
             E("neg", E("neg", C("a"))), E("neg", E("+", C("a"), I(1))), E("*", C("a"), E("+", C("b"), I(1))), E("-", C("a"), E("-", C("b"), I(1))),
             E("-", E("-", C("a"), C("b")), I(1)), E("*", E("-", C("a"), I(1)), E("neg", C("b"))), E("+", C("a"), E("*", I(-3), E("neg", C("b")))),
             E("-", I(0), E("*", E("*", I(-1), C("a")), C("b")))]
    out = []
    for i, e in enumerate(exprs):
        s = Sel()
        s.sources = [("t", P.Table("t"), None)]
        s.items = [(e, "v"), (C("a"), "a0"), (C("b"), "b0"), (C("c"), "c0")]
        s.where = E("or", E("notnull", e), E("isnull", C("a")))
        s.orderby = [(x, False) for x, _ in s.items]
        out.append(("shape:arith%d" % i, s))
    # DISTINCT with GROUP BY where the projection omits a group key
    for items, keys in (([(E("agg", "COUNT", None), "n")], [C("a")]), ([(C("a"), "a0")], [C("a"), C("c")]), ([(E("agg", "MAX", C("b")), "m")], [C("a"), C("b")])):
        s = Sel()
        s.sources = [("t", P.Table("t"), None)]
        s.items, s.groupby, s.distinct = items, keys, True
        out.append(("shape:distinct-groupby", s))
    # IN lists of plain Python constants with None among them: x NOT IN (1, NULL) is never true, x IN (2, NULL) is NULL rather than false
    for lst in ([1, None], [None], [2, None, 3], [0, 1]):
        for neg in (False, True):
            e = E("inraw", C("a"), lst, neg)
            for wrap in (lambda x: x, lambda x: E("not", x)):
                s = Sel()
                s.sources = [("t", P.Table("t"), None)]
                s.items = [(C("a"), "a0"), (C("b"), "b0"), (wrap(e), "v")]
                s.where = E("or", wrap(e), E("isnull", C("b")))
                s.orderby = [(C("a"), False), (C("b"), False)]
                out.append(("shape:in-list-with-none", s))
                s2 = Sel()
                s2.sources = [("t", P.Table("t"), None)]
                s2.items = [(C("a"), "a0"), (C("b"), "b0")]
                s2.where = wrap(e)
                out.append(("shape:in-list-with-none", s2))
    # chains of three operands mixing the compound operators (SQLite evaluates them left to right and rejects a parenthesised operand)
    ops = ["union", "union_all", "intersect", "except_of"]
    for o1 in ops:
        for o2 in ops:
            def one(col):
                x = Sel()
                x.sources = [("t", P.Table("t"), None)]
                x.items = [(C(col), "v")]
                return x
            s = one("a")
            s.setops = [(o1, one("b")), (o2, one("a"))]
            out.append(("shape:setop-chain", s))
    # ORDER BY a selected, aliased expression (written by its alias), in both directions, with and without LIMIT
    for desc in (True, False):
        for lim in (None, 2):
            s = Sel()
            s.sources = [("t", P.Table("t"), None)]
            k1, k2 = E("+", C("a"), I(1)), C("b")
            s.items = [(k1, "k"), (k2, "b0"), (C("c"), "c0")]
            s.orderby = [(k1, desc), (k2, not desc), (C("c"), False)]
            s.limit = lim
            out.append(("shape:orderby-selected-alias", s))
    # window functions ordered by several keys of one direction (ties on the first key make the later keys matter)
    for fnname, arg in (("ROW_NUMBER", None), ("RANK", None), ("SUM", C("b"))):
        for desc in (True, False):
            s = Sel()
            s.sources = [("t", P.Table("t"), None)]
            w = E("win", fnname, arg, [C("c")] if fnname != "RANK" else [], [(C("a"), desc), (C("b"), desc)])
            s.items = [(C("a"), "a0"), (C("b"), "b0"), (C("c"), "c0"), (w, "w")]
            s.orderby = [(C("a"), False), (C("b"), False), (C("c"), False)]
            out.append(("shape:window-orderby-keys", s))
    # ORDER BY with several keys and directions
    for dirs in ((True, True), (True, False), (False, True)):
        s = Sel()
        s.sources = [("t", P.Table("t"), None)]
        s.items = [(C("a"), "a0"), (C("b"), "b0"), (C("c"), "c0")]
        s.orderby = [(C("a"), dirs[0]), (C("b"), dirs[1]), (C("c"), False)]
        s.limit = 3
        out.append(("shape:orderby-directions", s))
    return out + correlated_programs()


def cases(run, rng):
    del FAIL[:]
    for k in SEEN:
        SEEN[k] = 0
    for label, s in shape_programs():
        try:
            q, plain = s.lib(), s.plain()
            sql1 = q.get_sql(SQLLiteQuery.SQL_CONTEXT)
        except Exception:
            continue
        SEEN["programs"] += 1
        for db in databases(random.Random(rng.randrange(1 << 30))) + databases(random.Random(7)):
            st1, r1 = run_sql(sql1, db)
            st2, r2 = run_sql(plain, db)
            SEEN["executions"] += 1
            if st2 != "ok":
                continue
            if st1 != "ok":
                FAIL.append({"kind": "SQLite rejects the rendered statement", "label": label, "sql": sql1, "transcription": plain, "error": st1})
                break
            same = (r1 == r2) if total_order(s) else (sorted(r1, key=repr) == sorted(r2, key=repr))
            if not same:
                FAIL.append({"kind": "different result than the plain transcription", "label": label, "sql": sql1, "transcription": plain, "database": db, "rows": r1[:8],
                             "expected_rows": r2[:8]})
                break
        yield {"label": label, "corr": [(q, [("SQLLiteQuery", SQLLiteQuery.SQL_CONTEXT, "inline")])], "expr": "j %s" % cstr(sql1), "known": None,
               "describe": {"sql": sql1, "transcription": plain}}
    n = 300 if run.tier == "quick" else 10000
    for i in range(n):
        r = random.Random(rng.randrange(1 << 30))
        dml = (i % 5 == 4)
        try:
            if dml:
                progs = dml_programs(r)
                label, q, plain, table = progs[r.randrange(len(progs))]
                ordered = False
            else:
                s = gen_select(r, 2)
                q, plain, table, label = s.lib(), s.plain(), None, "select"
                ordered = total_order(s)
            sql1 = q.get_sql(SQLLiteQuery.SQL_CONTEXT)
        except Exception as e:  # noqa
            continue
        SEEN["programs"] += 1
        dbs = databases(r)
        for di, db in enumerate(dbs if run.tier == "thorough" else dbs[:3] + dbs[-1:]):
            st1, r1 = run_sql(sql1, db, table)
            st2, r2 = run_sql(plain, db, table)
            SEEN["executions"] += 1
            if st2 != "ok":
                if st1 != "ok":
                    SEEN["rejected_by_both"] += 1     # the transcription itself is not valid SQLite (generator limit): not judged
                    break
                continue
            if st1 != "ok":
                FAIL.append({"kind": "SQLite rejects the rendered statement", "label": label, "sql": sql1, "transcription": plain, "error": st1})
                break
            same = (r1 == r2) if (ordered or table) else (sorted(r1, key=repr) == sorted(r2, key=repr))
            if not same:
                FAIL.append({"kind": "different result than the plain transcription", "label": label, "sql": sql1, "transcription": plain, "database": db,
                             "rows": r1[:8], "expected_rows": r2[:8]})
                break
        yield {"label": label, "corr": [(q, [("SQLLiteQuery", SQLLiteQuery.SQL_CONTEXT, "inline")])], "expr": "j %s" % cstr(sql1), "known": None,
               "describe": {"sql": sql1, "transcription": plain}}


class LazyViolations:
    def __iter__(self):
        return iter([("C03: %s: %s" % (f["kind"], {k: str(v)[:300] for k, v in f.items() if k != "kind"}), dict(f)) for f in FAIL])


def lazy_cov():
    return {"programs_executed": SEEN["programs"], "engine_executions": SEEN["executions"], "programs_whose_transcription_sqlite_rejects": SEEN["rejected_by_both"],
            "differences": len(FAIL), "engine": "SQLite " + sqlite3.sqlite_version,
            "partial": "the engine comparison is testing (supporting oracle and search for a failing input), not a theorem: no formal semantics of SQLite is available"}


def check(run: core.Run):
    rng = random.Random(run.seed)
    stmtprop.run_statement_property(
        run, prop="C03", propfile="Props/C03.v", module="Props.C03", theorems=THEOREMS, header=HEADER, cases=cases(run, rng),
        what="well-formedness of the SQLite statement", extra_violations=LazyViolations(), extra_cov=lazy_cov, extra_targets=["Ref/Clauses.v"],
        rule="programs of the relational core (expression projection with + - * unary minus COALESCE ABS LENGTH CASE, WHERE with comparisons / AND / OR / NOT / IS NULL / IN / BETWEEN / LIKE, "
             "inner / left / cross joins, aliased sources, sub-queries in FROM and IN, GROUP BY / HAVING with aggregates, DISTINCT, ORDER BY, LIMIT / OFFSET, unwrapped set operations, window "
             "functions; every fifth program a DML statement: INSERT VALUES / INSERT..SELECT / UPDATE / DELETE / upsert) are built through the SQLite classes AND transcribed by an independent "
             "plain printer (fully parenthesised, every column qualified, AS aliases); a real SQLite engine executes both on 4 (thorough 7) generated databases (empty, single row, random with "
             "NULLs and duplicates, duplicate-heavy): the rendered statement must be accepted and return the same rows (in order when the program orders by every select item, as a multiset "
             "otherwise) or leave the same table contents. Division is not generated (known finding C06-mul-div-right).",
        assumptions=["PARTIAL: 'returns the same rows' is established by execution on generated databases (testing), not by proof",
                     "the plain transcription printer (harness/props/c03.py) is the reading of 'what the builder calls say'"])


def replay(run, path):
    return stmtprop.generic_replay(run, path)

"""C06 — operator grouping of the expression tree survives rendering.

proof:   Props/C06.v (decision tables of the code = reference requirement, entry by entry; spellings; refuted/known class)
tie:     Gen/Prec.v, Gen/Enums.v regenerated from /repo (ast + reflection) + correspondence of Model.Render on expression trees
P_check: Ref.TreeOf.grouping_ok: lex and parse the implementation's text with the reference lexer/parser and compare with the
         built tree modulo the permitted re-associations — evaluated in Coq for every case
search:  every (parent, child, position) triple over all node kinds; all (grandparent, parent, child) chains over the operator
         kinds (thorough); random trees of depth <= 5 / 7
"""
from __future__ import annotations

import itertools
import random

import core
import corr
import renderprop
from pypika_tortoise import terms as T, functions as fn
import pypika_tortoise as P

LEVEL = "proof"
THEOREMS = ["C06_left_table", "C06_right_table", "C06_leaf_never_bracketed", "C06_connective_table", "C06_spellings",
            "C06_mul_div_refuted", "C06_nonvacuous"]

PCHECK = ("Ref.Lexer Ref.Parser Ref.TreeOf",
          "Definition pcheck (cx : ctx) (t : term) (sql : str) (param : bool) (vals : list str) : option bool := grouping_ok (dialect cx) t sql.\n"
          "Definition known (t : term) : bool := kf_c06 t.\n")


class NegEnum(__import__("enum").Enum):
    minus_two = -2


class Leafs:
    def __init__(self):
        self.n = 0

    def field(self):
        self.n += 1
        return T.Field("f%d" % self.n)

    def leaf(self, kind):
        if kind == "field":
            return self.field()
        if kind == "pos":
            return T.ValueWrapper(7)
        if kind == "neg":
            return T.ValueWrapper(-3)
        if kind == "zero":
            return T.ValueWrapper(0)
        # values written with a leading minus sign that are not "< 0" numbers
        if kind == "negzero":
            return T.ValueWrapper(-0.0)
        if kind == "negdec":
            return T.ValueWrapper(__import__("decimal").Decimal("-1.5"))
        if kind == "neglit":
            return T.LiteralValue("-1")
        if kind == "negenum":
            return T.ValueWrapper(NegEnum.minus_two)
        if kind == "str":
            return T.ValueWrapper("s")
        raise KeyError(kind)


LEAF_KINDS = ["field", "pos", "neg", "str", "negzero", "negdec", "neglit", "negenum"]
ARITH = {"add": lambda a, b: a + b, "sub": lambda a, b: a - b, "mul": lambda a, b: a * b, "div": lambda a, b: a / b}
CMP = {"eq": lambda a, b: a == b, "ne": lambda a, b: a != b, "lt": lambda a, b: a < b, "gte": lambda a, b: a >= b,
       "like": lambda a, b: T.BasicCriterion(P.enums.Matching.like, a, b)}
CONN = {"and": lambda a, b: T.ComplexCriterion(P.enums.Boolean.and_, a, b), "or": lambda a, b: T.ComplexCriterion(P.enums.Boolean.or_, a, b),
        "xor": lambda a, b: T.ComplexCriterion(P.enums.Boolean.xor_, a, b)}
# node kinds: name -> (arity, constructor)
KINDS = {}
for k, f in ARITH.items():
    KINDS[k] = (2, f)
for k, f in CMP.items():
    KINDS[k] = (2, f)
for k, f in CONN.items():
    KINDS[k] = (2, f)
KINDS["neg"] = (1, lambda a: T.Negative(a))
KINDS["not"] = (1, lambda a: T.Not(a))
KINDS["isnull"] = (1, lambda a: T.NullCriterion(a))
KINDS["in"] = (1, lambda a: T.ContainsCriterion(a, T.Tuple(1, 2)))
KINDS["between"] = (3, lambda a, b, c: T.BetweenCriterion(a, b, c))
KINDS["func"] = (2, lambda a, b: fn.Coalesce(a, b))
KINDS["case"] = (3, lambda a, b, c: P.Case().when(a, b).else_(c))
KINDS["bracket"] = (1, lambda a: T.Bracket(a))
KINDS["mod"] = (2, lambda a, b: a % b)            # MOD(a, b): a function call in every dialect
OPKINDS = list(ARITH) + ["eq", "lt"] + list(CONN) + ["neg", "not", "isnull"]


def build(kind, children, L):
    ar, f = KINDS[kind]
    kids = list(children) + [L.leaf("field") for _ in range(ar - len(children))]
    return f(*kids[:ar])


def node_with_child_at(kind, pos, child, L):
    ar, f = KINDS[kind]
    kids = [L.leaf("field") for _ in range(ar)]
    kids[pos] = child
    return f(*kids)


def triples():
    """Every (parent kind, position, child kind) over all node kinds and leaf kinds."""
    for pk, (ar, _) in KINDS.items():
        for pos in range(ar):
            for ck in list(KINDS) + LEAF_KINDS:
                L = Leafs()
                child = L.leaf(ck) if ck in LEAF_KINDS else build(ck, [], L)
                yield ("triple", pk, pos, ck), node_with_child_at(pk, pos, child, L)


BOOLKINDS = list(CONN) + ["not"]
ARITHKINDS = list(ARITH) + ["neg"]


def chains3(kinds=None):
    kinds = kinds or OPKINDS
    for gk in kinds:
        for gpos in range(KINDS[gk][0]):
            for pk in kinds:
                for ppos in range(KINDS[pk][0]):
                    for ck in kinds + (["neg_leaf"] if kinds is OPKINDS or kinds is ARITHKINDS else ["eq"]):
                        L = Leafs()
                        c = L.leaf("neg") if ck == "neg_leaf" else build(ck, [], L)
                        yield ("chain3", gk, gpos, pk, ppos, ck), node_with_child_at(gk, gpos, node_with_child_at(pk, ppos, c, L), L)


def convenience_items():
    """(meta, object built through Criterion.any / all and then combined, reference object built with the explicit constructors)"""
    OR, AND = P.enums.Boolean.or_, P.enums.Boolean.and_

    def chain(op, xs):
        r = xs[0]
        for x in xs[1:]:
            r = T.ComplexCriterion(op, r, x)
        return r
    for n in (2, 3):
        for outer in ("and-left", "and-right", "or-left", "not", "and-both", "alone"):
            for inner, iop in (("any", OR), ("all", AND)):
                def leaves():
                    L = Leafs()
                    return [L.field() == i for i in range(n)], L.field() == 9, [L.field() > i for i in range(n)]
                xs, c, ys = leaves()
                conv = (T.Criterion.any if inner == "any" else T.Criterion.all)
                a, b = conv(xs), conv(ys)
                xs2, c2, ys2 = leaves()
                ra, rb = chain(iop, xs2), chain(iop, ys2)
                obj, ref = {"and-left": (a & c, T.ComplexCriterion(AND, ra, c2)), "and-right": (c & a, T.ComplexCriterion(AND, c2, ra)),
                            "or-left": (a | c, T.ComplexCriterion(OR, ra, c2)), "not": (~a, T.Not(ra)),
                            "and-both": (a & b, T.ComplexCriterion(AND, ra, rb)), "alone": (a, ra)}[outer]
                yield ("convenience", inner, n, outer), obj, ref
    # FILTER(WHERE ..) of an aggregate / window function: several filters are ONE conjunction (judged on the text inside the clause)
    class FilterText:
        def __init__(self, f):
            self.f = f

        def get_sql(self, ctx):
            s_ = self.f.get_sql(ctx)
            i = s_.index("FILTER(WHERE ") + len("FILTER(WHERE ")
            return s_[i:s_.rindex(")")]

    for shape in range(6):
        def crits():
            L = Leafs()
            p_, q_, r_, s2 = [L.field() == i for i in range(4)]
            return [[p_ | q_, r_], [p_, q_ | r_], [p_ | q_, r_ | s2], [p_ & q_, r_ | s2], [T.ComplexCriterion(P.enums.Boolean.xor_, p_, q_), r_], [p_ | q_, r_, s2]][shape]
        for how in ("one-call", "chained"):
            cs = crits()
            agg = fn.Sum(T.Field("v")).filter(*cs) if how == "one-call" else None
            if agg is None:
                agg = fn.Sum(T.Field("v"))
                for c_ in cs:
                    agg = agg.filter(c_)
            yield ("convenience", "agg-filter", shape, how), FilterText(agg), chain(AND, crits())
    # a % b is the function call MOD(a, b) whatever its position (the reference object uses the plain Function class)
    for pk in list(ARITH) + ["neg", "eq"]:
        for pos in range(KINDS[pk][0]):
            def mk(modf):
                L = Leafs()
                m = modf(L.field(), L.field())
                return node_with_child_at(pk, pos, m, L)
            yield ("convenience", "mod", pk, pos), mk(lambda a, b: a % b), mk(lambda a, b: T.Function("MOD", a, b))


def random_tree(rng, depth, L):
    if depth <= 0 or rng.random() < 0.15:
        return L.leaf(rng.choice(LEAF_KINDS + ["field", "field", "zero"]))
    k = rng.choice(list(KINDS) + list(ARITH) * 2 + list(CONN))
    ar, f = KINDS[k]
    return f(*[random_tree(rng, depth - 1, L) for _ in range(ar)])


def items(run, rng):
    ctxs = corr.BASE_CTXS
    k = 0
    for meta, obj in triples():
        # every triple under two dialect contexts (rotating), inline
        for j in range(2):
            name, base = ctxs[(k + j * 3) % 6]
            yield obj, [(name, base, "inline")], {"gen": meta}
        k += 1
    import itertools as _it
    for meta, obj in (chains3() if run.tier == "thorough" else _it.chain(chains3(BOOLKINDS), chains3(ARITHKINDS))):
        if True:
            name, base = ctxs[k % 6]
            k += 1
            yield obj, [(name, base, "inline")], {"gen": meta}
    for meta, obj, ref in convenience_items():
        for name, base in (ctxs if meta[1] == "mod" else [ctxs[k % 6]]):
            yield obj, [(name, base, "inline")], {"gen": meta}, ref
        k += 1
    n = 500 if run.tier == "quick" else 12000
    for i in range(n):
        L = Leafs()
        try:
            obj = random_tree(rng, rng.choice([2, 3, 3, 4, 5] if run.tier == "quick" else [3, 4, 5, 6, 7]), L)
        except Exception:
            continue
        name, base = ctxs[i % 6]
        yield obj, [(name, base, "inline")], {"gen": ("random", i)}


def check(run: core.Run):
    rng = random.Random(run.seed)
    ntri = sum(1 for _ in triples())
    renderprop.run_render_property(
        run, prop="C06", propfile="Props/C06.v", module="Props.C06", theorems=THEOREMS, items=items(run, rng), pcheck=PCHECK,
        extra_targets=["Ref/TreeOf.v"],
        rule="expression trees over fields, positive/negative/zero numbers and strings with node kinds %s: EVERY (parent, operand position, child) "
             "triple (%d, each under 2 dialect contexts)%s, plus random trees; each rendered by the implementation, lexed and parsed by the "
             "reference lexer/parser in Coq and compared with the built tree modulo the permitted re-associations. Non-trivial = distinct trees."
             % (sorted(KINDS), ntri, ", every 3-level chain over the operator kinds" if run.tier == "thorough" else ""),
        assumptions=["Ref/Parser.v is standard SQL precedence/associativity (comparison non-associative, predicates are not value expressions)",
                     "Ref/TreeOf.v says which abstract tree a built term is"],
        extra_cov={"exhaustive_part": "all (parent, position, child) triples over %d node kinds and %d leaf kinds" % (len(KINDS), len(LEAF_KINDS))})


def replay(run, path):
    return renderprop.generic_replay(run, path, PCHECK)

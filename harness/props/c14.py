"""C14 — invalid constructions are rejected with library exceptions; valid ones never are.

proof:   Props/C14.v (join rule: rejected iff some referenced table is missing, for all source lists; the set-based validation = the rule;
         decision tables of the other guards)
tie:     Model.EqHash (identity of row sources) is tied to the implementation by C17; here every program's outcome is compared with the rule
P_check: the exception class raised by the implementation (or its absence), at the call or at render as the property says, must equal
         Ref.Reject.*_expected evaluated in Coq on the program's description (which tables the harness put where)
search:  join programs over source shapes (plain, aliased, schema-qualified, temporal, sub-query, CTE, update target) x criteria (both operand
         orders, same-named columns, operands under functions / unary minus / window clauses / BETWEEN / IN / CASE, sub-query operands);
         set-operation arities; CASE; every order of conflict-handler calls up to length 4; RETURNING; one-shot calls
"""
from __future__ import annotations

import itertools
import random

import core
import stmtprop
from coqemit import cstr, copt, clist, cbool, cnat
import pypika_tortoise as P
from pypika_tortoise import queries as Q, terms as T, functions as fn, analytics as an, exceptions as X
from pypika_tortoise.dialects import PostgreSQLQuery, MySQLQuery, SQLLiteQuery, MSSQLQuery, OracleQuery
from props.c17 import coq_tbl

LEVEL = "proof"
THEOREMS = ["C14_join_reject_iff", "C14_valid_never_rejected", "C14_set_validation_is_the_rule", "C14_guard_tables", "C14_nonvacuous"]
HEADER = ("From PT Require Import Base.Str Base.Codes Model.EqHash Ref.Reject.\nOpen Scope N_scope.\n"
          "Definition j (expected : option exn) (impl : N) : N := b2n (exn_code expected =? impl).\n")
CODE = {None: 0, "JoinException": 1, "SetOperationException": 2, "CaseException": 3, "QueryException": 4, "AttributeError": 5, "RollupException": 6}


def outcome(f):
    """exception class name raised by f() (library exceptions and AttributeError), or None; other exceptions are returned as 'Other:<name>'"""
    try:
        r = f()
        if hasattr(r, "get_sql"):
            str(r)
        return None
    except (X.JoinException, X.SetOperationException, X.CaseException, X.QueryException, X.RollupException, AttributeError) as e:
        for k in ("JoinException", "SetOperationException", "CaseException", "RollupException", "QueryException"):
            if isinstance(e, getattr(X, k)):
                return k
        return "AttributeError"
    except Exception as e:  # noqa
        return "Other:" + type(e).__name__


def code(o):
    return CODE.get(o, 9)


def src_coq(s):
    if s is None:
        return "SNone"
    if isinstance(s, Q.Table):
        return "(STable %s)" % coq_tbl(s)
    if isinstance(s, Q.AliasedQuery):
        return "(SCte %s)" % cstr(s.name)
    if isinstance(s, (Q.QueryBuilder, Q._SetOperation)):
        return "(SQuery %s)" % copt(s.alias)
    raise TypeError(s)


def source_shapes(qc):
    return {
        "plain": lambda n: P.Table(n), "aliased": lambda n: P.Table(n, alias=n + "_al"), "schema": lambda n: P.Table(n, schema="sch"),
        "schema-chain": lambda n: P.Table(n, schema=["db", "sch"]), "temporal": lambda n: P.Table(n).for_(T.Field("sys") == 1),
        "subquery": lambda n: qc.from_(P.Table(n + "_inner")).select("a", "b").as_(n + "_sq"),
    }


def criteria(rng):
    """name -> function(list of (table, column)) -> criterion; the harness knows which tables it hands in"""
    F = lambda tc: T.Field(tc[1], table=tc[0])  # noqa
    return {
        "eq": lambda r: F(r[0]) == F(r[1]),
        "eq-and-const": lambda r: (F(r[0]) == F(r[1])) & (F(r[1]) > 5),
        "under-function": lambda r: fn.Lower(F(r[0])) == fn.Coalesce(F(r[1]), "x"),
        "under-minus": lambda r: -F(r[0]) == F(r[1]),
        "arith": lambda r: F(r[0]) + 1 == F(r[1]) * 2,
        "between": lambda r: F(r[0]).between(F(r[1]), 10),
        "in-list": lambda r: F(r[0]).isin([F(r[1]), 3]),
        "case": lambda r: P.Case().when(F(r[0]) == 1, F(r[1])).else_(0) == 1,
        "window": lambda r: an.Rank().over(F(r[0])).orderby(F(r[1])) == 1,
        "filter": lambda r: fn.Sum(F(r[0])).filter(F(r[1]) == 1) > 0,
        "extract-attimezone": lambda r: fn.Extract("year", F(r[0])) == T.AtTimezone(F(r[1]), "UTC"),
        "not-isnull": lambda r: ~(F(r[0]) == F(r[1])) | F(r[0]).isnull(),
        "three": lambda r: (F(r[0]) == F(r[1])) & (F(r[2 % len(r)]) == 1),
        # a column WITHOUT a table refers to no source at all: it can never make a join invalid
        "with-bare-column": lambda r: (F(r[0]) == F(r[1])) & (T.Field("bare") == 1),
        "bare-under-function": lambda r: (fn.Lower(T.Field("bare")) == F(r[1])) & (F(r[0]).isin([T.Field("bare2"), 3])),
    }


def cases(run, rng):
    qcs = [P.Query, PostgreSQLQuery, MySQLQuery] if run.tier == "quick" else [P.Query, PostgreSQLQuery, MySQLQuery, SQLLiteQuery, MSSQLQuery, OracleQuery]
    # ---------------- joins
    for qc in qcs:
        shapes = source_shapes(qc)
        crits = criteria(rng)
        for (fs, js) in itertools.product(shapes, repeat=2):
            for cname, cf in crits.items():
                if run.tier == "quick" and rng.random() < 0.55:
                    continue
                frm, item = shapes[fs]("t"), shapes[js]("u")
                other = P.Table("v")                       # a table that is nowhere in the statement
                same = P.Table("t", schema="elsewhere")    # same name as FROM, different schema
                plain_from = P.Table("t")                  # the FROM table built again WITHOUT its temporal clause / alias
                pools = {
                    "valid": [frm, item], "valid-reversed": [item, frm], "foreign-first": [other, frm], "foreign-second": [frm, other],
                    "same-name-other-schema": [same, item], "rebuilt-from": [shapes[fs]("t") if fs != "subquery" else frm, item],
                }
                for pname, tabs in pools.items():
                    refs = [(tabs[i % len(tabs)], ["a", "a", "b"][i]) for i in range(3)] if cname == "three" else [(tabs[0], "a"), (tabs[1], "a")]
                    reftabs = [r[0] for r in refs]
                    try:
                        crit = cf(refs)
                    except Exception:
                        continue
                    o = outcome(lambda: qc.from_(frm).join(item).on(crit).select("*"))
                    exp = "join_expected [%s] [] %s [] [] %s" % (src_coq(frm), src_coq(item), clist([src_coq(x) for x in reftabs]))
                    yield {"label": "join:%s" % pname, "corr": [], "expr": "j (%s) %d" % (exp, code(o)), "known": None,
                           "describe": {"class": qc.__name__, "from": fs, "join": js, "criterion": cname, "tables": pname, "implementation": str(o)}}
        # already joined, CTE, update target, nested sub-query operand
        t, u, w, v = P.Table("t"), P.Table("u"), P.Table("w"), P.Table("v")
        c = P.AliasedQuery("c")
        progs = [
            ("second-join-uses-first", lambda: qc.from_(t).join(u).on(t.a == u.a).join(w).on(u.b == w.b).select("*"), [t], [u], w, [], [], [u, w]),
            ("second-join-foreign", lambda: qc.from_(t).join(u).on(t.a == u.a).join(w).on(v.b == w.b).select("*"), [t], [u], w, [], [], [v, w]),
            ("cte-available", lambda: qc.with_(qc.from_(t).select(t.a), "c").from_(t).join(u).on(c.a == u.a).select("*"), [t], [], u, [], [c], [c, u]),
            ("cte-not-declared", lambda: qc.from_(t).join(u).on(c.a == u.a).select("*"), [t], [], u, [], [], [c, u]),
            ("join-the-cte", lambda: qc.with_(qc.from_(t).select(t.a), "c").from_(t).join(c).on(c.a == t.a).select("*"), [t], [], c, [], [c], [c, t]),
            ("update-target", lambda: qc.update(t).join(u).on(t.a == u.a).set(t.b, u.b), [], [], u, [t], [], [t, u]),
            ("update-foreign", lambda: qc.update(t).join(u).on(v.a == u.a).set(t.b, u.b), [], [], u, [t], [], [v, u]),
            ("subquery-operand-ignored", lambda: qc.from_(t).join(u).on(t.a.isin(qc.from_(v).select(v.a)) & (t.a == u.a)).select("*"), [t], [], u, [], [], [t, u]),
            ("self-join-aliased", lambda: qc.from_(t).join(P.Table("t", alias="t2")).on(t.a == P.Table("t", alias="t2").b).select("*"), [t], [], P.Table("t", alias="t2"), [], [],
             [t, P.Table("t", alias="t2")]),
            ("aliased-referenced-by-bare-name", lambda: qc.from_(P.Table("t", alias="x")).join(u).on(P.Table("t").a == u.a).select("*"), [P.Table("t", alias="x")], [], u, [], [],
             [P.Table("t"), u]),
            # what a sibling continuation of the same ancestor joined is not available here
            ("branch-sibling-join", lambda: _branch(qc, t, u, w, 1), [t], [], w, [], [], [w, u]),
            ("branch-nephew-join", lambda: _branch(qc, t, u, w, 2), [t], [], P.Table("v"), [], [], [P.Table("v"), w]),
            ("using-never-validated", lambda: qc.from_(t).join(u).using("a").select("*"), [t], [], u, [], [], []),
            ("cross", lambda: qc.from_(t).join(u).cross().select("*"), [t], [], u, [], [], []),
        ]
        for name, f, frm, joined, item, upd, ctes, refs in progs:
            o = outcome(f)
            exp = "join_expected %s %s %s %s %s %s" % (clist([src_coq(x) for x in frm]), clist([src_coq(x) for x in joined]), src_coq(item), clist([src_coq(x) for x in upd]),
                                                      clist([src_coq(x) for x in ctes]), clist([src_coq(x) for x in refs]))
            yield {"label": "join:%s" % name, "corr": [], "expr": "j (%s) %d" % (exp, code(o)), "known": None,
                   "describe": {"class": qc.__name__, "program": name, "implementation": str(o)}}
    # ---------------- set operations
    for qc in qcs:
        t = P.Table("t")
        for base, ops in itertools.product([1, 2, 3], [(1,), (2,), (1, 1), (1, 2), (2, 2), (3, 1, 3), (2, 2, 2)]):
            mk = lambda n: qc.from_(t).select(*[T.Field("c%d" % i, table=t) for i in range(n)])  # noqa

            def build(base=base, ops=ops):
                s = mk(base)
                for k, n in enumerate(ops):
                    s = getattr(s, ["union", "intersect", "minus", "union_all", "except_of"][k % 5])(mk(n))
                return s
            o = outcome(build)
            yield {"label": "setop", "corr": [], "expr": "j (setop_expected %s %s) %d" % (cnat(base), clist(ops, cnat), code(o)), "known": None,
                   "describe": {"class": qc.__name__, "base": base, "operands": ops, "implementation": str(o)}}
        # rendered once while valid, then extended by an invalid operand
        s2 = mk(1).union(mk(1))
        str(s2)
        o = outcome(lambda: s2.union(mk(2)))
        yield {"label": "setop:extended-after-render", "corr": [], "expr": "j (setop_expected 1%%nat [1%%nat; 2%%nat]) %d" % code(o), "known": None,
               "describe": {"class": qc.__name__, "implementation": str(o)}}
    # ---------------- CASE
    t = P.Table("t")
    for n in range(0, 3):
        def build(n=n):
            c = P.Case()
            for i in range(n):
                c = c.when(t.a == i, i)
            return P.Query.from_(t).select(c.else_(9))
        o = outcome(build)
        yield {"label": "case", "corr": [], "expr": "j (case_expected %s) %d" % (cnat(n), code(o)), "known": None, "describe": {"whens": n, "implementation": str(o)}}
    # ---------------- conflict handlers: every call sequence up to length 4 after on_conflict(k fields), and on_conflict on a non-insert
    CALLS = {"N": ("CCDoNothing", lambda q: q.do_nothing()), "U": ("CCDoUpdate", lambda q: q.do_update("b", 1)), "W": ("CCWhere", lambda q: q.where(P.Table("t").c == 1))}
    for qc in (P.Query, PostgreSQLQuery, SQLLiteQuery):
        for nf in (0, 1, 2):
            for L in range(0, 4 if run.tier == "quick" else 5):
                for seq in itertools.product("NUW", repeat=L):
                    def build(seq=seq, nf=nf, qc=qc):
                        q = qc.into(P.Table("t")).columns("a", "b").insert(1, 2).on_conflict(*["a", "b"][:nf])
                        for s in seq:
                            q = CALLS[s][1](q)
                        return q
                    o = outcome(build)
                    yield {"label": "conflict", "corr": [], "known": None,
                           "expr": "j (conflict_expected true %s) %d" % (clist(["CCOnConflict %s" % cnat(nf)] + [CALLS[s][0] for s in seq]), code(o)),
                           "describe": {"class": qc.__name__, "fields": nf, "calls": "".join(seq), "implementation": str(o)}}
        for kind, f in (("select", lambda: qc.from_(P.Table("t")).select("a").on_conflict("a")), ("update", lambda: qc.update(P.Table("t")).set("a", 1).on_conflict("a")),
                        ("delete", lambda: qc.from_(P.Table("t")).delete().on_conflict("a"))):
            o = outcome(f)
            yield {"label": "conflict:non-insert", "corr": [], "expr": "j (conflict_expected false [CCOnConflict 1%%nat]) %d" % code(o), "known": None,
                   "describe": {"class": qc.__name__, "statement": kind, "implementation": str(o)}}
    # ---------------- RETURNING
    t, u = P.Table("t"), P.Table("u")
    dml = {"insert": lambda: PostgreSQLQuery.into(t).insert(1), "update": lambda: PostgreSQLQuery.update(t).set(t.a, 1), "delete": lambda: PostgreSQLQuery.from_(t).delete(),
           "select": lambda: PostgreSQLQuery.from_(t).select(t.a), "update-join": lambda: PostgreSQLQuery.update(t).join(u).on(t.a == u.a).set(t.b, u.b)}
    terms = {"own-field": (lambda: t.a, False, False), "own-str": (lambda: "a", False, False), "star": (lambda: "*", False, False), "constant": (lambda: 1, False, False),
             "own-arith": (lambda: t.a + t.b, False, False), "foreign-field": (lambda: u.a, True, False), "foreign-arith": (lambda: t.a + u.a, True, False),
             "foreign-arith-reversed": (lambda: u.a + t.a, True, False),
             # composite terms of every other kind: a column of a table that is not a source is rejected inside them as well
             "own-case": (lambda: P.Case().when(t.x > 0, 1).else_(0), False, False), "foreign-case": (lambda: P.Case().when(u.x > 0, 1).else_(0), True, False),
             "own-criterion": (lambda: t.a == 1, False, False), "foreign-criterion": (lambda: u.a == 1, True, False),
             "foreign-negative": (lambda: -u.a, True, False), "foreign-not": (lambda: ~(u.a == 1), True, False),
             "foreign-isnull": (lambda: u.a.isnull(), True, False), "foreign-between": (lambda: u.a.between(1, 2), True, False),
             "foreign-in": (lambda: u.a.isin([1, 2]), True, False), "foreign-tuple": (lambda: T.Tuple(u.a, 1), True, False),
             "own-tuple": (lambda: T.Tuple(t.a, 1), False, False), "aggregate": (lambda: fn.Sum(t.a), False, True), "function": (lambda: fn.Lower(t.a), False, True)}
    for (dn, df), (tn, (tf, foreign, agg)) in itertools.product(dml.items(), terms.items()):
        joined_foreign = foreign and dn != "update-join"
        o = outcome(lambda: df().returning(tf()))
        yield {"label": "returning", "corr": [], "known": None,
               "expr": "j (returning_expected %s %s %s) %d" % (cbool(dn != "select"), cbool(joined_foreign), cbool(agg), code(o)),
               "describe": {"statement": dn, "term": tn, "implementation": str(o)}}
    # ---------------- one-shot calls
    for qc in qcs:
        t, u = P.Table("t"), P.Table("u")
        shots = {
            "into": (lambda k: _rep(qc.from_(t).select(t.a), lambda q: q.into(u), k), False),
            "update": (lambda k: _rep(QB(qc), lambda q: q.update(t), k), False),
            "delete": (lambda k: _rep(qc.from_(t), lambda q: q.delete(), k), False),
            "for_": (lambda k: _rep(P.Table("t"), lambda x: x.for_(T.Field("s") == 1), k), False),
            "for_portion": (lambda k: _rep(P.Table("t"), lambda x: x.for_portion(T.Field("s").from_to(1, 2)), k), False),
            "create_table": (lambda k: _rep(P.Query.create_table("a").columns("c"), lambda x: x.create_table("b") if k > 1 else x, k), False),
            "primary_key": (lambda k: _rep(P.Query.create_table("a").columns("c"), lambda x: x.primary_key("c"), k), False),
            "drop_table": (lambda k: _rep(P.Query.drop_table("a"), lambda x: x.drop_table("b") if k > 1 else x, k), False),
            "mysql-rollup": (lambda k: _rep(MySQLQuery.from_(t).select(t.a).groupby(t.a), lambda q: q.rollup(vendor="mysql"), k), True),
        }
        for name, (f, is_rollup) in shots.items():
            for k in (1, 2):
                o = outcome(lambda: f(k))
                if name == "mysql-rollup" and k == 2:
                    exp = "Some XAttr"       # a second MySQL rollup: 'Query' object has no attribute rollup (AttributeError)
                    yield {"label": "oneshot", "corr": [], "expr": "j (%s) %d" % (exp, code(o)), "known": None, "describe": {"call": name, "times": k, "implementation": str(o)}}
                    continue
                yield {"label": "oneshot", "corr": [], "expr": "j (oneshot_expected false %s) %d" % (cnat(k), code(o)), "known": None,
                       "describe": {"class": qc.__name__, "call": name, "times": k, "implementation": str(o)}}
        # rollup after MySQL rollup
        o = outcome(lambda: MySQLQuery.from_(t).select(t.a).groupby(t.a).rollup(vendor="mysql").rollup(t.b))
        yield {"label": "oneshot:rollup-after-mysql-rollup", "corr": [], "expr": "j (Some XAttr) %d" % code(o), "known": None, "describe": {"implementation": str(o)}}


def _branch(qc, t, u, w, depth):
    base = qc.from_(t).select(t.a)
    b1 = base.join(u).on(t.a == u.a)                  # a continuation that is thrown away
    if depth == 1:
        return base.join(w).on(w.b == u.b).select("*")
    b1.join(w).on(u.b == w.b)                         # one level deeper on the other branch
    v = P.Table("v")
    return base.join(v).on(v.a == w.a).select("*")


def QB(qc):
    return qc._builder()


def _rep(x, f, k):
    for _ in range(k):
        x = f(x)
    return x


def check(run: core.Run):
    rng = random.Random(run.seed)
    stmtprop.run_statement_property(
        run, prop="C14", propfile="Props/C14.v", module="Props.C14", theorems=THEOREMS, header=HEADER, cases=cases(run, rng),
        what="the rejection rule", extra_targets=["Ref/Reject.v", "Model/EqHash.v"],
        rule="every program is run through the public API and the class of the exception it raises - at the call, or at render for set-operation arity, CASE and conflict "
             "handlers - (or its absence) is compared in Coq with Ref.Reject: joins = 6 source shapes^2 x 13 criteria shapes (operands under functions, unary minus, arithmetic, "
             "BETWEEN, IN, CASE, window clauses, FILTER, EXTRACT / AT TIME ZONE, NOT / IS NULL) x 6 table assignments (valid in both operand orders, foreign table first / second, "
             "same name in another schema, FROM table rebuilt as an equal object) plus 12 programs (second join, CTEs, UPDATE target, sub-query operand, self-join, USING, cross); "
             "set operations of arity 2-4 with 5 operators; CASE with 0-2 WHEN; EVERY sequence of do_nothing / do_update / where up to length 3 (thorough: 4) after on_conflict "
             "with 0-2 fields, on_conflict on non-INSERT; RETURNING of 10 term kinds on 5 statement kinds; 9 one-shot calls once and twice.",
        assumptions=["which table a criterion refers to is what the harness put there (it builds every Field itself)"])


def replay(run, path):
    return stmtprop.generic_replay(run, path)

"""C15 — copy, deepcopy and pickle round-trips preserve and decouple objects.  PARTIAL (see Props/C15.v).

proof:  Props/C15.v (C15_dynamic_lookup_guarded by computation; C15_decoupled from the frame theorem of C01)
tie:    tools/gen_effects.py (classes with __getattr__, ignore_copy wrapping, the refused names, copy rules)
        + correspondence: for object graphs of every kind x {copy.copy, copy.deepcopy, pickle}: the duplicate must
        observe identically (six contexts x {inline, parameterised} + metadata); then one builder call on each side,
        after which the other side must still observe as before
"""
from __future__ import annotations

import copy
import pickle
import random

import core
import builders as B
import genobj
from props import c01

LEVEL = "proof"
THEOREMS = ["C15_dynamic_lookup_guarded", "C15_decoupled", "C15_nonvacuous"]
MECH = [("copy", copy.copy), ("deepcopy", copy.deepcopy), ("pickle", lambda o: pickle.loads(pickle.dumps(o))),
        ("pickle-protocol-0", lambda o: pickle.loads(pickle.dumps(o, protocol=0))), ("pickle-protocol-2", lambda o: pickle.loads(pickle.dumps(o, protocol=2)))]


def object_kinds():
    P, T_, fn, an, Q = B.P, B.T_, B.fn, B.an, B.Q
    ks = [("Table", lambda: T_("t")), ("Table+schema+alias", lambda: T_("t", schema=["db", "s"], alias="x")),
          ("Schema", lambda: Q.Schema("s", parent=Q.Database("d"))), ("Database", lambda: Q.Database("d")),
          ("Field", lambda: T_("t").a), ("Not", lambda: ~(T_("t").a == 1)), ("Not(Not)", lambda: ~~(T_("t").a.isnull())),
          ("Arith", lambda: T_("t").a + 1), ("Case", lambda: P.Case().when(T_("t").a == 1, 2).else_(3)),
          ("Aggregate+filter", lambda: fn.Sum(T_("t").a).filter(T_("t").b == 1)),
          ("Analytic", lambda: an.Sum(T_("t").a).over(T_("t").b).orderby(T_("t").c).rows(an.Preceding(1))),
          ("Contains(subquery)", lambda: T_("t").a.isin(P.Query.from_(T_("u")).select("x"))),
          ("Tuple", lambda: B.T.Tuple(1, T_("t").a)), ("JSON", lambda: B.T.JSON({"a": [1, 2]})),
          ("AliasedQuery", lambda: P.AliasedQuery("aq")), ("Interval", lambda: P.Interval(days=1, hours=2)),
          ("SetOp", B.setop), ("Create", lambda: P.Query.create_table("x").columns("a").unique("a")),
          ("Drop", lambda: P.Query.drop_table("x").if_exists()), ("Load", lambda: B.MySQLQuery.load("f").into("t")),
          ("Join", lambda: B.sel()._joins[0]), ("Parameter", lambda: P.Parameter(idx=2)), ("ValueWrapper", lambda: B.T.ValueWrapper("x'y"))]
    # every live Term subclass, and every type object a CAST can name (singletons of the enums module that a duplicate re-creates)
    import termzoo
    from pypika_tortoise.enums import SqlTypes
    for cls, _ in termzoo.zoo(T_("t"))[0]:
        ks.append(("zoo:" + cls.__name__, lambda cls=cls: termzoo.make(cls, T_("t"))))
    for tn in [x for x in dir(SqlTypes) if x.isupper()]:
        ty = getattr(SqlTypes, tn)
        ks.append(("Cast:" + tn, lambda ty=ty: P.Query.from_(T_("t")).select(fn.Cast(T_("t").a, ty)).where(fn.Cast(T_("t").b, ty) == "x")))
        if callable(ty):
            ks.append(("Cast:%s(n)" % tn, lambda ty=ty: fn.Cast(T_("t").a, ty(20))))
    # temporal tables (FOR <criterion> / FOR PORTION OF <criterion> are attributes set after construction) and statements over them
    tmp = lambda: T_("t").for_(P.SYSTEM_TIME.as_of("2020-01-01"))  # noqa
    prt = lambda: T_("t").for_portion(P.SYSTEM_TIME.from_to("2020-01-01", "2020-02-01"))  # noqa
    ks += [("Table.for_", tmp), ("Table.for_portion", prt),
           ("select over temporal", lambda: P.Query.from_(tmp()).select("a").where(B.T.Field("b") == 1)),
           ("join temporal", lambda: P.Query.from_(T_("u")).join(tmp()).on(T_("u").a == tmp().a).select("*")),
           ("update portion", lambda: P.Query.update(prt()).set("foo", "bar").where(B.T.Field("id") == 1)),
           ("setop over temporal", lambda: P.Query.from_(tmp()).select("a").union(P.Query.from_(T_("v")).select("a"))),
           ("create as select temporal", lambda: P.Query.create_table("x").as_select(P.Query.from_(tmp()).select("a")))]
    for qc in B.QUERY_CLASSES:
        n = qc.__name__
        ks += [(n + ".select", lambda qc=qc: B.sel(qc)), (n + ".insert", lambda qc=qc: B.ins(qc, qc is not B.MSSQLQuery)),
               (n + ".update", lambda qc=qc: B.upd(qc)), (n + ".delete", lambda qc=qc: B.dele(qc)),
               # a WITH body that reads the FROM table (the Cte objects are shared between a builder and its shallow copies)
               (n + ".with-cte", lambda qc=qc: qc.with_(qc.from_(T_("t", alias="ta")).select("x").where(T_("t", alias="ta").y == 1), "c0")
                .from_(T_("t", alias="ta")).join(P.AliasedQuery("c0")).on(T_("t", alias="ta").a == P.AliasedQuery("c0").x).select("a")),
               (n + ".nested", lambda qc=qc: qc.from_(B.sel(qc, False)).select("a").where(B.T.Field("a").isin(B.sel(B.P.Query, False))))]
    return ks


ORDER_PROBE = r'''
import sys, json, copy, random
sys.path.insert(0, sys.argv[1]); sys.path.insert(0, sys.argv[1] + "/props")
import builders as B, c01
first = [qc for qc in B.QUERY_CLASSES if qc.__name__ == sys.argv[2]][0]
B.sel(first); B.ins(first, first is not B.MSSQLQuery); copy.copy(B.sel(first))          # this class's builders are copied before any other's
out = []
for qc in B.QUERY_CLASSES:
    for kname, mk in (("select", lambda: B.sel(qc)), ("insert", lambda: B.ins(qc, qc is not B.MSSQLQuery)), ("update", lambda: B.upd(qc)), ("delete", lambda: B.dele(qc))):
        for side_is_dup in (True, False):
            o = mk(); d = copy.copy(o)
            side, other = (d, o) if side_is_dup else (o, d)
            for cls, name in c01.builder_methods_of(side):
                if name not in type(side).__dict__:
                    continue
                for k in range(3):
                    a = B.args_for(cls, name, side, k)
                    if a is None:
                        continue
                    snap = B.observe(other)
                    try:
                        a[0](side)
                    except Exception:
                        continue
                    if B.observe(other) != snap:
                        out.append({"first_class_copied": sys.argv[2], "kind": qc.__name__ + "." + kname, "method": name, "on": "duplicate" if side_is_dup else "original"})
print(json.dumps(out[:5]))
'''


def order_probe(run):
    """class-level state filled by whichever builder class is copied first: the copy rule of every class must not depend on that history"""
    import json, subprocess, sys
    out = []
    for qc in B.QUERY_CLASSES:
        r = subprocess.run([sys.executable, "-c", ORDER_PROBE, core.ROOT + "/harness", qc.__name__], capture_output=True, text=True, timeout=300, env=core.env_for_impl())
        if r.returncode != 0:
            out.append({"what": "order probe failed: " + r.stderr[-300:]})
            continue
        for f in json.loads(r.stdout.strip().splitlines()[-1]):
            out.append(dict(f, mechanism="copy", what="a builder call (%s) on the %s changed the other object, in a process where %s builders were copied first"
                            % (f["method"], f["on"], f["first_class_copied"])))
    return out


def obs(o):
    if hasattr(o, "get_sql"):
        return B.observe(o)
    return (repr(getattr(o, "__dict__", o)),)


def check(run: core.Run):
    rng = random.Random(run.seed)
    proofs_ok = core.proof_stage(run, "Props/C15.v", "Props.C15", THEOREMS)
    findings = []
    n = 0
    kinds = object_kinds()
    g = genobj.G(rng)
    extra = 60 if run.tier == "quick" else 1500
    for i in range(extra):
        try:
            o = g.statement() if rng.random() < 0.7 else g.term(3, 0.3)
            kinds.append(("random:%s#%d" % (type(o).__name__, i), (lambda o=o: o)))
        except Exception:
            pass
    for kname, mk in kinds:
        for mname, mech in MECH:
            try:
                o = mk()
            except Exception:
                continue
            before = obs(o)
            try:
                d = mech(o)
            except Exception as e:  # noqa
                findings.append({"kind": kname, "mechanism": mname, "what": "duplication raised %s: %s" % (type(e).__name__, str(e)[:100])})
                continue
            n += 1
            if d is o and mname != "copy":
                findings.append({"kind": kname, "mechanism": mname, "what": "duplicate is the original object"})
            if obs(d) != before:
                findings.append({"kind": kname, "mechanism": mname, "what": "duplicate observes differently from the original"})
                continue
            if obs(o) != before:
                findings.append({"kind": kname, "mechanism": mname, "what": "original changed by being duplicated"})
                continue
            # one builder call on each side
            for side, other, tag in ((d, o, "duplicate"), (o, d, "original")):
                ms = c01.builder_methods_of(side)
                rng.shuffle(ms)
                # the methods the object's own (most derived) class defines come first and are all tried: their state is what a
                # generic copy rule is most likely to miss
                own = [m for m in ms if m[1] in type(side).__dict__]
                ms = own + [m for m in ms if m not in own]
                snap_other = obs(other)
                done = -len(own)
                for cls, name in ms:
                    a = B.args_for(cls, name, side, 0 if name == "replace_table" else rng.randrange(3))
                    if a is None:
                        continue
                    try:
                        a[0](side)
                    except Exception:
                        continue
                    done += 1
                    n += 1
                    if obs(other) != snap_other:
                        findings.append({"kind": kname, "mechanism": mname, "method": name,
                                         "what": "a builder call (%s) on the %s changed the other object" % (name, tag)})
                        break
                    if done >= (4 if run.tier == "quick" else 10):
                        break
    findings += order_probe(run)
    seen = set()
    for f in findings:
        k = (f["kind"].split("#")[0], f["mechanism"], f["what"])
        if k in seen:
            continue
        seen.add(k)
        if len(seen) <= 4:
            run.violation("duplication: %s [%s via %s]" % (f["what"], f["kind"], f["mechanism"]), f)
    if not findings and not proofs_ok:
        run.violation("proof obligation broken: %s" % "; ".join(run.broken),
                      {"broken": run.broken, "theorems": THEOREMS, "file": "coq/Props/C15.v"}, found_input=False)
    run.cov.update({
        "evaluations": n, "distinct_nontrivial": len(kinds) * 3,
        "rule": "%d object kinds (every statement kind of every dialect class, tables, schemas, NOT wrappers, nested sub-queries, CTEs, set operations, DDL, "
                "terms) + random objects, each x {copy, deepcopy, pickle}: observation equality (6 contexts x 2 modes + metadata), then builder calls on "
                "each side with the other side re-observed. Non-trivial = (kind, mechanism) pairs." % len(kinds),
        "samples": [k for k, _ in kinds[:6]], "exhaustive": False, "programs": len(kinds), "disagreements_checked": len(findings),
    })
    run.assumptions += ["copy.deepcopy / pickle rebuild an isomorphic graph (CPython; exercised, not modelled)",
                        "probe_names (Model/Effects.v) is the set of special names copy/pickle look up on instances (Python 3.9-3.12)"]


def replay(run, path):
    import json
    print(json.dumps(json.load(open(path))["replay"], indent=1)[:3000])
    import shutil
    shutil.rmtree(run.workdir, ignore_errors=True)
    return 0

"""C07 — user-supplied names are emitted as single, correctly quoted identifiers.

proof:   Props/C07.v  (ident_roundtrip for ALL names and every query class's quote characters, context independence, qualified column site)
tie:     Gen/Ctx.v regenerated + correspondence of Model.Render on the actual-name objects
P_check: Ref.Align.twin_ok (Coq) on the implementation's two renderings (marker names vs actual names)
search:  every emission site x 6 query classes x rotating adversarial names; random statements with all names mapped
"""
from __future__ import annotations

import random
import re

import core
import sites
import twin
from twin import QCLS

LEVEL = "proof"
THEOREMS = ["C07_create_table_shape", "C07_drop_table_shape", "C07_quote_chars", "C07_ident", "C07_in_context", "C07_qualified_field", "C07_undoubled_refuted", "C07_cte_bare_refuted",
            "C07_twin_nonvacuous"]
PLAIN = re.compile(r"^[A-Za-z_][A-Za-z0-9_]*$")


def has_cte(obj):
    seen, todo = set(), [obj]
    from pypika_tortoise import queries as Q
    while todo:
        o = todo.pop()
        if id(o) in seen or not hasattr(o, "__dict__"):
            continue
        seen.add(id(o))
        if isinstance(o, Q.AliasedQuery):
            return True
        if isinstance(o, Q.QueryBuilder) and o._with:
            return True
        for v in o.__dict__.values():
            if isinstance(v, (list, tuple, set)):
                todo += [x for x in v if hasattr(x, "__dict__")] + [y for x in v if isinstance(x, (tuple, list)) for y in x if hasattr(y, "__dict__")]
            elif hasattr(v, "__dict__"):
                todo.append(v)
    return False


def known_pred(case, sa, sb):
    # C07-cte-bare: a CTE name is written bare at its definition and in FROM/JOIN (pinned by the test-suite)
    if has_cte(case["A"]):
        return "C07-cte-bare"
    return None


def cases(run, rng):
    S = sites.name_sites()
    nsalt = 4 if run.tier == "quick" else len(twin.ADV_NAMES)
    for label, f, only in S:
        for qi, qc in enumerate(QCLS):
            if only and qc not in only:
                continue
            for k in range(nsalt):
                salt = (k * 7 + qi * 3 + rng.randrange(len(twin.ADV_NAMES))) if k else qi * 5
                mp = twin.Mapping(salt, names=True, values=False)
                try:
                    A = f(lambda key: mp.name(key, "A"), None, qc)
                    B = f(lambda key: mp.name(key, "B"), None, qc)
                except Exception:
                    continue
                yield {"label": "site:" + label, "qc": qc, "A": A, "B": B, "mp": mp}
    n = 250 if run.tier == "quick" else 4000
    for i in range(n):
        seed = rng.randrange(1 << 30)
        qc = QCLS[i % 6]
        r = twin.build_twin(lambda g: g.statement(qc, 2), seed, rng.randrange(30), True, False)
        if r is None:
            continue
        yield {"label": "random:statement", "qc": qc, "A": r[0], "B": r[1], "mp": r[2], "seed": seed}


def check(run: core.Run):
    rng = random.Random(run.seed)
    twin.run_twin_property(
        run, prop="C07", propfile="Props/C07.v", module="Props.C07", theorems=THEOREMS, cases=cases(run, rng), known_pred=known_pred,
        rule="every program is built twice through the public API (marker names zqn<k> / adversarial actual names: quote characters of all "
             "dialects, dots, spaces, keywords, mixed case, comment openers, placeholder look-alikes, non-ASCII, newline); both implementation texts are "
             "lexed by the reference lexer of the class's dialect in Coq and aligned token by token (Ref.Align.twin_ok). %d emission sites x applicable "
             "query classes x rotating name assignments, plus random statements with every name mapped. Non-trivial = distinct (actual, marker) text pairs."
             % len(sites.name_sites()),
        assumptions=["Ref/Lexer.v is what each dialect's tokenizer does with quotes (double quote / backtick identifiers, doubled-quote escape)",
                     "DDL objects (CREATE/DROP/LOAD) are judged by the statement only; Model.Render does not model them"])


def replay(run, path):
    import json
    r = json.load(open(path))["replay"]
    print(json.dumps(r, indent=1)[:3000])
    import shutil
    shutil.rmtree(run.workdir, ignore_errors=True)
    return 0

"""C05 — inlined values are single literal tokens that decode to the original value.

proof:   Props/C05.v (string / ISO / UUID / dumped-JSON / integer / bool / NULL printers of Model.Value read back by the reference lexer as
         one token decoding to the value, for ALL strings and integers, every dialect and wrapper class; context independence; JSON strings)
tie:     correspondence of Model.Render on the actual-value objects (every site x class) + Gen/Ctx.v
P_check: Ref.Align.twin_ok (Coq) on the implementation's two renderings (marker values vs actual values)
search:  every value position x 6 query classes x every adversarial value of every supported kind; random statements with values mapped
"""
from __future__ import annotations

import json
import random

import core
import sites
import twin
from twin import QCLS
from pypika_tortoise import terms as T

LEVEL = "proof"
THEOREMS = ["C05_secondary_quote", "C05_string", "C05_text_kinds", "C05_int", "C05_bool_none", "C05_in_context", "C05_json_string",
            "C05_json_literal", "C05_load_file_literal", "C05_old_mysql_plain_refuted", "C05_old_dict_refuted", "C05_twin_nonvacuous"]


def known_pred(case, sa, sb):
    return None


class OneValue(twin.Mapping):
    """a mapping with exactly one (marker, actual) pair, chosen explicitly"""

    def __init__(self, actual):
        super().__init__(0, names=False, values=True)
        self.actual = actual
        v = actual
        if isinstance(v, str):
            self.kind, self.marker = "s", "zqv0"
        elif type(v) is int:
            self.kind, self.marker = "i", (-7700000 if twin.negative(v) else 7700000)        # the marker carries the sign (twin.Mapping.value)
        elif isinstance(v, (float, __import__("decimal").Decimal)):
            self.kind, self.marker = "f", (-7700000.5 if twin.negative(v) else 7700000.5)
        elif isinstance(v, (dict, list)):
            self.kind, self.marker = "j", {"zqv": 0}
        elif isinstance(v, twin.AdvEnum):
            self.kind, self.marker = "e", twin.MarkerEnum.m
        else:
            self.kind, self.marker = "same", v

    def coq_map(self):
        from coqemit import cstr, clist
        from dump import dump_value
        if self.kind == "same":
            return "[]"
        key = {"s": "zqv0", "i": "7700000", "f": "7700000.5", "j": json.dumps({"zqv": 0}), "e": "zqve0"}[self.kind]
        ents = ["(%s, MVal %s)" % (cstr(key), dump_value(twin.magnitude(self.actual) if self.kind in "if" else self.actual))]
        if self.kind == "j":
            # the JSON term prints its own compact form; the reference JSON text is CPython's json.dumps
            ents.append("(%s, MVal (VDumped %s))" % (cstr('{"zqv":0}'), cstr(json.dumps(self.actual, separators=(",", ":"), ensure_ascii=False))))
        if self.kind == "s":
            ents.append("(%s, MVal (VDumped %s))" % (cstr('"zqv0"'), cstr(json.dumps(self.actual, ensure_ascii=False))))
            ents.append("(%s, MVal (VDumped %s))" % (cstr('{"k":"zqv0"}'), cstr(json.dumps({"k": self.actual}, separators=(",", ":"), ensure_ascii=False))))
        return clist(ents)


class JsonTerm(twin.Mapping):
    """JSON term: the marker document's text maps to the reference JSON text (CPython json.dumps) of the actual document"""

    def __init__(self, ja, jb):
        super().__init__(0, names=False, values=True)
        self.kb = json.dumps(jb, separators=(",", ":"), ensure_ascii=False)
        self.ea = json.dumps(ja, separators=(",", ":"), ensure_ascii=False, allow_nan=False)

    def coq_map(self):
        from coqemit import cstr
        return "[(%s, MVal (VDumped %s))]" % (cstr(self.kb), cstr(self.ea))


def all_values():
    return twin.ADV_STRS + twin.ADV_INTS + twin.ADV_NUMS + twin.ADV_JSON + twin.FIXED_VALUES + twin.STR_ENUM_VALUES


def cases(run, rng):
    S = sites.value_sites()
    vals = all_values()
    for label, f, only in S:
        for qi, qc in enumerate(QCLS):
            if only and qc not in only:
                continue
            vs = vals if run.tier == "thorough" else [v for i, v in enumerate(vals) if (i + qi) % 3 == 0 or isinstance(v, str) and ("\\" in v or "'" in v)]
            for v in vs:
                mp = OneValue(v)
                va, vb = v, mp.marker
                if isinstance(v, list) and label != "json-term":
                    # a bare list is turned into an SQL array of separately inlined elements; as ONE value it is a wrapped constant
                    va, vb = T.ValueWrapper(v), T.ValueWrapper(mp.marker)
                if label == "json-term":
                    ja = v if isinstance(v, (dict, list, str)) else {"k": v}
                    jb = mp.marker if isinstance(v, (dict, list, str)) else {"k": mp.marker}
                    try:
                        mp = JsonTerm(ja, jb)
                    except (TypeError, ValueError):
                        continue
                    va, vb = ja, jb
                try:
                    A = f(None, va, qc)
                    B = f(None, vb, qc)
                except Exception:
                    continue
                yield {"label": "site:" + label, "qc": qc, "A": A, "B": B, "mp": mp}
    n = 250 if run.tier == "quick" else 4000
    for i in range(n):
        seed = rng.randrange(1 << 30)
        qc = QCLS[i % 6]
        r = twin.build_twin(lambda g: g.statement(qc, 2), seed, rng.randrange(30), False, True)
        if r is None:
            continue
        yield {"label": "random:statement", "qc": qc, "A": r[0], "B": r[1], "mp": r[2], "seed": seed}


def check(run: core.Run):
    rng = random.Random(run.seed)
    twin.run_twin_property(
        run, prop="C05", propfile="Props/C05.v", module="Props.C05", theorems=THEOREMS, cases=cases(run, rng), known_pred=known_pred,
        rule="every program is built twice through the public API (a harmless marker value of the same Python type / the actual value: %d strings with "
             "quotes, backslashes, comment openers, placeholder look-alikes, newline, NUL, non-ASCII; ints incl. negative and 30-digit; floats/Decimals; "
             "dict/list JSON values; bool/None/date/time/UUID/enum); both implementation texts are lexed by the reference lexer of the class's dialect in Coq "
             "(MySQL: backslash escapes) and aligned token by token: the marker literal must be replaced by ONE literal token decoding to the value. "
             "%d value positions x applicable query classes x values, plus random statements with every value mapped." % (len(twin.ADV_STRS), len(sites.value_sites())),
        assumptions=["str(float), str(Decimal), isoformat(), str(UUID) and json.dumps are CPython's: their text must lex as one numeric / string token (checked per case)",
                     "Ref/Lexer.v: MySQL reads backslash escapes in strings, the other dialects do not (standard_conforming_strings / ANSI)"])


def replay(run, path):
    r = json.load(open(path))["replay"]
    print(json.dumps(r, indent=1)[:3000])
    import shutil
    shutil.rmtree(run.workdir, ignore_errors=True)
    return 0

"""C04 — parameterised rendering is equivalent to inline rendering.

proof:   Props/C04.v (parameterizer threading for ALL terms: values are only appended, inline mode produces none; shape theorems: the
         parameterised and the inline text are the same context around placeholders / literals, for all values; placeholder styles)
tie:     Gen/Placeholders.v regenerated + correspondence of Model.Render in both modes (text and value identities)
P_check: Ref.ParamEq.c04_ok in Coq on the implementation's (sp, values, si)
search:  random statements of every kind and class with values in many clauses and nesting levels; clause-order-sensitive shapes first
"""
from __future__ import annotations

import random

import core
import stmtprop
import genobj
from genobj import QUERY_CLASSES, QNAMES
from coqemit import cstr, clist
from dump import dump_value
import pypika_tortoise as P
from pypika_tortoise import functions as fn, analytics as an, terms as T
from pypika_tortoise.terms import Parameterizer
from pypika_tortoise.enums import DatePart, Order
from pypika_tortoise.dialects import MSSQLQuery, MySQLQuery, OracleQuery, PostgreSQLQuery, SQLLiteQuery

LEVEL = "proof"
THEOREMS = ["C04_thread", "C04_inline_none", "C04_thread_statement", "C04_styles", "C04_shape_select", "C04_shape_mssql_page", "C04_shape_mysql_update", "C04_nonvacuous"]
HEADER = ("From PT Require Import Base.Str Base.Codes Model.Types Model.Value Gen.Placeholders Ref.Lexer Ref.Align Ref.ParamEq.\nOpen Scope N_scope.\n"
          "Definition j (d : dial) (own : bool) (sp : str) (vals : list pval) (si : str) : N :=\n"
          "  match c04_ok d (if own then None else Some (placeholder_style d)) sp vals si with Some true => 1 | Some false => 0 | None => 2 end.\n")


def pval(v):
    if isinstance(v, T.Node):
        return "PNode"
    if isinstance(v, (list, tuple)):
        if any(isinstance(x, T.Node) for x in v):
            return "PNode"
        if any(isinstance(x, (list, tuple)) for x in v):
            return None                       # nested arrays: not judged
        import json
        return "(PList %s %s)" % (clist([dump_value(x) for x in v]), cstr(json.dumps(list(v))))
    return "(PV %s)" % dump_value(v)


def shapes(qc, V=lambda x: x):
    """statements whose clauses are rendered out of textual order, twice, or late; V maps every parameterisable constant"""
    t, u = P.Table("t"), P.Table("u")
    out = []
    out.append(("limit-offset", qc.from_(t).select(t.a, V(7)).where(t.b == V("w")).orderby(t.a).limit(V(3)).offset(V(4))))
    out.append(("groupby-rerender", qc.from_(t).select((t.a + V(5)).as_("x"), fn.Sum(t.b)).groupby((t.a + V(5)).as_("x")).having(fn.Sum(t.b) > V(9))))
    out.append(("update-late-order-limit", qc.update(t).set(t.a, V("s")).set(t.b, V(2)).where(t.c == V(3)).orderby(t.a).limit(V(5))))
    out.append(("subquery-from-in", qc.from_(qc.from_(u).select(u.a, V(1)).where(u.b == V(2))).select("a").where(T.Field("a").isin(qc.from_(t).select(t.a).where(t.c == V("x")).limit(V(8))))))
    out.append(("setop", qc.from_(t).select(t.a).where(t.b == V(11)).limit(V(21)).union(qc.from_(u).select(u.a).where(u.b == V(12))).orderby("a").limit(V(31)).offset(V(32))))
    out.append(("case-function", qc.from_(t).select(P.Case().when(t.a == V(1), V("one")).when(t.a == V(2), V("two")).else_(V("many")), fn.Coalesce(t.b, V(0), V("z")))))
    out.append(("in-list-between", qc.from_(t).select(t.a).where(t.a.isin([V(1), V("two"), V(3.5)])).where(t.b.between(V(4), V(5))).where(t.c.like(V("p%")))))
    # query-builder objects wrapped as values (ValueWrapper(<term>)): statement text, never listed; the constants inside them are listed as usual
    out.append(("wrapped-terms", qc.from_(t).select(T.ValueWrapper(t.a), T.ValueWrapper(t.b + V(5)).as_("w"), V(6)).where(t.c == T.ValueWrapper(fn.Coalesce(t.d, V("z"))))
                .where(t.e.isin([T.ValueWrapper(t.f), V(7)]))))
    out.append(("wrapped-subquery", qc.from_(t).select(t.a).where(t.b == T.ValueWrapper(qc.from_(u).select(fn.Max(u.b)).where(u.c == V(8)))).where(t.d == V(9))))
    out.append(("update-set-wrapped-term", qc.update(t).set(t.a, T.ValueWrapper(t.b * V(2))).where(t.c == V(3))))
    out.append(("insert-rows", qc.into(t).columns("a", "b").insert(V(1), V("x")).insert(V(2), None)))
    out.append(("insert-select", qc.into(t).columns("a").from_(u).select(u.a, V(5)).where(u.b == V(6))))
    out.append(("join-on-value", qc.from_(t).join(u).on((t.a == u.a) & (u.b == V(13))).select(t.a, V(14)).where(t.c == V(15))))
    out.append(("extract-special", qc.from_(t).select(fn.Extract(DatePart.year, t.a), fn.Extract("month", T.ValueWrapper(V("2020-01-02"))))))
    out.append(("analytic", qc.from_(t).select(an.Lag(t.a, V(1), V(0)).over(t.b).orderby(t.c), an.NTile(V(4)).over(t.b))))
    out.append(("array-tuple", qc.from_(t).select(t.a).where(t.b == T.Array(V(1), V(2))).where(T.Tuple(t.a, t.b) == T.Tuple(V(3), V("q")))))
    out.append(("exempt", qc.from_(t).select(T.ValueWrapper("*"), T.ValueWrapper(9, allow_parametrize=False), T.ValueWrapper(Order.asc)).where(t.a == V(1))))
    out.append(("negative-right-of-minus", qc.from_(t).select(t.a - T.ValueWrapper(V(-1)), -T.ValueWrapper(V(-2))).where(t.b == V(-3))))
    import decimal
    for i, neg in enumerate([-2.5, decimal.Decimal("-1.5"), -0.0, decimal.Decimal("-0"), -7]):
        w = lambda: T.ValueWrapper(V(neg))  # noqa
        out.append(("negative-kinds-%d" % i, qc.from_(t).select(t.a - w(), -w(), t.a - w() * t.b, t.a - (t.b - w()), t.a - (w() == t.b)).where(t.c - w() > V(0))))
    out.append(("distinct-on", PostgreSQLQuery.from_(t).select(t.c + V(5)).distinct_on(fn.Coalesce(t.a, V(7)), t.b).where(t.d == V(8))) if qc is PostgreSQLQuery else None)
    if qc in (P.Query, PostgreSQLQuery, SQLLiteQuery, MySQLQuery):
        out.append(("upsert", qc.into(t).columns("a", "b").insert(V(1), V("x")).on_conflict("a").do_update("b", V("y")).do_update("c", V(5))))
        if qc is not MySQLQuery:
            # values in the rows, the conflict target's predicate, the SET list and the DO UPDATE predicate: four clauses rendered by three methods
            out.append(("upsert-where", qc.into(t).columns("a", "b").insert(V(1), V("x")).on_conflict("a").where(t.d > V(2)).do_update("b", V("y"))
                        .do_update("c", V(5)).where(t.e < V(6)).where(t.f != V("z"))))
        out.append(("upsert-term", qc.into(t).columns("a", "b").insert(V(1), V(2)).on_conflict("a").do_update("b", t.b + V(1))))
    if qc is MSSQLQuery:
        out.append(("mssql-top", qc.from_(t).select(t.a, T.ValueWrapper(V("v"))).top(2).where(t.b == V(3))))
    if qc is PostgreSQLQuery:
        out.append(("returning", qc.update(t).set(t.a, V(1)).where(t.b == V(2)).returning(t.a, V(3))))
    return [x for x in out if x]


INDEP_FAIL = []


LONE = __import__("re").compile(r"\((\?|%s|\$\d+)\)")


def param_sql(obj, qc):
    pz = Parameterizer()
    try:
        # (a negative constant after a minus sign keeps its parentheses around the placeholder: the text may depend on the SIGN of a value, not on its
        #  text; the twin markers carry the sign of the actual value, see twin.Mapping.value)
        return obj.get_sql(qc.SQL_CONTEXT.copy(parameterizer=pz)), list(pz.values)
    except Exception as e:  # noqa
        return "EXC:" + type(e).__name__, []


def independence(label, qc, build):
    """(d) no parameterised value's text remains in the SQL: the parameterised text cannot depend on the values.  build(V) -> object."""
    import twin
    mp = twin.Mapping(len(INDEP_SEEN) % 29, names=False, values=True)
    INDEP_SEEN.append(label)
    try:
        a = build(lambda x: mp.value(x, "A"))
        b = build(lambda x: mp.value(x, "B"))
    except Exception:
        return
    (sa, va), (sb, vb) = param_sql(a, qc), param_sql(b, qc)
    if sa != sb or len(va) != len(vb):
        INDEP_FAIL.append({"label": label, "class": QNAMES[qc], "parameterised_sql_actual_values": sa, "parameterised_sql_marker_values": sb,
                           "values_actual": [repr(v)[:60] for v in va], "values_marker": [repr(v)[:60] for v in vb]})


INDEP_SEEN = []


def cases(run, rng):
    import twin
    del INDEP_FAIL[:], INDEP_SEEN[:]
    EXEMPT_SEEN[0] = exemption_sweep()
    for qc in QUERY_CLASSES:
        for lab, _ in shapes(qc):
            independence("shape:" + lab, qc, lambda V, lab=lab, qc=qc: dict(shapes(qc, V))[lab])
    for i in range(150 if run.tier == "quick" else 3000):
        qc = QUERY_CLASSES[i % 6]
        seed = rng.randrange(1 << 30)
        r = twin.build_twin(lambda g: g.statement(qc, 2), seed, i % 29, False, True, wrap_str=True)
        if r is None:
            continue
        INDEP_SEEN.append("random")
        (sa, va), (sb, vb) = param_sql(r[0], qc), param_sql(r[1], qc)
        if sa != sb or len(va) != len(vb):
            INDEP_FAIL.append({"label": "random:statement", "class": QNAMES[qc], "seed": seed, "parameterised_sql_actual_values": sa,
                               "parameterised_sql_marker_values": sb, "values_actual": [repr(v)[:60] for v in va], "values_marker": [repr(v)[:60] for v in vb]})

    def mk(label, obj, qc, own=False, numbered=False):
        ctx = qc.SQL_CONTEXT
        try:
            si = obj.get_sql(ctx)
            pz = Parameterizer(placeholder_factory=(lambda i: "?")) if own else Parameterizer()
            sp = obj.get_sql(ctx.copy(parameterizer=pz))
        except Exception as e:  # noqa
            return None
        if not isinstance(si, str) or not isinstance(sp, str) or si == "":
            return None
        pvs = [pval(v) for v in pz.values]
        if any(x is None for x in pvs):
            return None
        # (a caller-supplied factory that uses its argument - the 1-based number of the value - is tied to the model as well)
        corr = [(obj, [(QNAMES[qc], ctx, "inline"), (QNAMES[qc], ctx, "qfactory" if own else "param")] + ([(QNAMES[qc], ctx, "factory")] if numbered else []))]
        if numbered and qc is PostgreSQLQuery:
            # under PostgreSQL the built-in style IS "$<n>": a factory spelling the same must give the same text and values
            pf = Parameterizer(placeholder_factory=lambda i: "$%d" % i)
            try:
                sf = obj.get_sql(ctx.copy(parameterizer=pf))
            except Exception as e:  # noqa
                sf = "EXC:" + type(e).__name__
            INDEP_SEEN.append("factory")
            if not own and (sf != sp or [repr(v) for v in pf.values] != [repr(v) for v in pz.values]):
                INDEP_FAIL.append({"label": label + ":numbering-factory", "class": QNAMES[qc], "seed": None, "parameterised_sql_actual_values": sf,
                                   "parameterised_sql_marker_values": sp, "values_actual": [repr(v)[:60] for v in pf.values], "values_marker": [repr(v)[:60] for v in pz.values]})
        return {"label": label, "corr": corr,
                "expr": "j %s %s %s %s %s" % (ctx.dialect.name, "true" if own else "false", cstr(sp), clist(pvs), cstr(si)),
                "known": None,
                "describe": {"class": QNAMES[qc], "parameterised_sql": sp, "values": [repr(v)[:80] for v in pz.values], "inline_sql": si}}
    for qc in QUERY_CLASSES:
        for lab, obj in shapes(qc):
            c = mk("shape:" + lab, obj, qc, numbered=True)
            if c:
                yield c
    n = 500 if run.tier == "quick" else 8000
    for i in range(n):
        qc = QUERY_CLASSES[i % 6]
        g = genobj.G(random.Random(rng.randrange(1 << 30)), special_values=(i % 3 == 0))
        try:
            obj = g.statement(qc, 2)
        except Exception:
            continue
        c = mk("random:statement", obj, qc, own=(i % 10 == 9 and qc not in (PostgreSQLQuery, MySQLQuery)), numbered=(i % 4 == 2))
        if c:
            yield c


EXEMPT_FAIL = []


def exemption_sweep():
    """values exempt by contract are written inline and never listed, at every value position, whatever else they are (a str-mixin or int-mixin
    enum member IS a str / an int); everything else at the same positions is listed"""
    import enum, twin

    class IntE(enum.IntEnum):
        seven = 7

    exempt = [Order.asc, twin.AdvEnum.quote, twin.AdvStrEnum.plain, twin.AdvStrEnum.quote, IntE.seven, "*"]
    t = P.Table("t")
    del EXEMPT_FAIL[:]
    n = 0
    for qc in QUERY_CLASSES:
        for x in exempt:
            pos = {
                "where": lambda v: qc.from_(t).select(t.a).where(t.b == v).where(t.c == 5),
                "in-list": lambda v: qc.from_(t).select(t.a).where(t.b.isin([v, 6])),
                "case-function": lambda v: qc.from_(t).select(P.Case().when(t.a == 1, v).else_(fn.Coalesce(t.b, v)), t.c).where(t.d == 7),
                "update-set": lambda v: qc.update(t).set(t.a, v).where(t.b == 8),
                "insert-row": lambda v: qc.into(t).columns("a", "b").insert(v, 9),
                "not-allowed": lambda v: qc.from_(t).select(T.ValueWrapper(11, allow_parametrize=False)).where(t.b == T.ValueWrapper(v, allow_parametrize=False)).where(t.c == 10),
            }
            for pname, f in pos.items():
                try:
                    q = f(x)
                    pz = Parameterizer()
                    sp = q.get_sql(qc.SQL_CONTEXT.copy(parameterizer=pz))
                    si = q.get_sql(qc.SQL_CONTEXT)
                except Exception:
                    continue
                n += 1
                listed = [v for v in pz.values if v is x or (type(v) is type(x) and v == x and not isinstance(x, str)) or (x == "*" and v == "*")]
                if listed or any(isinstance(v, enum.Enum) for v in pz.values):
                    EXEMPT_FAIL.append({"kind": "exempt-value-listed", "class": QNAMES[qc], "position": pname, "value": repr(x), "parameterised_sql": sp,
                                        "values": [repr(v) for v in pz.values], "inline_sql": si})
    return n


class LazyViolations:
    """evaluated after the cases generator has run"""

    def __iter__(self):
        return iter([(("C04: a placeholder factory spelling the built-in style ($<n>, n = the 1-based number of the value) gives another text or value list: %s vs %s"
                       if f["label"].endswith(":numbering-factory") else
                       "C04: the parameterised text depends on the values (a parameterised value's text remains in the SQL): %s vs %s")
                      % (f["parameterised_sql_actual_values"][:250], f["parameterised_sql_marker_values"][:250]), dict(f, kind="value-independence"))
                     for f in INDEP_FAIL] +
                    [("C04: a value that is exempt by contract (%s) is listed as a parameter at position %s under %s: %s with values %s"
                      % (f["value"], f["position"], f["class"], f["parameterised_sql"][:200], f["values"]), f) for f in EXEMPT_FAIL[:3]])


EXEMPT_SEEN = [0]


def lazy_cov():
    return {"value_independence_pairs": len(INDEP_SEEN), "value_independence_failures": len(INDEP_FAIL), "exempt_value_positions": EXEMPT_SEEN[0],
            "exempt_values_listed": len(EXEMPT_FAIL)}


def check(run: core.Run):
    rng = random.Random(run.seed)
    stmtprop.run_statement_property(
        run, prop="C04", propfile="Props/C04.v", module="Props.C04", theorems=THEOREMS, header=HEADER, cases=cases(run, rng),
        extra_targets=["Ref/ParamEq.v"], what="the parameterised/inline equivalence",
        extra_violations=LazyViolations(), extra_cov=lazy_cov,
        rule="each statement is rendered by the implementation inline and with a Parameterizer; both texts are lexed by the reference lexer in Coq and walked "
             "token by token (Ref.ParamEq.c04_ok): equal except that the k-th placeholder (dialect style, numbered 1..n) stands where the inline text has the one "
             "literal of the k-th listed value; values must be plain data. Clause-order-sensitive shapes (MSSQL offset/limit, MySQL late ORDER BY/LIMIT on UPDATE, "
             "GROUP BY re-render, set operations, sub-queries, CASE, IN, arrays, upsert, EXTRACT, analytic, exempt values) x 6 classes, then random statements "
             "of every kind; every tenth with a caller-supplied placeholder factory. Non-trivial = distinct (sp, values, si) triples.",
        assumptions=["str(float)/str(Decimal)/isoformat() texts lex as one literal token (checked per case)"])


def replay(run, path):
    return stmtprop.generic_replay(run, path)

"""C13 — statements are well-formed and independent of the order of commuting calls.

proof:   Props/C13.v (incomplete builder => empty string, for all builders and contexts; frame theorem: non-interfering state transformers commute;
         by computation on footprints regenerated from /repo: the clause-setting pairs the frame theorem applies to)
tie:     tools/gen_footprints.py re-run on every check, audited by the dynamic sweep (a pair the table calls non-interfering must commute);
         correspondence of Model.Render on every statement
P_check: Ref.Clauses.wellformed in Coq on every implementation text (clause order / no repetition / balanced / quotes closed / no comment);
         incomplete builders render ""; EXHAUSTIVE ordered pairs of clause-setting calls on base states give the same SQL in both orders when they
         address different clauses; repeated calls to one clause accumulate in call order; SQLite accepts every statement kind (supporting)
"""
from __future__ import annotations

import itertools
import json
import os
import random
import sqlite3

import core
import stmtprop
import genobj
from coqemit import cstr
from genobj import QUERY_CLASSES, QNAMES
from dump import BCLS
import pypika_tortoise as P
from pypika_tortoise import queries as Q, terms as T, functions as fn
from pypika_tortoise.dialects import PostgreSQLQuery, MySQLQuery, SQLLiteQuery, MSSQLQuery, OracleQuery

LEVEL = "proof"
THEOREMS = ["C13_incomplete_is_empty", "C13_select_clause_order", "C13_update_clause_order", "C13_delete_clause_order", "C13_insert_clause_order", "frame_commute", "C13_footprints_allow_commutation", "C13_wellformed_examples"]
HEADER = ("From PT Require Import Base.Str Base.Codes Model.Types Ref.Lexer Ref.Clauses.\nOpen Scope N_scope.\n"
          "Definition j (d : dial) (b : bcls) (sql : str) : N := match wellformed d b sql with Some true => 1 | Some false => 0 | None => 2 end.\n")
FAIL, SEEN = [], {"pairs": 0, "pairs_equal": 0, "incomplete": 0, "accumulate": 0, "sqlite": 0, "table_audited": 0}

# which clause a builder call addresses (the specification's reading of "different clauses")
CLAUSE = {"select": "select", "from_": "from", "where": "where", "prewhere": "prewhere", "join_on": "join", "join_using": "join", "groupby": "groupby", "having": "having",
          "orderby": "orderby", "limit": "limit", "offset": "offset", "distinct": "distinct", "force_index": "force_index", "use_index": "use_index", "for_update": "for_update",
          "with_": "with", "with_totals": "with_totals", "slice_from": "offset", "slice_to": "limit", "select_aliased": "select", "orderby_name": "orderby", "groupby_name": "groupby", "where_foreign": "where", "prewhere_foreign": "prewhere", "columns": "columns", "insert": "values", "set": "set", "on_conflict": "conflict", "do_update": "conflict", "do_nothing": "conflict"}
# pairs of different clauses that are known NOT to commute (listed findings / documented features)
KNOWN_PAIRS = {frozenset(("where", "from_")): "C13-where-before-from", frozenset(("prewhere", "from_")): "C13-where-before-from",
               frozenset(("where", "on_conflict")): "C13-where-before-on-conflict"}


def setters(t, u):
    """name -> (call on a builder, second variant for accumulation)"""
    return {
        "select": (lambda q: q.select(t.a), lambda q: q.select(t.b)),
        "where": (lambda q: q.where(t.c == 1), lambda q: q.where(t.d == 2)),
        "join_on": (lambda q: q.join(u).on(t.a == u.a), None),
        "join_using": (lambda q: q.join(P.Table("w")).using("a"), None),
        "groupby": (lambda q: q.groupby(t.e), lambda q: q.groupby(t.f)),
        "having": (lambda q: q.having(fn.Count(t.a) > 1), lambda q: q.having(fn.Max(t.b) < 9)),
        "orderby": (lambda q: q.orderby(t.g), lambda q: q.orderby(t.h, order=P.enums.Order.desc)),
        "limit": (lambda q: q.limit(5), None), "offset": (lambda q: q.offset(6), None), "distinct": (lambda q: q.distinct(), None),
        "force_index": (lambda q: q.force_index("i1"), lambda q: q.force_index("i2")), "use_index": (lambda q: q.use_index("j1"), lambda q: q.use_index("j2")),
        "for_update": (lambda q: q.for_update(), None),
        "with_": (lambda q: q.with_(P.Query.from_(P.Table("base")).select("x"), "c1"), lambda q: q.with_(P.Query.from_(P.Table("base2")).select("y"), "c2")),
        "prewhere": (lambda q: q.prewhere(t.p == 1), lambda q: q.prewhere(t.q == 2)),
        "with_totals": (lambda q: q.with_totals(), None),
        # a select alias and ORDER BY / GROUP BY keys given as the string that spells it (resolved at render time, not at call time)
        # one-sided slices address one bound only: q[5:] the offset, q[:10] the limit
        "slice_from": (lambda q: q[5:], None), "slice_to": (lambda q: q[:10], None),
        "select_aliased": (lambda q: q.select(t.a.as_("xal")), None),
        "orderby_name": (lambda q: q.orderby("xal"), None),
        "groupby_name": (lambda q: q.groupby("xal"), None),
        # criteria that refer to a table outside the statement's sources (a correlated reference)
        "where_foreign": (lambda q: q.where(t.k == P.Table("outer_t").k), None),
        "prewhere_foreign": (lambda q: q.prewhere(t.m == P.Table("outer_t").m), None),
    }


def sql(q, ctx=None):
    try:
        s = q.get_sql(ctx) if ctx is not None else str(q)
        return s if isinstance(s, str) else "EXC:nonstr"
    except Exception as e:  # noqa
        return "EXC:" + type(e).__name__


def footprint_table():
    p = os.path.join(core.COQ, "Gen", "footprints.json")
    fp = {}
    for e in json.load(open(p)):
        fp[(e["class"], e["method"])] = e
    return fp


def noninterfering(fp, cls, m1, m2):
    key = {"join_on": "join+on", "join_using": "join+on", "where_foreign": "where", "prewhere_foreign": "prewhere"}
    a, b = fp.get((cls, key.get(m1, m1))), fp.get((cls, key.get(m2, m2)))
    if a is None or b is None or a["unknown"] or b["unknown"]:
        return False
    w1, w2, r1, r2 = set(a["writes"]), set(b["writes"]), set(a["reads"]), set(b["reads"])
    return not (w1 & r2) and not (w1 & w2) and not (w2 & r1)


def cases(run, rng):
    del FAIL[:]
    for k in SEEN:
        SEEN[k] = 0
    fp = footprint_table()
    # ---- well-formedness of generated statements of every kind and class
    n = 400 if run.tier == "quick" else 6000
    for i in range(n):
        qc = QUERY_CLASSES[i % 6]
        g = genobj.G(random.Random(rng.randrange(1 << 30)), special_values=(i % 4 == 0), weird_names=(i % 5 == 0))
        g.no_period = True      # (x FROM a TO b is a temporal-table predicate; as a select item its FROM would read as a clause head)
        try:
            q = g.statement(qc, 2)
            s = q.get_sql(qc.SQL_CONTEXT)
        except Exception:
            continue
        if not isinstance(s, str):
            continue
        b = BCLS.get(type(getattr(q, "base_query", q)), "BGeneric")
        yield {"label": "wellformed", "corr": [(q, [(QNAMES[qc], qc.SQL_CONTEXT, "inline")])] if i % 3 == 0 else [],
               "expr": "j %s %s %s" % (qc.SQL_CONTEXT.dialect.name, b, cstr(s)), "known": None, "describe": {"class": QNAMES[qc], "sql": s}}
    # DDL and other statement kinds
    t = P.Table("t")
    ddl = [P.Query.create_table(t).columns(P.Column("a", "INT", nullable=False), P.Column("b", "VARCHAR(10)", default="x")).unique("a", "b").primary_key("a"),
           P.Query.create_table(t).columns(P.Column("a", "INT")).if_not_exists().temporary(), P.Query.create_table("n").as_select(P.Query.from_(t).select(t.a)),
           P.Query.create_table(t).columns(P.Column("a", "INT"), P.Column("s", "DATETIME"), P.Column("e", "DATETIME")).period_for("p", "s", "e").with_system_versioning(),
           P.Query.create_table(t).columns(P.Column("a", "INT")).unlogged(),
           P.Query.drop_table(t), P.Query.drop_table(t).if_exists()]
    for q in ddl:
        s = sql(q)
        yield {"label": "wellformed:ddl", "corr": [], "expr": "j SQLITE BGeneric %s" % cstr(s), "known": None, "describe": {"sql": s}}
        # SQLite accepts the DDL (supporting)
        if "PERIOD FOR" not in s and "SYSTEM VERSIONING" not in s and "UNLOGGED" not in s:
            try:
                db = sqlite3.connect(":memory:")
                db.execute('CREATE TABLE "u" ("b" INT PRIMARY KEY)')
                if s.startswith("DROP") or "AS (SELECT" in s or "AS SELECT" in s:
                    db.execute('CREATE TABLE "t" ("a" INT)')
                db.execute(s.replace(' AS (SELECT "a" FROM "t")', ' AS SELECT "a" FROM "t"'))
                SEEN["sqlite"] += 1
            except sqlite3.Error as e:
                if "IF EXISTS" in s or "already exists" in str(e):
                    SEEN["sqlite"] += 1
                else:
                    FAIL.append({"kind": "SQLite rejects the DDL statement", "sql": s, "error": str(e)})
    # ---- incomplete builders render the empty string
    for qc in QUERY_CLASSES:
        t, u = P.Table("t"), P.Table("u")
        inc = {"empty": lambda: qc._builder(), "from-only": lambda: qc.from_(t), "from-where": lambda: qc.from_(t).where(t.a == 1).orderby(t.a).limit(1),
               "into-only": lambda: qc.into(t), "into-columns": lambda: qc.into(t).columns("a", "b"), "update-no-set": lambda: qc.update(t).where(t.a == 1),
               "update-no-set-from-join": lambda: qc.update(t).from_(u).join(u).on(t.a == u.a).where(t.a == 1).orderby(t.a).limit(1),
               "joined-no-select": lambda: qc.from_(t).join(u).on(t.a == u.a).groupby(t.a)}
        # every call that decorates a statement without completing it, alone and in pairs, on every incomplete base
        deco = {"where": lambda q: q.where(t.a == 1), "having": lambda q: q.having(t.a == 1), "groupby": lambda q: q.groupby(t.a),
                "orderby": lambda q: q.orderby(t.a), "limit": lambda q: q.limit(2), "offset": lambda q: q.offset(1), "distinct": lambda q: q.distinct(),
                "join": lambda q: q.join(u).on(t.a == u.a), "with": lambda q: q.with_(qc.from_(u).select(u.a), "c0"), "for_update": lambda q: q.for_update(),
                "force_index": lambda q: q.force_index("i0"), "on_conflict": lambda q: q.on_conflict("a"), "do_nothing": lambda q: q.on_conflict("a").do_nothing(),
                "do_update": lambda q: q.on_conflict("a").do_update("b", 1), "returning": lambda q: q.returning("id"), "returning-term": lambda q: q.returning(t.a),
                "top": lambda q: q.top(3), "modifier": lambda q: q.modifier("SQL_CALC_FOUND_ROWS"), "distinct_on": lambda q: q.distinct_on("a"),
                "columns": lambda q: q.columns("c"), "as": lambda q: q.as_("al"), "prewhere": lambda q: q.prewhere(t.a == 1)}
        for bname in list(inc):
            for d1, f1 in deco.items():
                inc["%s+%s" % (bname, d1)] = (lambda bname=bname, f1=f1: f1(inc[bname]()))
                if d1 in ("returning", "on_conflict", "do_nothing", "do_update", "with", "join"):
                    for d2, f2 in deco.items():
                        inc["%s+%s+%s" % (bname, d1, d2)] = (lambda bname=bname, f1=f1, f2=f2: f2(f1(inc[bname]())))
        for name, f in inc.items():
            try:
                q = f()
            except Exception:
                continue
            SEEN["incomplete"] += 1
            for ctx in (qc.SQL_CONTEXT, qc.SQL_CONTEXT.copy(subquery=True, with_alias=True)):
                s = sql(q, ctx)
                if s != "":
                    FAIL.append({"kind": "an incomplete builder renders a fragment", "class": QNAMES[qc], "builder": name, "sql": s})
    for q in (P.Query.create_table("x"), P.Query.drop_table("x") if False else None, MySQLQuery.load("/f.csv"), MySQLQuery.load("/f.csv").into("x") if False else None):
        if q is None:
            continue
        SEEN["incomplete"] += 1
        if sql(q) != "":
            FAIL.append({"kind": "an incomplete builder renders a fragment", "class": type(q).__name__, "sql": sql(q)})
    # ---- EXHAUSTIVE ordered pairs of clause setters on base states
    for qc in (QUERY_CLASSES if run.tier == "thorough" else [P.Query, MySQLQuery, PostgreSQLQuery, MSSQLQuery]):
        cname = type(qc._builder()).__name__
        bases = {"from": lambda t, u: qc.from_(t).select(t.z), "from-where": lambda t, u: qc.from_(t).select(t.z).where(t.y == 0).groupby(t.z).orderby(t.z),
                 "from-two": lambda t, u: qc.from_(t).from_(P.Table("v2")).select(t.z)}     # two sources: references are written qualified
        for bn, bf in bases.items():
            t0, u0 = P.Table("t"), P.Table("u")
            names = list(setters(t0, u0))
            for m1, m2 in itertools.permutations(names, 2):
                if CLAUSE[m1] == CLAUSE[m2]:
                    continue
                t, u = P.Table("t"), P.Table("u")
                S = setters(t, u)
                try:
                    a = S[m2][0](S[m1][0](bf(t, u)))
                    t2, u2 = P.Table("t"), P.Table("u")
                    S2 = setters(t2, u2)
                    b = S2[m1][0](S2[m2][0](bf(t2, u2)))
                except Exception:
                    continue
                sa, sb = sql(a, qc.SQL_CONTEXT), sql(b, qc.SQL_CONTEXT)
                if sa.startswith("EXC") or sb.startswith("EXC"):
                    continue
                SEEN["pairs"] += 1
                if noninterfering(fp, cname, m1, m2):
                    SEEN["table_audited"] += 1
                if sa == sb:
                    SEEN["pairs_equal"] += 1
                else:
                    FAIL.append({"kind": "calls that address different clauses do not commute", "class": QNAMES[qc], "base": bn, "first": m1, "second": m2, "sql_12": sa, "sql_21": sb,
                                 "footprints_say_noninterfering": noninterfering(fp, cname, m1, m2), "known": KNOWN_PAIRS.get(frozenset((m1, m2)))})
            # repeated calls to one clause accumulate in call order
            for m in names:
                if setters(t0, u0)[m][1] is None:
                    continue
                t, u = P.Table("t"), P.Table("u")
                S = setters(t, u)
                s12 = sql(S[m][1](S[m][0](bf(t, u))), qc.SQL_CONTEXT)
                s1 = sql(S[m][0](bf(t, u)), qc.SQL_CONTEXT)
                s2 = sql(S[m][1](bf(t, u)), qc.SQL_CONTEXT)
                SEEN["accumulate"] += 1
                # the item added by the second call appears after the item of the first one, and both are present
                d1 = [x for x in _diff_tokens(sql(bf(t, u), qc.SQL_CONTEXT), s1)]
                d2 = [x for x in _diff_tokens(sql(bf(t, u), qc.SQL_CONTEXT), s2)]
                ok = all(x in s12 for x in d1 + d2) and (not d1 or not d2 or s12.find(d1[-1]) < s12.rfind(d2[-1]))
                if not ok:
                    FAIL.append({"kind": "repeated calls to one clause do not accumulate in call order", "class": QNAMES[qc], "method": m, "first_only": s1, "second_only": s2, "both": s12})
        # the FROM table itself set after / before WHERE (no base FROM), and WHERE around on_conflict
        t = P.Table("t")
        x = sql(qc._builder().from_(t).where(t.c == 1).select(t.a), qc.SQL_CONTEXT)
        y = sql(qc._builder().where(t.c == 1).from_(t).select(t.a), qc.SQL_CONTEXT)
        SEEN["pairs"] += 1
        if x != y:
            FAIL.append({"kind": "calls that address different clauses do not commute", "class": QNAMES[qc], "base": "empty", "first": "from_", "second": "where", "sql_12": x, "sql_21": y,
                         "known": "C13-where-before-from"})
        else:
            SEEN["pairs_equal"] += 1
        if qc in (P.Query, PostgreSQLQuery, SQLLiteQuery):
            x = sql(qc.into(t).insert(1).on_conflict("a").where(t.c == 1).do_update("b", 2), qc.SQL_CONTEXT)
            y = sql(qc.into(t).insert(1).where(t.c == 1).on_conflict("a").do_update("b", 2), qc.SQL_CONTEXT)
            SEEN["pairs"] += 1
            if x != y:
                FAIL.append({"kind": "calls that address different clauses do not commute", "class": QNAMES[qc], "base": "insert", "first": "on_conflict", "second": "where",
                             "sql_12": x, "sql_21": y, "known": "C13-where-before-on-conflict"})
            else:
                SEEN["pairs_equal"] += 1
        # the head of a statement: from_ / into / select / where in every order - what is rendered depends only on whether into() comes
        # before select() (INSERT .. SELECT) or after it (SELECT .. INTO), not on where from_() and where() stand
        t, u = P.Table("t"), P.Table("u")
        head = {"from_": lambda q: q.from_(u), "into": lambda q: q.into(t), "select": lambda q: q.select(u.a), "where": lambda q: q.where(u.b == 1)}
        groups = {}
        for perm in itertools.permutations(head):
            if perm.index("where") < perm.index("from_"):
                continue                                   # (known finding C13-where-before-from)
            try:
                q = qc._builder()
                for k in perm:
                    q = head[k](q)
                x = sql(q, qc.SQL_CONTEXT)
            except Exception:
                continue
            if x.startswith("EXC"):
                continue
            groups.setdefault(perm.index("into") < perm.index("select"), {}).setdefault(x, perm)
        for into_first, texts in groups.items():
            SEEN["pairs"] += 1
            if len(texts) > 1:
                (x, p1), (y, p2) = list(texts.items())[:2]
                FAIL.append({"kind": "calls that address different clauses do not commute", "class": QNAMES[qc], "base": "empty", "first": "/".join(p1), "second": "/".join(p2),
                             "sql_12": x, "sql_21": y, "known": None})
            else:
                SEEN["pairs_equal"] += 1
        # the insert / update families
        t = P.Table("t")
        a = sql(qc.into(t).columns("a").columns("b", "c").insert(1, 2, 3).insert(4, 5, 6), qc.SQL_CONTEXT)
        q_ = qc.SQL_CONTEXT.quote_char
        SEEN["accumulate"] += 1
        if "({0}a{0},{0}b{0},{0}c{0})".format(q_) not in a or "(1,2,3),(4,5,6)" not in a:
            FAIL.append({"kind": "repeated calls to one clause do not accumulate in call order", "class": QNAMES[qc], "method": "columns / insert", "both": a})
        b = sql(qc.update(t).set("a", 1).set("b", 2), qc.SQL_CONTEXT)
        if "{0}a{0}=1,{0}b{0}=2".format(q_) not in b:
            FAIL.append({"kind": "repeated calls to one clause do not accumulate in call order", "class": QNAMES[qc], "method": "set", "both": b})
        for m1, m2 in itertools.permutations(["columns", "insert"], 2):
            pass
        x = sql(qc.into(t).columns("a", "b").insert(1, 2), qc.SQL_CONTEXT)
        y = sql(qc.into(t).insert(1, 2).columns("a", "b"), qc.SQL_CONTEXT)
        SEEN["pairs"] += 1
        if x != y:
            FAIL.append({"kind": "calls that address different clauses do not commute", "class": QNAMES[qc], "base": "into", "first": "columns", "second": "insert", "sql_12": x, "sql_21": y,
                         "known": None})
        else:
            SEEN["pairs_equal"] += 1
        x = sql(qc.update(t).set("a", 1).where(t.b == 2), qc.SQL_CONTEXT)
        y = sql(qc.update(t).where(t.b == 2).set("a", 1), qc.SQL_CONTEXT)
        SEEN["pairs"] += 1
        if x != y:
            FAIL.append({"kind": "calls that address different clauses do not commute", "class": QNAMES[qc], "base": "update", "first": "set", "second": "where", "sql_12": x, "sql_21": y,
                         "known": None})
        else:
            SEEN["pairs_equal"] += 1


def _diff_tokens(base, ext):
    """the quoted identifiers of ext that base lacks"""
    import re
    toks = re.findall(r'["`][^"`]+["`]', ext)
    return [x for x in toks if x not in base]


class LazyViolations:
    def __iter__(self):
        listed = {e["id"] for e in core.load_known("C13") if e.get("status") == "known"}
        out = []
        for f in FAIL:
            if f.get("known") and f["known"] in listed:
                continue
            out.append(("C13: %s: %s" % (f["kind"], {k: str(v)[:220] for k, v in f.items() if k != "kind"}), dict(f)))
        return iter(out)


def lazy_cov():
    known = sorted({f["known"] for f in FAIL if f.get("known")})
    return {"ordered_pairs_compared": SEEN["pairs"], "ordered_pairs_equal": SEEN["pairs_equal"], "pairs_where_footprint_table_predicts_commutation": SEEN["table_audited"],
            "incomplete_builders": SEEN["incomplete"], "accumulation_checks": SEEN["accumulate"], "sqlite_ddl_accepted": SEEN["sqlite"], "differences": len(FAIL),
            "differences_in_known_class": known, "exhaustive": True,
            "exhaustive_part": "all ordered pairs of 16 clause-setting calls that address different clauses x 2 base states x classes"}


def check(run: core.Run):
    rng = random.Random(run.seed)
    stmtprop.run_statement_property(
        run, prop="C13", propfile="Props/C13.v", module="Props.C13", theorems=THEOREMS, header=HEADER, cases=cases(run, rng),
        what="well-formedness", extra_violations=LazyViolations(), extra_cov=lazy_cov, extra_targets=["Ref/Clauses.v", "Gen/Footprints.v"],
        rule="(i,ii) random statements of every kind (SELECT with every clause, INSERT, UPDATE, DELETE, upsert, set operations, sub-queries, CTEs) x 6 classes and 7 DDL statements: "
             "Ref.Clauses.wellformed in Coq on the implementation's text (lexes without comment, brackets balanced, depth-0 clause heads form a sub-sequence without repetition of the class's "
             "clause order). (iii) 8 incomplete builder bases, each alone and decorated by every non-completing call (and pairs of them) x 6 classes x 2 contexts + DDL / LOAD builders render ''. (iv) EXHAUSTIVE: all ordered pairs of 16 clause-setting calls that "
             "address different clauses x 2 base states x classes: both orders must give the same SQL (audits the regenerated footprint table: a pair it calls non-interfering must "
             "commute); repeated calls accumulate in call order (8 methods + columns / insert / set). (v) SQLite parses the DDL statements (supporting).",
        assumptions=["the footprint table describes the builder methods (may-analysis of attribute reads / writes over the MRO, audited by the pair sweep)",
                     "Ref/Clauses.v clause orders per dialect"])
    for f in FAIL:
        if f.get("known"):
            for e in core.load_known("C13"):
                if e.get("status") == "known" and e["id"] == f["known"] and e["what_fails"] not in run.known_lines:
                    run.known(e["what_fails"])


def replay(run, path):
    return stmtprop.generic_replay(run, path)

"""C01 — builder calls never alter the receiver or earlier-derived objects.

proof:  Props/C01.v (C01_summary_safe by computation over Gen/Effects.v; C01_builder_frame, C01_history_frame)
tie:    tools/gen_effects.py regenerates the effect summaries, copy rules and container attributes from /repo;
        audited dynamically by the branching differential run below: for every @builder method of the live
        package, on receivers whose clauses are non-empty, a = r.m(x); b = r.m(y); c = a.m(z) with every live
        object re-observed (six contexts x {inline, parameterised} + metadata) after each call
search: random call histories (depth <= 8 / 14, fan-out <= 3) with the same observation
"""
from __future__ import annotations

import random

import core
import builders as B

LEVEL = "proof"
THEOREMS = ["C01_summary_safe", "C01_continuations_safe", "C01_builder_frame", "C01_history_frame", "C01_nonvacuous"]


def systematic():
    """Returns (combinations run, list of leak dicts, list of skipped (class, method, why))."""
    leaks, skipped, n = [], [], 0
    for cls, name in B.discover():
        recs = B.receivers(cls, name)
        if not recs:
            skipped.append((cls.__name__, name, "no canned receiver"))
            continue
        for ri, rf in enumerate(recs):
            r = rf()
            a0 = B.args_for(cls, name, r, 0)
            if a0 is None:
                skipped.append((cls.__name__, name, "no canned arguments"))
                break
            f0, objs0 = a0
            f1, objs1 = B.args_for(cls, name, r, 1)
            f2, objs2 = B.args_for(cls, name, r, 2)
            where = {"class": cls.__name__, "method": name, "receiver": ri}
            snap_r = B.observe(r)
            arg_snaps = [(o, B.observe_mod_alias(o), o.__dict__.get("alias")) for o in objs0]
            try:
                a = f0(r)
            except Exception as e:  # a rejected call must leave the receiver alone too
                if B.observe(r) != snap_r:
                    leaks.append(dict(where, what="receiver changed by a call that raised %s" % type(e).__name__))
                continue
            n += 1
            if a is r:
                leaks.append(dict(where, what="the call returned the receiver itself"))
                continue
            if B.observe(r) != snap_r:
                leaks.append(dict(where, what="receiver changed by the call", step="a = r.%s(args0)" % name))
                continue
            for o, s, al in arg_snaps:
                if B.observe_mod_alias(o) != s or (al is not None and o.__dict__.get("alias") != al):
                    leaks.append(dict(where, what="argument object changed beyond the permitted auto-alias"))
            snap_a = B.observe(a)
            arg_snaps1 = [(o, B.observe_mod_alias(o), o.__dict__.get("alias")) for o in objs1]
            try:
                b = f1(r)
            except Exception:
                b = None
            for o, s_, al in arg_snaps1:
                if B.observe_mod_alias(o) != s_ or (al is not None and o.__dict__.get("alias") != al):
                    leaks.append(dict(where, what="argument object changed beyond the permitted auto-alias", step="b = r.%s(args1)" % name))
            if B.observe(r) != snap_r:
                leaks.append(dict(where, what="receiver changed by the second call", step="b = r.%s(args1)" % name))
            if B.observe(a) != snap_a:
                leaks.append(dict(where, what="earlier continuation changed by a second call on the shared receiver",
                                  step="a = r.%s(args0); b = r.%s(args1)" % (name, name)))
                snap_a = B.observe(a)
            snap_b = B.observe(b) if b is not None else None
            arg_snaps2 = [(o, B.observe_mod_alias(o), o.__dict__.get("alias")) for o in objs2]
            try:
                c = f2(a)
            except Exception:
                c = None
            for o, s_, al in arg_snaps2:
                if B.observe_mod_alias(o) != s_ or (al is not None and o.__dict__.get("alias") != al):
                    leaks.append(dict(where, what="argument object changed beyond the permitted auto-alias", step="c = a.%s(args2)" % name))
            if B.observe(a) != snap_a:
                leaks.append(dict(where, what="object changed by a call made on it", step="c = a.%s(args2)" % name))
            if B.observe(r) != snap_r:
                leaks.append(dict(where, what="ancestor changed by a call on its descendant", step="c = a.%s(args2)" % name))
            if b is not None and B.observe(b) != snap_b:
                leaks.append(dict(where, what="sibling changed by a call on the other branch", step="c = a.%s(args2)" % name))
    # explicitly aliased row sources of every kind as arguments: the call may not touch them (nor the receiver, nor statements built around them)
    for cls, name in B.discover():
        for ri, rf in enumerate(B.receivers(cls, name) or []):
            try:
                variants = B.extra_args(cls, name, rf())
            except Exception:
                variants = []
            for vi in range(len(variants)):
                r = rf()
                f, objs = B.extra_args(cls, name, r)[vi]
                around = [B.P.Query.from_(o).select("*") for o in objs if hasattr(o, "get_sql")]       # statements built earlier around the arguments
                snaps = [(o, B.observe(o), o.__dict__.get("alias")) for o in objs] + [(o, B.observe(o), None) for o in around]
                snap_r = B.observe(r)
                try:
                    f(r)
                except Exception:
                    pass
                n += 1
                where = {"class": cls.__name__, "method": name, "receiver": ri, "argument_variant": vi}
                if B.observe(r) != snap_r:
                    leaks.append(dict(where, what="receiver changed by the call"))
                for o, s_, al in snaps:
                    if B.observe(o) != s_ or o.__dict__.get("alias") != (al if al is not None else o.__dict__.get("alias")):
                        leaks.append(dict(where, what="an argument object (or a statement built earlier around it) changed"))
                        break
    # independence of continuations: what r.m(x) is does not depend on which sibling continuations of r were made before it
    for cls, name in B.discover():
        for ri, rf in enumerate(B.receivers(cls, name) or []):
            for k in range(3):
                try:
                    r0 = rf()
                    a0 = B.args_for(cls, name, r0, k)
                    if a0 is None:
                        break
                    alone = B.observe(a0[0](r0))
                except Exception:
                    continue
                for j in range(3):
                    try:
                        r = rf()
                        B.args_for(cls, name, r, j)[0](r)          # an earlier sibling
                        later = B.observe(B.args_for(cls, name, r, k)[0](r))
                    except Exception:
                        continue
                    n += 1
                    if later != alone:
                        leaks.append({"class": cls.__name__, "method": name, "receiver": ri,
                                      "what": "a continuation depends on a sibling continuation made before it",
                                      "step": "r.%s(args%d); b = r.%s(args%d)  vs  b alone" % (name, j, name, k)})
    # every public method that can be called without arguments must leave its receiver alone as well
    # (a derivation method such as negate() that stops being a @builder is found here)
    import inspect
    for cls in B.all_classes():
        if cls.__name__ in ("Joiner",):
            continue
        try:
            recs = B.receivers(cls, "as_") if cls.__name__ not in ("Term", "Selectable") else B.receivers(cls, "as_")
        except Exception:
            recs = []
        for ri, rf in enumerate(recs):
            r0 = rf()
            for mname, fobj in inspect.getmembers(type(r0), inspect.isfunction):
                if mname.startswith("_"):
                    continue
                try:
                    sig = inspect.signature(fobj)
                except (TypeError, ValueError):
                    continue
                ps = list(sig.parameters.values())[1:]
                if any(p.default is inspect._empty and p.kind in (p.POSITIONAL_ONLY, p.POSITIONAL_OR_KEYWORD, p.KEYWORD_ONLY) for p in ps):
                    continue
                r = rf()
                snap = B.observe(r)
                try:
                    getattr(r, mname)()
                except Exception:
                    pass
                n += 1
                if B.observe(r) != snap:
                    leaks.append({"class": type(r).__name__, "method": mname, "receiver": ri,
                                  "what": "receiver changed by a public zero-argument call", "step": "r.%s()" % mname})
    return n, leaks, skipped


def builder_methods_of(obj):
    out = []
    for cls, name in B.discover():
        if isinstance(obj, cls):
            out.append((cls, name))
    return out


def random_history(rng, depth, roots):
    """One random branching history. Returns (calls made, leak or None, trace)."""
    pool = []      # (object, snapshot)
    trace = []
    for rf in roots:
        o = rf()
        pool.append([o, B.observe(o)])
    calls = 0
    for step in range(depth):
        oi = rng.randrange(len(pool))
        o = pool[oi][0]
        ms = builder_methods_of(o)
        if not ms:
            continue
        cls, name = rng.choice(ms)
        k = rng.randrange(3)
        a = B.args_for(cls, name, o, k)
        if a is None:
            continue
        f, objs = a
        arg_snaps = [(x, B.observe_mod_alias(x), x.__dict__.get("alias")) for x in objs]
        trace.append({"on": oi, "class": type(o).__name__, "method": name, "args": k})
        try:
            res = f(o)
        except Exception as e:  # noqa
            trace[-1]["raised"] = type(e).__name__
            res = None
        calls += 1
        for j, (p, snap) in enumerate(pool):
            if B.observe(p) != snap:
                return calls, {"what": "live object #%d (%s) changed by call %d" % (j, type(p).__name__, len(trace) - 1), "trace": trace}, trace
        for x, s, al in arg_snaps:
            if B.observe_mod_alias(x) != s or (al is not None and x.__dict__.get("alias") != al):
                return calls, {"what": "argument changed beyond the permitted auto-alias", "trace": trace}, trace
        if res is not None and hasattr(res, "get_sql") and all(res is not p for p, _ in pool):
            pool.append([res, B.observe(res)])
            for x in objs:
                if hasattr(x, "get_sql") and all(x is not p for p, _ in pool) and len(pool) < 14:
                    pool.append([x, B.observe(x)])
    return calls, None, trace


ROOTS = [lambda: B.sel(), lambda: B.sel(B.MySQLQuery), lambda: B.sel(B.PostgreSQLQuery), lambda: B.ins(B.PostgreSQLQuery, True),
         lambda: B.upd(B.SQLLiteQuery), B.setop, lambda: B.P.Case().when(B.T_("t").a == 1, 2),
         lambda: B.an.Sum(B.T_("t").a).over(B.T_("t").b), lambda: B.fn.Sum(B.T_("t").a).filter(B.T_("t").c == 1),
         lambda: B.P.Query.create_table("x").columns("a"), lambda: B.T_("t"), lambda: B.sel(B.MSSQLQuery), lambda: B.sel(B.OracleQuery),
         lambda: B.T_("t").a.isin([1, 2]), lambda: B.ins(B.MySQLQuery, True)]


def check(run: core.Run):
    rng = random.Random(run.seed)
    proofs_ok = core.proof_stage(run, "Props/C01.v", "Props.C01", THEOREMS)
    n, leaks, skipped = systematic()
    nh = 150 if run.tier == "quick" else 3000
    depth = 8 if run.tier == "quick" else 14
    hcalls, hleaks, sample_traces = 0, [], []
    for i in range(nh):
        roots = rng.sample(ROOTS, 2)
        calls, leak, trace = random_history(rng, depth, roots)
        hcalls += calls
        if i < 2:
            sample_traces.append(trace)
        if leak:
            hleaks.append(leak)
    seen = set()
    for lk in leaks:
        key = (lk["class"], lk["method"], lk["what"])
        if key in seen:
            continue
        seen.add(key)
        run.violation("builder call leaks: %s.%s — %s" % (lk["class"], lk["method"], lk["what"]), dict(lk, kind="systematic"))
    for lk in hleaks[:3]:
        run.violation("builder history leaks: %s" % lk["what"], dict(lk, kind="history"))
    if not leaks and not hleaks and not proofs_ok:
        run.violation("proof obligation broken: %s" % "; ".join(run.broken),
                      {"broken": run.broken, "theorems": THEOREMS, "file": "coq/Props/C01.v",
                       "note": "the branching differential run over every @builder method and %d random histories found no leaking call" % nh},
                      found_input=False)
    methods = B.discover()
    run.cov.update({
        "evaluations": n + hcalls,
        "distinct_nontrivial": n,
        "rule": "systematic: every @builder method of the live package (%d methods) x every canned receiver with non-empty state x "
                "pattern a=r.m(x); b=r.m(y); c=a.m(z), all live objects observed in 6 contexts x {inline, parameterised} + alias/tables_/fields_/is_aggregate "
                "after each call (a combination is non-trivial when the first call succeeds); plus %d random branching histories of depth %d over a pool of live objects" % (len(methods), nh, depth),
        "samples": [{"class": c.__name__, "method": m} for c, m in methods[:3]] + sample_traces[:1],
        "exhaustive": False,
        "builder_methods": len(methods), "systematic_combinations": n, "history_calls": hcalls,
        "skipped": skipped, "leaks": len(leaks) + len(hleaks),
    })
    run.assumptions += ["CPython attribute stores and list/set mutation behave as the may-write IR of Proofs/Frame.v",
                        "tools/gen_effects.py names every store/mutation form in the package (fail-closed on setattr-like forms it cannot name)",
                        "default copy.copy creates a new instance sharing every attribute value"]


def replay(run, path):
    import json
    r = json.load(open(path))["replay"]
    print(json.dumps(r, indent=1)[:3000])
    n, leaks, _ = systematic()
    print("systematic run now:", n, "combinations,", len(leaks), "leaks")
    for lk in leaks[:10]:
        print("  ", lk)
    import shutil
    shutil.rmtree(run.workdir, ignore_errors=True)
    return 0

"""C09 — LIMIT/OFFSET render as the dialect's row-limiting clause, values in the right slots.

proof:   Props/C09.v (model output = head ++ Ref.RowLimit.ref_pagination for ALL limit/offset integers, +-ORDER BY, six classes, inline and
         parameterised with value order; sub-query and set-operation positions)
tie:     correspondence of Model.Render on every generated statement (exact text and value list)
P_check: Ref.RowLimit.c09_ok in Coq on the implementation's text: reference recogniser on the lexed tail, slots vs the object's limit/offset,
         placeholders vs the value list
search:  EXHAUSTIVE product (absent|0|positive)^2 x ORDER BY x {top level, sub-query in FROM, set operation} x 6 classes x {inline, param}
         x call orders (limit/offset/slice/__getitem__/fetch_next); random values
"""
from __future__ import annotations

import itertools
import random

import core
import corr
import renderprop
import pypika_tortoise as P
from pypika_tortoise.dialects import MSSQLQuery, MySQLQuery, OracleQuery, PostgreSQLQuery, SQLLiteQuery
from genobj import QUERY_CLASSES, QNAMES

LEVEL = "proof"
THEOREMS = ["C09_inline", "C09_param", "C09_subquery", "C09_setop", "C09_every_statement", "C09_every_set_operation", "C09_recogniser_reads_printer", "C09_old_oracle_refuted",
            "C09_old_sqlite_refuted", "C09_setop_offset_alone_refuted"]
PCHECK = ("Ref.Lexer Ref.RowLimit",
          "Definition pcheck (cx : ctx) (t : term) (sql : str) (param : bool) (vals : list str) : option bool := c09_ok (dialect cx) t sql param vals.\n"
          "Definition known (t : term) : bool :=\n"
          "  match t with\n"
          "  | TSetOp base _ _ NoT (SomeT _) _ => match query_parts base with (BSQLite, _, _, _, _, _) | (BMySQL, _, _, _, _, _) => true | _ => false end\n"
          "  | TQuery q => match query_parts q with (_, _, SomeT _, _, _, Some _) | (_, _, _, SomeT _, _, Some _) => true | _ => false end\n"
          "  | _ => false end.\n")

VALS = [None, 0, 3]
ORDERS = ["lo", "ol", "slice", "getitem", "fetch", "fetch-first"]


def apply_lo(q, l, o, how, qc):
    """set limit l and offset o on q through the call pattern `how`; returns (query, expected limit, expected offset) - the expectation is
    the SETTER TABLE of the property: limit(n) / fetch_next(n) set the limit, offset(m) sets the offset, slice(a:b) and q[a:b] set the offset
    to a and the limit to b where given (the library's reading of a slice, pinned by tests/test_selects.py), the last writer wins, and a
    setter leaves the other value alone"""
    el, eo = l, o
    if how == "lo":
        if l is not None:
            q = q.limit(l)
        if o is not None:
            q = q.offset(o)
    elif how == "ol":
        if o is not None:
            q = q.offset(o)
        if l is not None:
            q = q.limit(l)
    elif how == "slice":
        q = q.limit(99).offset(98).slice(slice(o, l))
        el, eo = (99 if l is None else l), (98 if o is None else o)
    elif how == "getitem":
        q = q[o:l]
    elif how == "fetch":
        if qc is not MSSQLQuery or l is None:
            return None
        if o is not None:
            q = q.offset(o)
        q = q.fetch_next(l)
    elif how == "fetch-first":
        if qc is not MSSQLQuery or l is None:
            return None
        q = q.fetch_next(l)
        if o is not None:
            q = q.offset(o)
    st = (getattr(q._limit, "value", None), getattr(q._offset, "value", None))
    if (st[0], st[1] or 0) != (el, eo or 0):     # 'skip m rows, then at most n': an absent offset skips none
        OPS_FAIL.append({"calls": how, "limit_arg": l, "offset_arg": o, "class": QNAMES.get(qc, str(qc)), "state_limit": st[0], "state_offset": st[1],
                         "expected_limit": el, "expected_offset": eo, "sql": str(q)})
    return q


OPS_FAIL = []


def items(run, rng):
    t = lambda: P.Table("t")  # noqa
    vals = VALS if run.tier == "quick" else VALS + [1, 10 ** 20]
    n = 0
    for qc in QUERY_CLASSES:
        ctx = qc.SQL_CONTEXT
        name = QNAMES[qc]
        for l, o, ob, how, pos in itertools.product(vals, vals, [False, True], ORDERS, ["top", "sub", "setop", "setop-sub", "setop-base-ordered", "where", "over-ordered-sub", "in-ordered-sub", "orderby-text"]):
            tb = t()
            try:
                if pos in ("top", "sub", "where", "over-ordered-sub", "in-ordered-sub", "orderby-text"):
                    q = qc.from_(tb).select(tb.a)
                    if pos == "where":
                        q = q.where(tb.b == 5)
                    # the statement's own ORDER BY is what counts, not an ORDER BY somewhere inside it
                    if pos == "over-ordered-sub":
                        w = P.Table("w")
                        q = qc.from_(qc.from_(w).select(w.a, w.b).orderby(w.b)).select("a")
                    if pos == "in-ordered-sub":
                        w = P.Table("w")
                        q = q.where(tb.b.isin(qc.from_(w).select(w.b).orderby(w.b)))
                    if pos == "orderby-text":
                        q = q.where(tb.c == "x ORDER BY y")
                    if ob:
                        q = q.orderby(tb.a)
                    q = apply_lo(q, l, o, how, qc)
                    if q is None:
                        continue
                    if pos == "sub":
                        q = qc.from_(q).select("*")
                else:
                    u = P.Table("u")
                    a = qc.from_(tb).select(tb.a)
                    b = qc.from_(u).select(u.a)
                    if pos == "setop-sub":
                        b = b.limit(1)
                    if pos == "setop-base-ordered":
                        a = a.orderby(tb.a).limit(5)      # the FIRST operand's own ORDER BY (inside its parentheses) is not the set operation's
                    q = a.union(b)
                    if ob:
                        q = q.orderby(tb.a)
                    if how in ("fetch", "fetch-first", "slice", "getitem"):
                        continue
                    q = apply_lo(q, l, o, how, qc)
            except Exception:
                continue
            n += 1
            yield q, [(name, ctx, "inline"), (name, ctx, "param")], {"gen": (name, l, o, ob, how, pos)}
    k = 200 if run.tier == "quick" else 3000
    for i in range(k):
        qc = QUERY_CLASSES[i % 6]
        tb = t()
        l = rng.choice([None, rng.randrange(0, 10 ** rng.randrange(1, 25))])
        o = rng.choice([None, rng.randrange(0, 10 ** rng.randrange(1, 25))])
        q = qc.from_(tb).select(tb.a, tb.b).where(tb.c == rng.randrange(100))
        if rng.random() < 0.5:
            q = q.orderby(tb.b)
        q = apply_lo(q, l, o, rng.choice(ORDERS[:4]), qc)
        if rng.random() < 0.3:
            q = qc.from_(q).select("*")
        yield q, [(QNAMES[qc], qc.SQL_CONTEXT, "inline"), (QNAMES[qc], qc.SQL_CONTEXT, "param")], {"gen": ("random", i, l, o)}
    # TOP (SQL Server)
    for top, l, o in itertools.product([None, 2], [None, 3], [None, 4]):
        tb = t()
        q = MSSQLQuery.from_(tb).select(tb.a)
        if top is not None:
            q = q.top(top)
        if l is not None:
            q = q.limit(l)
        if o is not None:
            q = q.offset(o)
        yield q, [("MSSQLQuery", MSSQLQuery.SQL_CONTEXT, "inline")], {"gen": ("top", top, l, o)}


def check(run: core.Run):
    del OPS_FAIL[:]
    rng = random.Random(run.seed)
    renderprop.run_render_property(
        run, prop="C09", propfile="Props/C09.v", module="Props.C09", theorems=THEOREMS, items=items(run, rng), pcheck=PCHECK,
        extra_targets=["Ref/RowLimit.v"],
        rule="EXHAUSTIVE product of (limit, offset) in (absent | 0 | positive)^2 x with/without ORDER BY x call pattern (limit-offset, offset-limit, slice, "
             "__getitem__, fetch_next) x position (top level, with WHERE, sub-query in FROM, set operation, set operation with a limited operand) x 6 query "
             "classes x {inline, parameterised}; plus random values up to 25 digits; plus TOP combinations. Each implementation text is lexed in Coq, the tail "
             "of the targeted statement is read by the reference recogniser of the class's dialect and compared with the object's limit/offset; placeholders "
             "are checked against the value list. Non-trivial = distinct statements.",
        assumptions=["Ref/RowLimit.v is the row-limiting grammar of each dialect (sources cited there)",
                     "the generic Query class is judged by the PostgreSQL form (LIMIT n / OFFSET m each optional)"],
        extra_cov={"builder_state_mismatches": len(OPS_FAIL), "exhaustive": True, "exhaustive_part": "(absent|0|positive)^2 x ORDER BY x 5 call patterns x 9 positions x 6 classes x 2 modes"})


    # TOP (SQL Server): SELECT [DISTINCT] [TOP (n)] <select list> - in this order, whatever the order of the calls, at every position
    t_ = P.Table("t")
    for calls in (("top",), ("distinct", "top"), ("top", "distinct"), ("distinct", "top", "where"), ("where", "top", "distinct")):
        for pos in ("top-level", "from-subquery", "set-operand"):
            q = MSSQLQuery.from_(t_).select(t_.a, t_.b)
            for c_ in calls:
                q = {"top": lambda q: q.top(4), "distinct": lambda q: q.distinct(), "where": lambda q: q.where(t_.c == 1)}[c_](q)
            inner = q.get_sql(MSSQLQuery.SQL_CONTEXT)
            outer = {"top-level": q, "from-subquery": MSSQLQuery.from_(q).select("*"), "set-operand": q.union(MSSQLQuery.from_(t_).select(t_.a, t_.b))}[pos]
            text = outer.get_sql(MSSQLQuery.SQL_CONTEXT)
            head = "SELECT " + ("DISTINCT " if "distinct" in calls else "") + "TOP (4) "
            if not inner.startswith(head) or inner not in text:
                run.violation("C09: the TOP clause is not in its grammatical place (SELECT [DISTINCT] TOP (n) ...) after the calls %s at position %s: %s"
                              % ("/".join(calls), pos, text[:300]), {"kind": "top-head", "calls": calls, "position": pos, "sql": text, "expected_head": head})
    for f in OPS_FAIL[:3]:
        run.violation("C09: after the calls %(calls)s(limit=%(limit_arg)r, offset=%(offset_arg)r) on %(class)s the builder holds limit=%(state_limit)r offset=%(state_offset)r, "
                      "the setter table says limit=%(expected_limit)r offset=%(expected_offset)r; rendered: %(sql)s" % f, dict(f, kind="builder-state"))


def replay(run, path):
    return renderprop.generic_replay(run, path, PCHECK)

"""C10 — a sub-query renders the same wherever it is embedded.

proof:   Props/C10.v over Proofs/QueryEq.v (C10_embedded_is_standalone: for EVERY embeddable statement of the model, every context handed down by a
         position and every parameterizer state, the rendering is the stand-alone rendering under the same dialect conventions with the four position
         flags off, wrapped in parentheses iff the position asks for them and followed by the alias iff the position defines one;
         C10_position_flags_do_not_reach_the_clauses; C10_setop_embedded_is_standalone: the same for set operations)
tie:     correspondence of Model.Render on inner, marker and outer statements (all positions, classes, both modes)
P_check: relational, on implementation outputs only: outer(inner) == outer(marker) with the marker's stand-alone text replaced by the inner
         query's stand-alone text (placeholders renumbered by the values that precede the position)
search:  inner queries with aliased terms in WHERE / GROUP BY / HAVING / ORDER BY / ON, nested and set-operation inners x 9 embedding positions x 6 classes
"""
from __future__ import annotations

import random
import re

import core
import stmtprop
import genobj
from genobj import QUERY_CLASSES, QNAMES
import pypika_tortoise as P
from pypika_tortoise import functions as fn, terms as T
from pypika_tortoise.terms import Parameterizer
from pypika_tortoise.dialects import MSSQLQuery, MySQLQuery, OracleQuery, PostgreSQLQuery, SQLLiteQuery

LEVEL = "proof"
THEOREMS = ["C10_embedded_is_standalone", "C10_position_flags_do_not_reach_the_clauses", "C10_setop_embedded_is_standalone", "C10_nonvacuous",
            "C10_returning_nonvacuous", "C10_cte_body_is_standalone"]
HEADER = "From PT Require Import Base.Str Base.Codes.\nOpen Scope N_scope.\n"


def marker(qc, n=1):
    return qc.from_(P.Table("zqt")).select(*[T.Field("zqm%d" % i) for i in range(n)])


def ncols_of(i):
    sel = getattr(i, "__dict__", {}).get("_selects")
    return len(sel) if isinstance(sel, list) and sel else 1


def handmade_inner(qc, k):
    t, u = P.Table("t"), P.Table("u")
    if k == 0:     # aliases everywhere a clause can hold one
        return (qc.from_(t).select(t.a.as_("x"), fn.Sum(t.d).as_("s")).where(t.b.as_("wb") == 1).groupby(t.c.as_("gc"))
                .having(fn.Sum(t.d).as_("hs") > 1).orderby(t.e.as_("oe")))
    if k == 1:     # join with aliased ON terms
        return qc.from_(t).join(u).on(t.a.as_("onl") == u.a.as_("onr")).select(t.a, u.b.as_("ub")).where((t.c == 2) | (u.c == 3))
    if k == 2:     # nested
        return qc.from_(handmade_inner(qc, 0)).select("x").where(T.Field("x").isin(qc.from_(u).select(u.a.as_("ia")).where(u.b.as_("ib") == 4)))
    if k == 3:     # compound where (sub-criterion flag)
        return qc.from_(t).select(t.a).where((t.z == 3) & (t.y == 4))
    if k == 4:     # CTE inside
        return qc.with_(qc.from_(u).select(u.a.as_("ca")).where(u.b.as_("cb") == 5), "c1").from_(P.AliasedQuery("c1")).select("ca")
    if k == 5:     # group by alias reference + limit
        g = (t.a + 1).as_("k")
        return qc.from_(t).select(g, fn.Count("*")).groupby(g).orderby(g).limit(3)
    if k == 6:     # values in several clauses (parameter renumbering)
        return qc.from_(t).select(t.a, 11).where(t.b == 12).having(fn.Max(t.c) > 13).groupby(t.a).limit(14)
    if k == 7:     # CTE with a column list whose terms carry an alias / a table (the WITH clause is a clause of the inner query too)
        return (qc.with_(qc.from_(u).select(u.a, u.b), "c2", T.Field("a").as_("ca"), T.Field("b", table=u)).from_(P.AliasedQuery("c2"))
                .select("a").where(T.Field("b") == 7))
    if k in (8, 9, 10) and qc is PostgreSQLQuery:     # data-modifying statements with RETURNING (embeddable as a CTE body)
        if k == 8:
            return qc.from_(t).where(t.b == 15).delete().returning(t.id, t.c.as_("rc"))
        if k == 9:
            return qc.into(t).columns("id", "note").insert(16, "x").returning(t.id, "note")
        return qc.update(t).set(t.a, 17).where(t.b == 18).returning(t.id, t.a.as_("ra"))
    if k == 11:    # row locking + pagination at the tail
        return qc.from_(t).select(t.a).where(t.b == 19).orderby(t.a).limit(2).for_update()
    return None


def positions(qc):
    """name -> function(inner) -> outer; each builds a FRESH outer"""
    o = P.Table("o")

    def frm(i):
        # (an explicit alias: the automatic sq<n> tag depends, by design, on how many sub-queries the inner query itself holds)
        i = i.as_("emb")
        return qc.from_(i).select("*").where(T.Field("w") == 21)

    def join(i):
        i = i.as_("emb")
        return qc.from_(o).join(i).on(o.a == T.Field("a", table=i)).select(o.a, 22)

    def in_(i):
        return qc.from_(o).select(o.a, 23).where(o.a.isin(i))

    def notin_nested(i):
        return qc.from_(o).select(o.a).where(~((o.a.isin(i)) | (o.b == 24)) & (o.c == 25))

    def cmp_(i):
        return qc.from_(o).select(o.a).where(o.a == i).where(o.b == 26)

    def sel(i):
        return qc.from_(o).select(o.a, i.as_("sel_alias"), 27)

    def cte(i):
        if not isinstance(i, P.queries.QueryBuilder):
            return None      # (a set operation as CTE body makes the library print WITH RECURSIVE: outside the embedded text, not judged here)
        return qc.with_(i, "cte0").from_(P.AliasedQuery("cte0")).select("*")

    def cte_joined(i):      # the outer statement qualifies its own columns (a join): nothing of that reaches the body
        if not isinstance(i, P.queries.QueryBuilder):
            return None
        c0 = P.AliasedQuery("cte0")
        return qc.with_(i, "cte0").from_(c0).join(o).on(o.a == T.Field("a", table=c0)).select(o.a, 31)

    def cte_two_from(i):
        if not isinstance(i, P.queries.QueryBuilder):
            return None
        return qc.with_(i, "cte0").from_(P.AliasedQuery("cte0")).from_(o).select(o.a, 32)

    def upd_from(i):        # UPDATE .. SET .. FROM <source>: the source is a defining position (parentheses and alias)
        i = i.as_("emb")
        return qc.update(o).set(o.x, T.Field("a", table=i)).from_(i).where(o.y == 33)

    def upd_from_joined(i):
        i = i.as_("emb")
        j = P.Table("j")
        return qc.update(o).join(j).on(o.k == j.k).set(o.x, j.v).from_(i).where(o.y == 34)

    def in_select(i):       # an IN criterion that is itself a select item: the operand of IN defines no alias, whatever the criterion's position prints
        return qc.from_(o).select(o.a.isin(i.as_("inq")).as_("flag"), 35)

    def sel_top(i):         # SQL Server: the select list of a statement with TOP
        if qc is not MSSQLQuery:
            return None
        return qc.from_(o).select(o.a, i.as_("sel_alias"), 36).top(5)

    def ncols(i):
        sel = getattr(i, "__dict__", {}).get("_selects")
        return len(sel) if isinstance(sel, list) and sel else None

    def setop(i):
        n = ncols(i)
        if n is None:
            return None
        return qc.from_(o).select(*[o.a] * n).where(o.b == 28).union(i)

    def setop_base(i):
        n = ncols(i)
        if n is None:
            return None
        return i.union(qc.from_(o).select(*[o.a] * n).where(o.b == 29))

    def func_arg(i):
        return qc.from_(o).select(fn.Coalesce(i, 30))

    return {"from": frm, "join": join, "in": in_, "in-under-not": notin_nested, "comparison": cmp_, "select-item": sel, "in-select-item": in_select, "select-item-under-top": sel_top, "update-from": upd_from, "update-from-joined": upd_from_joined, "cte-body": cte, "cte-body-joined-outer": cte_joined, "cte-body-two-from-outer": cte_two_from,
            "set-operand": setop, "set-base": setop_base, "function-arg": func_arg}


PH = re.compile(r"\$(\d+)")
POS_ALIAS = {"from": "emb", "join": "emb", "update-from": "emb", "update-from-joined": "emb", "select-item": "sel_alias", "select-item-under-top": "sel_alias"}
POS_NO_ALIAS = {"in-select-item": "inq"}


def render(obj, ctx, param, prefill=0):
    pz = None
    if param:
        pz = Parameterizer()
        pz.values.extend([None] * prefill)
        ctx = ctx.copy(parameterizer=pz)
    try:
        s = obj.get_sql(ctx)
    except Exception as e:  # noqa
        return "EXC:" + type(e).__name__, []
    return s, (pz.values[prefill:] if pz else [])


REL_FAIL = []
REL_SEEN = [0]


def relational(label, qc, mk_inner, pos_name, pos):
    """the statement on implementation outputs"""
    ctx = qc.SQL_CONTEXT
    for param in (False, True):
        try:
            inner_alone = mk_inner()
            if inner_alone is None:
                return []
            n = ncols_of(inner_alone)
            marker_alone = marker(qc, n)
            outer_a, outer_m = pos(mk_inner()), pos(marker(qc, n))
        except Exception:
            return []
        if outer_a is None:
            return []
        sm, _ = render(outer_m, ctx, param)
        mtext, _ = render(marker_alone, ctx, False)
        sa, va = render(outer_a, ctx, param)
        if sm.startswith("EXC:") or mtext not in sm or sm.count(mtext) != 1:
            continue
        before = sm[:sm.index(mtext)]
        nbefore = len(PH.findall(before)) if param else 0
        if param and ctx.dialect.name != "POSTGRESQL":
            nbefore = before.count("?") + before.count("%s")
        itext, ivals = render(inner_alone, ctx, param, prefill=nbefore)
        if itext.startswith("EXC:") or itext == "":
            continue
        # the values after the inner query are renumbered too (numbered style): shift the marker text's later placeholders
        expected = sm.replace(mtext, itext)
        if param and ctx.dialect.name == "POSTGRESQL" and ivals:
            cut = len(before) + len(itext)
            tail = PH.sub(lambda m: "$%d" % (int(m.group(1)) + len(ivals)), expected[cut:])
            expected = expected[:cut] + tail
        REL_SEEN[0] += 1
        # parentheses where the position requires them: an operand with its own ORDER BY / LIMIT is parenthesised even where a plain one is not
        alt = None
        if "(" + mtext + ")" not in sm:
            alt = sm.replace(mtext, "(" + itext + ")")
            if param and ctx.dialect.name == "POSTGRESQL" and ivals:
                cut = len(before) + len(itext) + 2
                alt = alt[:cut] + PH.sub(lambda m: "$%d" % (int(m.group(1)) + len(ivals)), alt[cut:])
        # ... followed by its alias where the position defines one (judged on the outer text itself: a marker that loses its alias too would hide it)
        al = POS_ALIAS.get(pos_name)
        if al and itext in sa:
            aq = ctx.alias_quote_char or ctx.quote_char
            rest = sa[sa.index(itext) + len(itext):]
            if not (rest.startswith(") %s%s%s" % (aq, al, aq)) or rest.startswith(") AS %s%s%s" % (aq, al, aq))):
                REL_FAIL.append({"label": label, "class": QNAMES[qc], "position": pos_name + " (the alias the position defines)", "mode": "param" if param else "inline",
                                 "outer_sql": sa, "expected": "...(%s) %s%s%s..." % (itext[:80], aq, al, aq), "inner_standalone": itext})
        if al and itext in sa and sa[sa.index(itext) - 1:sa.index(itext)] != "(":
            REL_FAIL.append({"label": label, "class": QNAMES[qc], "position": pos_name + " (the parentheses the position requires)", "mode": "param" if param else "inline",
                             "outer_sql": sa, "expected": "...(%s)..." % itext[:80], "inner_standalone": itext})
        # ... and by NO alias where the position defines none (an operand of IN / a comparison)
        if POS_NO_ALIAS.get(pos_name) and itext in sa:
            aq = ctx.alias_quote_char or ctx.quote_char
            rest = sa[sa.index(itext) + len(itext):]
            own = POS_NO_ALIAS[pos_name]        # the alias the embedded query itself carries (what follows may be the alias of the enclosing criterion)
            if rest.startswith(") %s%s%s" % (aq, own, aq)) or rest.startswith(") AS %s%s%s" % (aq, own, aq)):
                REL_FAIL.append({"label": label, "class": QNAMES[qc], "position": pos_name + " (defines no alias)", "mode": "param" if param else "inline",
                                 "outer_sql": sa, "expected": "...(%s) <no alias>..." % itext[:80], "inner_standalone": itext})
        if expected != sa and alt != sa:
            REL_FAIL.append({"label": label, "class": QNAMES[qc], "position": pos_name, "mode": "param" if param else "inline",
                             "outer_sql": sa, "expected": expected, "inner_standalone": itext})
    return [(outer_a, [(QNAMES[qc], ctx, "inline"), (QNAMES[qc], ctx, "param")]), (mk_inner(), [(QNAMES[qc], ctx, "inline")])]


def cases(run, rng):
    del REL_FAIL[:]
    REL_SEEN[0] = 0
    for qc in QUERY_CLASSES:
        P_ = positions(qc)
        for k in range(12):
            for pn, pf in P_.items():
                corr = relational("hand:%d" % k, qc, lambda k=k, qc=qc: handmade_inner(qc, k), pn, pf)
                if corr:
                    yield {"label": "hand:%s" % pn, "corr": corr, "expr": "1", "known": None, "describe": {}}
    n = 120 if run.tier == "quick" else 2500
    for i in range(n):
        qc = QUERY_CLASSES[i % 6]
        seed = rng.randrange(1 << 30)

        def mk(seed=seed, qc=qc):
            g = genobj.G(random.Random(seed), special_values=False)
            r = g.r.random()
            return g.setop_query(qc) if r < 0.15 else g.select_query(qc, 2)
        try:
            mk()
        except Exception:
            continue
        P_ = positions(qc)
        pn = rng.choice(list(P_))
        corr = relational("random", qc, mk, pn, P_[pn])
        if corr:
            yield {"label": "random:%s" % pn, "corr": corr, "expr": "1", "known": None, "describe": {}}


class LazyViolations:
    def __iter__(self):
        return iter([("C10: a query embedded as %s under %s (%s) is not rendered as its stand-alone text: got %r, expected %r"
                      % (f["position"], f["class"], f["mode"], f["outer_sql"][:300], f["expected"][:300]), dict(f, kind="embedding")) for f in REL_FAIL])


def lazy_cov():
    return {"embeddings_compared": REL_SEEN[0], "embeddings_differing": len(REL_FAIL), "distinct_nontrivial": REL_SEEN[0]}


def check(run: core.Run):
    rng = random.Random(run.seed)
    stmtprop.run_statement_property(
        run, prop="C10", propfile="Props/C10.v", module="Props.C10", theorems=THEOREMS, header=HEADER, cases=cases(run, rng),
        what="the embedding statement", extra_violations=LazyViolations(), extra_cov=lazy_cov,
        rule="for each inner query (12 hand-made ones - data-modifying statements with RETURNING and row-locked selects included - with aliased terms in WHERE / GROUP BY / HAVING / ORDER BY / ON, nested, with CTE, with values in several "
             "clauses; random selects and set operations) x 16 embedding positions (IN criterion as a select item, select item under TOP, UPDATE .. FROM source, CTE body under a joining or two-source outer statement, FROM, JOIN, IN, IN under NOT in a mixed AND/OR group, comparison operand, select-list "
             "item, CTE body, set-operation operand and base, function argument) x 6 classes x {inline, parameterised}: the outer statement's text must equal the text "
             "of the same outer statement around a marker query, with the marker's stand-alone text replaced by the inner query's stand-alone text (placeholders renumbered by "
             "the values preceding the position). Exact string equality between implementation outputs, evaluated in the harness; the Coq case file carries the "
             "correspondence of Model.Render on every inner and outer statement.",
        assumptions=["the marker query SELECT \"zqm\" FROM \"zqt\" is embedded like any other query (its text occurs exactly once in the outer text)"])


def replay(run, path):
    return stmtprop.generic_replay(run, path)

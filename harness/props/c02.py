"""C02 — rendering is a pure, repeatable, process-independent function.

proof:  Props/C02.v (C02_renders_pure by computation over Gen/Effects.v; C02_render_frame; determinism of the model)
tie:    tools/gen_effects.py + correspondence on render HISTORIES: each generated object is rendered k times,
        interleaved over the six contexts x {inline, parameterised}; every output must equal the model's single
        value for that context, and a structural digest of the object graph must not change
search: the same, plus two runtime probes no model can exhibit: subprocesses under different PYTHONHASHSEED, and
        concurrent renders of shared objects from a thread pool  (PARTIAL claim for these two)
"""
from __future__ import annotations

import concurrent.futures as cf
import hashlib
import os
import random
import subprocess
import sys

import core
import corr
import genobj
import builders as B

LEVEL = "proof"
THEOREMS = ["C02_renders_pure", "C02_render_frame", "C02_render_deterministic", "C02_nonvacuous"]


def digest(o, seen=None, depth=0):
    """Structural digest of the object graph reachable through __dict__, lists, tuples, sets, dicts."""
    seen = seen if seen is not None else {}
    if id(o) in seen:
        return "@%d" % seen[id(o)]
    if isinstance(o, (str, int, float, bool, type(None), bytes)) or depth > 40:
        return repr(o)
    seen[id(o)] = len(seen)
    if isinstance(o, (list, tuple)):
        return type(o).__name__ + "[" + ",".join(digest(x, seen, depth + 1) for x in o) + "]"
    if isinstance(o, (set, frozenset)):
        return "set{" + ",".join(sorted(digest(x, dict(seen), depth + 1) for x in o)) + "}"
    if isinstance(o, dict):
        return "dict{" + ",".join("%s:%s" % (digest(k, seen, depth + 1), digest(v, seen, depth + 1)) for k, v in o.items()) + "}"
    d = getattr(o, "__dict__", None)
    if d is None:
        return type(o).__name__
    return type(o).__name__ + "{" + ",".join("%s=%s" % (k, digest(v, seen, depth + 1)) for k, v in sorted(d.items())) + "}"


def special_objects():
    """Objects for the clauses that randomly generated statements reach rarely."""
    P, T_, fn, an = B.P, B.T_, B.fn, B.an
    out = []
    for qc in B.QUERY_CLASSES:
        t, u = T_("t"), T_("u")
        out.append(qc.update(t).join(u).on(t.a == u.a).set(t.b, u.b).where(u.c == 1))
        out.append(qc.from_(t).select(t.a).for_update(of=("t", "u", "v", "w")))
        out.append(qc.from_(t).select(fn.Sum(t.a).filter(t.b == 1, t.c == "x", t.d > 2)).where(t.e.isin([1, 2, 3])))
        out.append(qc.with_(qc.from_(u).select(u.a).where(u.b == "v"), "c1").from_(P.AliasedQuery("c1")).select("*").where(t.z == 5))
        out.append(qc.from_(t).select("*", t.star, t.a).distinct().groupby(t.a).having(fn.Count("*") > 1).limit(5).offset(1))
        out.append(qc.into(t).columns("a").insert(1).insert(2))
        out.append(qc.from_(t).select(t.a).union(qc.from_(u).select(u.a)).orderby("a").limit(3))
        # objects that went through replace_table (every clause container is rebuilt by it)
        n = T_("n", alias="nn")
        out.append(qc.from_(t).join(u).using("id", "kind").select(t.a, u.b).replace_table(t, n))
        out.append(qc.from_(t).join(u).on(t.a == u.a).select(t.a, fn.Sum(u.b)).where(t.c.isin([1, 2])).groupby(t.a).having(fn.Sum(u.b) > 1)
                   .orderby(t.a).replace_table(u, n))
        out.append(qc.update(t).set(t.b, t.b + 1).where(t.c == 1).replace_table(t, n))
        out.append(qc.into(t).columns("a", "b").insert(1, t.x).insert(2, 3).replace_table(t, n))
        out.append((t.a.between(t.b, u.c) & fn.Coalesce(t.d, u.e).isin([t.f, 1])).replace_table(t, n))
    # every kind of constant at the positions where a builder uses its own wrapper class (select list, SET) and a plain one (criteria, rows)
    import datetime, decimal, uuid
    tz = datetime.timezone(datetime.timedelta(hours=2))
    consts = ["s'q\\", 7, -2.5, decimal.Decimal("1.10"), True, None, datetime.date(2020, 1, 2), datetime.datetime(2020, 1, 2, 3, 4, 5, tzinfo=tz),
              datetime.time(9, 30, tzinfo=tz), datetime.time(1, 2, 3), uuid.UUID("12345678-1234-5678-1234-567812345678"), {"k": ["v", 1]}, [1, "two"],
              B.P.enums.Order.asc]
    for qc in B.QUERY_CLASSES:
        t = T_("t")
        for v in consts:
            try:
                out.append(qc.update(t).set(t.a, v).where(t.b == v))
                out.append(qc.from_(t).select(v, t.a).where(t.c.isin([v, v])))
                out.append(qc.into(t).insert(v, 1))
            except Exception:
                pass
    out.append(B.MySQLQuery.from_(T_("t")).select("a").distinct().modifier("SQL_CALC_FOUND_ROWS"))
    out.append(B.PostgreSQLQuery.from_(T_("t")).select("a").distinct_on("a", "b"))
    out.append(B.PostgreSQLQuery.into(T_("t")).insert(1, "x").on_conflict("a").do_update("b", "y").returning("*"))
    out.append(B.MSSQLQuery.from_(T_("t")).select("a").top(3).limit(2))
    out.append(P.Query.create_table("x").columns("a", ("b", "INT")).unique("a", "b").primary_key("a"))
    # the same name given more than once (a tempting place for set-based de-duplication, whose order follows the hash seed)
    out.append(P.Query.create_table("x").columns("alpha", "beta", "gamma", "delta").unique("alpha", "beta", "gamma", "delta", "alpha")
               .unique("delta", "delta", "beta").primary_key("gamma", "alpha", "beta", "gamma"))
    out.append(P.Query.create_table("x").columns(("k1", "INT"), ("k2", "INT"), ("k1", "INT")).period_for("p", "k1", "k2").period_for("p", "k2", "k1"))
    for qc in B.QUERY_CLASSES:
        t, u = T_("t"), T_("u")
        out.append(qc.from_(t).select(t.a, t.b, t.c, t.a, "b").groupby(t.c, t.a, t.b, t.c).orderby(t.b, t.a, t.b).for_update(of=("w", "t", "v", "w", "t")))
        out.append(qc.from_(t).join(u).using("id", "kind", "zone", "id").select("*").force_index("i3", "i1", "i2", "i3").use_index("j2", "j1", "j2"))
        out.append(qc.into(t).columns("c", "a", "b", "c").insert(1, 2, 3, 4))
        out.append(qc.from_(t).select(t.a).where(t.a.isin(["z", "y", "x", "z", "y"])).where(t.b.isin([3, 1, 2, 3])))
    out.append(an.Rank().over(T_("t").a).orderby(T_("t").b))
    out.append(P.Case().when(T_("t").a == 1, "x").when(T_("t").a == 2, "y").else_("z"))
    return out


PROBE = r'''
import sys, random, hashlib
sys.path.insert(0, sys.argv[1])
import genobj, corr
from props import c02
rng = random.Random(int(sys.argv[2]))
g = genobj.G(rng)
objs = c02.special_objects()
for i in range(int(sys.argv[3])):
    try:
        objs.append(g.statement())
    except Exception:
        objs.append(None)
for i, o in enumerate(objs):
    if o is None:
        print(i, "GENFAIL"); continue
    outs = []
    for name, base in corr.BASE_CTXS:
        for mode in ("inline", "param"):
            outs.append(repr(corr.impl_render(o, base, mode)))
    print(i, hashlib.sha1("\n".join(outs).encode()).hexdigest(), outs[0][:150].replace("\n", " "))
'''


class _Hook:
    """an inlined value whose text is produced by str(): the suspension point"""

    def __init__(self):
        self.fn = None

    def __str__(self):
        if self.fn is not None:
            f, self.fn = self.fn, None
            f()
        return "7"


def interleaving_probe():
    import pypika_tortoise as P
    from pypika_tortoise import terms as T, functions as fn
    out = []
    entries = [("get_parameterized_sql()", lambda q: q.get_parameterized_sql()), ("str()", lambda q: str(q)), ("get_sql()", lambda q: q.get_sql()),
               ("get_parameterized_sql(ctx)", lambda q: q.get_parameterized_sql(q.QUERY_CLS.SQL_CONTEXT))]

    def shapes(qc, hv):
        t, u = P.Table("t"), P.Table("u")
        sub = qc.from_(u).select(u.a, hv).where(u.b == 3)          # the suspension point inside a FROM / JOIN sub-query
        return [lambda: qc.from_(t).select(t.a, T.ValueWrapper(5)).where(t.a == 1).where(t.b == hv).where(t.c == "x").limit(3),
                lambda: qc.update(t).join(sub).on(t.a == sub.a).set(t.b, 2).where(t.c == "x"),
                lambda: qc.update(t).from_(sub).set(t.b, hv).where(t.c == 4),
                lambda: qc.update(t).from_(sub).join(u).on(t.a == u.a).set(t.b, u.b).where(t.c == 4),      # UPDATE .. FROM .. JOIN: the dialects' own get_sql
                lambda: qc.from_(sub).join(u).on(sub.a == u.a).select(sub.a, 7).groupby(sub.a).having(fn.Count("*") > 1).orderby(sub.a).limit(2),
                lambda: qc.into(t).columns("a", "b").insert(1, hv).insert(2, "y")]

    for qc in genobj.QUERY_CLASSES:
        for ename, entry in entries:
            for iname, inner in entries:
                for shape in range(6):
                    h = _Hook()
                    try:
                        q = shapes(qc, T.ValueWrapper(h, allow_parametrize=False))[shape]()
                        str(q)
                    except Exception:
                        continue
                    t = P.Table("t")
                    other = qc.from_(t).select(t.z).where(t.z == 9)
                    try:
                        base, base_inner, base_other = entry(q), inner(q), inner(other)
                        for target, expect in ((q, base_inner), (other, base_other)):
                            got = []
                            h.fn = lambda target=target: got.append(inner(target))
                            outer = entry(q)
                            if not got:
                                continue            # (the value is not rendered in this shape under this class)
                            if repr(outer) != repr(base) or repr(got[0]) != repr(expect):
                                out.append({"kind": "interleaving", "class": genobj.QNAMES[qc], "suspended_render": ename, "completed_render": iname,
                                            "statement_shape": shape,
                                            "what": "a render that runs while another render is suspended changes a result (process-wide or per-object state)",
                                            "suspended_alone": repr(base)[:300], "suspended_interleaved": repr(outer)[:300],
                                            "completed_alone": repr(expect)[:300], "completed_interleaved": repr(got[0])[:300]})
                                return out
                    except Exception as e:  # noqa
                        out.append({"kind": "interleaving", "what": "probe raised %s: %s" % (type(e).__name__, str(e)[:200])})
                        return out
    return out


def hashseed_probe(run, n, seeds):
    outs = {}
    for hs in seeds:
        env = core.env_for_impl(str(hs))
        env["PYTHONPATH"] = core.REPO + ":" + os.path.join(core.ROOT, "harness")
        p = subprocess.run([core.PY, "-c", PROBE, os.path.join(core.ROOT, "harness"), str(run.seed), str(n)],
                           env=env, stdout=subprocess.PIPE, stderr=subprocess.PIPE, text=True, timeout=900)
        if p.returncode != 0:
            return None, "probe failed under PYTHONHASHSEED=%s: %s" % (hs, p.stderr[-400:])
        outs[hs] = p.stdout.splitlines()
    ref = outs[seeds[0]]
    diffs = []
    for hs in seeds[1:]:
        for a, b in zip(ref, outs[hs]):
            if a.split(" ")[:2] != b.split(" ")[:2]:
                diffs.append({"object_index": a.split(" ")[0], "seed_a": seeds[0], "seed_b": hs, "render_a": a[:260], "render_b": b[:260]})
    return diffs, None


def check(run: core.Run):
    rng = random.Random(run.seed)
    proofs_ok = core.proof_stage(run, "Props/C02.v", "Props.C02", THEOREMS, extra_targets=["Base/Codes.v"])
    g = genobj.G(rng)
    nobj = 250 if run.tier == "quick" else 2500
    objs = special_objects()
    for _ in range(nobj):
        try:
            objs.append(g.statement() if rng.random() < 0.7 else g.term(3, 0.3))
        except Exception:
            pass
    C = corr.Corr(run, "c02")
    findings = []
    nrenders = 0
    K = 3
    for oi, o in enumerate(objs):
        d0 = digest(o)
        seq = [(name, base, mode) for name, base in corr.BASE_CTXS for mode in ("inline", "param")] * K
        rng.shuffle(seq)
        first = {}
        for name, base, mode in seq:
            r = corr.impl_render(o, base, mode)
            nrenders += 1
            key = (name, mode)
            if key in first and first[key] != r:
                findings.append({"kind": "repeat", "object": type(o).__name__, "context": name, "mode": mode,
                                 "first": repr(first[key])[:400], "later": repr(r)[:400], "builder_repr": _safe_str(o)[:300]})
                break
            first.setdefault(key, r)
            # equality, hashing and comparison must not write either
        try:
            hash(o); o == o; str(o); repr(o)
        except Exception:
            pass
        if digest(o) != d0:
            findings.append({"kind": "mutation", "object": type(o).__name__, "what": "object graph digest changed by rendering/hash/eq",
                             "builder_repr": _safe_str(o)[:300]})
        # the model gives ONE value per context: compare after the whole history
        C.add(o, [(name, base, mode) for name, base in corr.BASE_CTXS[:3] for mode in ("inline", "param")])
    agree, errors = C.evaluate()
    mism = [i for i, a in enumerate(agree) if a is False]
    # threads
    shared = objs[:40]
    seq_out = [[repr(corr.impl_render(o, base, mode)) for name, base in corr.BASE_CTXS for mode in ("inline", "param")] for o in shared]

    def work(i):
        o = shared[i % len(shared)]
        return i % len(shared), [repr(corr.impl_render(o, base, mode)) for name, base in corr.BASE_CTXS for mode in ("inline", "param")]
    with cf.ThreadPoolExecutor(max_workers=8) as ex:
        for i, out in ex.map(work, range(len(shared) * (8 if run.tier == "quick" else 40))):
            if out != seq_out[i]:
                findings.append({"kind": "threads", "object": type(shared[i]).__name__, "what": "concurrent render differs from sequential render"})
                break
    # deterministic interleaving: a render B runs to completion while a render A of the same shared object is suspended (inside str() of an
    # inlined value) - one of the schedules two threads can produce; every public entry point, no caller-supplied parameterizer
    for f in interleaving_probe():
        findings.append(f)
    # hash seeds
    diffs, err = hashseed_probe(run, 120 if run.tier == "quick" else 1200, [0, 1, 2, 3] if run.tier == "quick" else [0, 1, 2, 3, 4, 5, 6, 7])
    if err:
        findings.append({"kind": "probe-error", "what": err})
    for d in (diffs or [])[:3]:
        findings.append(dict(d, kind="hashseed", what="rendering differs between PYTHONHASHSEED values"))

    for f in findings[:4]:
        run.violation("render is not pure/repeatable: %s" % (f.get("what") or f["kind"]), f)
    if not findings:
        if mism:
            i = mism[0]
            run.violation("correspondence model/implementation broken after a render history (%d cases); no impurity found" % len(mism),
                          {"correspondence": "Model.Render.render", "impl": C.cases[i][4], "model": C.debug_case(i), "context": C.cases[i][1]},
                          found_input=False)
        elif errors:
            run.violation("correspondence could not be evaluated: %s" % errors[0], {"errors": errors[:3]}, found_input=False)
        elif not proofs_ok:
            run.violation("proof obligation broken: %s" % "; ".join(run.broken),
                          {"broken": run.broken, "theorems": THEOREMS, "file": "coq/Props/C02.v"}, found_input=False)
    run.cov.update({
        "evaluations": nrenders, "distinct_nontrivial": len({_safe_str(o) for o in objs if not isinstance(o, str)}),
        "rule": "%d objects (targeted statements for every dialect class + random statements/terms), each rendered %d times in each of 6 contexts x "
                "{inline, parameterised} in a PRNG-shuffled interleaving, with hash()/==/str()/repr() in between; object-graph digest before/after; "
                "model value compared per context (%d cases); 8-thread concurrent renders of 40 shared objects; the same program under %s hash seeds. "
                "Non-trivial = distinct rendered objects." % (len(objs), K, len(C.cases), "4" if run.tier == "quick" else "8"),
        "samples": [{"object": _safe_str(objs[i])[:200]} for i in (0, 7, len(objs) - 1)],
        "exhaustive": False, "programs": len(objs), "disagreements_checked": len(mism),
        "model_cases": len(C.cases), "model_agree": sum(1 for a in agree if a), "unmodelled": C.unmodelled,
    })
    run.assumptions += ["thread scheduling and separate interpreter processes are exercised, not modelled (partial claim)",
                        "tools/gen_effects.py names every store/mutation form used by render methods"]


def _safe_str(o):
    try:
        return str(o)
    except Exception as e:  # noqa
        return "<%s: %s>" % (type(o).__name__, type(e).__name__)


def replay(run, path):
    import json
    print(json.dumps(json.load(open(path))["replay"], indent=1)[:3000])
    import shutil
    shutil.rmtree(run.workdir, ignore_errors=True)
    return 0

"""C18 — interval literals encode exactly the requested duration.

proof:   Props/C18.v  (C18_main: read_interval d (interval_sql d a) = Some (denote a) for all valid a, all d)
tie:     Gen/Interval.v (labels, templates, trim pattern: pattern_pinned) + correspondence
         model interval_sql == str(Interval(...)) and model trim == re.sub(pattern) on generated strings
P_check: read_interval d <implementation output> = Some (denote args), evaluated in Coq
"""
from __future__ import annotations

import itertools
import random

import core
from coqemit import cstr, cZ

LEVEL = "proof"
THEOREMS = ["C18_main", "C18_no_component_lost", "C18_pattern_pinned", "C18_trim_is_field_selection", "C18_nonvacuous"]
DIALS = ["VERTICA", "CLICKHOUSE", "ORACLE", "MSSQL", "MYSQL", "POSTGRESQL", "REDSHIFT", "SQLITE", "SNOWFLAKE"]
VALUES = [0, 1, 7, 10, 20, 100, 101, 110, 1000000]
KEYS = ["years", "months", "days", "hours", "minutes", "seconds", "microseconds", "quarters", "weeks"]


def impl_interval(args, dial):
    from pypika_tortoise import Interval
    from pypika_tortoise.context import DEFAULT_SQL_CONTEXT
    from pypika_tortoise.enums import Dialects
    try:
        iv = Interval(**dict(zip(KEYS, args)))
        return iv.get_sql(DEFAULT_SQL_CONTEXT.copy(dialect=Dialects[dial]))
    except Exception as e:  # noqa
        return "EXC:" + type(e).__name__


def impl_trim(s):
    from pypika_tortoise import Interval
    return Interval.trim_pattern.sub("", s)


def valid(args):
    comps, q, w = args[:7], args[7], args[8]
    if q != 0:
        return all(c == 0 for c in comps) and w == 0
    if w != 0:
        return all(c == 0 for c in comps)
    seen = False
    for c in comps:
        if seen and c < 0:
            return False
        if c != 0:
            seen = True
    return True


def gen_cases(rng, tier):
    cases = []
    maxnz = 2 if tier == "quick" else 3
    k = 0
    # exhaustive: 7-tuples over VALUES with at most maxnz non-zero components
    for nz in range(0, maxnz + 1):
        for pos in itertools.combinations(range(7), nz):
            for vals in itertools.product(VALUES[1:], repeat=nz):
                a = [0] * 9
                for p, v in zip(pos, vals):
                    a[p] = v
                cases.append((tuple(a), DIALS[k % 9]))
                k += 1
    exhaustive_n = len(cases)
    # negative leading component, quarters, weeks
    for p in range(7):
        for v in (-1, -10, -105):
            for rest in ((), (3,), (0, 40)):
                a = [0] * 9
                a[p] = v
                for i, r in enumerate(rest):
                    if p + 1 + i < 7:
                        a[p + 1 + i] = r
                cases.append((tuple(a), DIALS[k % 9])); k += 1
    for v in (1, -1, 4, 10, -12, 100):
        cases.append(((0,) * 7 + (v, 0), DIALS[k % 9])); k += 1
        cases.append(((0,) * 7 + (0, v), DIALS[k % 9])); k += 1
    # random digit patterns
    nrand = 2500 if tier == "quick" else 60000

    def rv():
        r = rng.random()
        if r < 0.35:
            return 0
        if r < 0.6:
            return rng.randint(1, 99)
        if r < 0.8:
            return int(rng.choice("123456789") + "".join(rng.choice("0000123456789") for _ in range(rng.randint(0, 7))))
        return 10 ** rng.randint(1, 9) * rng.randint(1, 9)
    for _ in range(nrand):
        a = [rv() for _ in range(7)] + [0, 0]
        if rng.random() < 0.2:
            for i in range(7):
                if a[i]:
                    a[i] = -a[i]
                    break
        cases.append((tuple(a), rng.choice(DIALS)))
    # a small malformed stream (outside `valid`): negative non-leading components, quarters with others
    for _ in range(60):
        a = [rng.choice([0, 1, -2, 30]) for _ in range(9)]
        cases.append((tuple(a), rng.choice(DIALS)))
    return cases, exhaustive_n


def gen_trim_strings(rng, n):
    alpha = "0000123459-.: "
    out = set()
    # every string of length <= 4 over a reduced alphabet is cheap and catches anchoring mistakes
    for ln in range(0, 5):
        for t in itertools.product("01-.: ", repeat=ln):
            out.add("".join(t))
    while len(out) < n:
        out.add("".join(rng.choice(alpha) for _ in range(rng.randint(1, 18))))
    return sorted(out)


HEAD = "From PT Require Import Base.Str Base.Codes Model.Types Model.Interval Ref.IntervalRead.\nOpen Scope N_scope.\n"


def coq_args(a):
    return "(MkIArgs %s)" % " ".join(cZ(x) for x in a)


def shard_text(cases_with_out):
    lines = [HEAD,
             "Definition ival_eqb (a b : ival) : bool := match a, b with IV n1 f1, IV n2 f2 => Bool.eqb n1 n2 && (Nat.eqb (length f1) (length f2)) && forallb (fun p => Nat.eqb (fst (fst p)) (fst (snd p)) && N.eqb (snd (fst p)) (snd (snd p))) (combine f1 f2) end.",
             "Definition judge (c : dial * iargs * str) : N := let '(d, a, out) := c in",
             "  let inside := valid (comps a) (a_quarters a) (a_weeks a) in",
             "  verdict (seqb (interval_sql d a) out)",
             "          (match read_interval d out with Some iv => ival_eqb iv (denote (comps a) (a_quarters a) (a_weeks a)) | None => false end) inside.",
             "Definition cases : list (dial * iargs * str) := ["]
    lines.append(";\n".join("(%s, %s, %s)" % (d, coq_args(a), cstr(out)) for (a, d), out in cases_with_out))
    lines.append('].\nGoal True. idtac "@@CODES". Abort.\nEval vm_compute in (codes (map judge cases)).\n')
    return "\n".join(lines)


def trim_shard_text(pairs):
    lines = [HEAD, "Definition cases : list (str * str) := ["]
    lines.append(";\n".join("(%s, %s)" % (cstr(a), cstr(b)) for a, b in pairs))
    lines.append('].\nGoal True. idtac "@@CODES". Abort.\nEval vm_compute in (codes (map (fun c => b2n (seqb (trim (fst c)) (snd c))) cases)).\n')
    return "\n".join(lines)


def position_sweep(rng):
    import pypika_tortoise as P
    from pypika_tortoise import functions as fn, terms as T, Interval
    from genobj import QUERY_CLASSES, QNAMES
    fails, n = [], 0
    samples = [dict(days=1, hours=2), dict(years=1, months=3), dict(hours=5), dict(minutes=7, seconds=30), dict(days=2, microseconds=500), dict(quarters=2),
               dict(weeks=3), dict(seconds=-4)]
    t, u = P.Table("t"), P.Table("u")
    positions = {
        "function-arg": lambda qc, iv: qc.from_(t).select(T.Function("DATE_ADD", t.dt, iv)),
        "function-arg-first": lambda qc, iv: qc.from_(t).select(fn.Coalesce(iv, t.dt)),
        "nested-function-arg": lambda qc, iv: qc.from_(t).select(fn.Coalesce(T.Function("DATE_SUB", t.dt, iv), t.x)),
        "arith-right": lambda qc, iv: qc.from_(t).select(t.dt + iv),
        "arith-in-function": lambda qc, iv: qc.from_(t).select(fn.Max(t.dt - iv)),
        "criterion": lambda qc, iv: qc.from_(t).select(t.a).where(t.dt > T.Function("NOW") - iv),
        "aggregate-arg": lambda qc, iv: qc.from_(t).select(fn.Sum(iv)),
        "in-subquery": lambda qc, iv: qc.from_(t).select(t.a).where(t.a.isin(qc.from_(u).select(u.a).where(u.dt < u.x + iv))),
        "set-operand": lambda qc, iv: qc.from_(t).select(t.dt + iv).union(qc.from_(u).select(T.Function("F", iv))),
        "update-set": lambda qc, iv: qc.update(t).set(t.dt, t.dt + iv).where(t.id == 1),
        "case-branch": lambda qc, iv: qc.from_(t).select(P.Case().when(t.a == 1, t.dt + iv).else_(T.Function("G", t.dt, iv))),
        "analytic-arg": lambda qc, iv: qc.from_(t).select(T.AnalyticFunction("LAG", t.dt - iv).over(t.a)) if hasattr(T, "AnalyticFunction") else None,
    }
    for qc in QUERY_CLASSES:
        for kw in samples:
            lit = Interval(**kw).get_sql(qc.SQL_CONTEXT)
            for pname, f in positions.items():
                try:
                    q = f(qc, Interval(**kw))
                    if q is None:
                        continue
                    sql = q.get_sql(qc.SQL_CONTEXT)
                except Exception:
                    continue
                n += 1
                if sql.count("INTERVAL") == 0 or sql.count(lit) != sql.count("INTERVAL"):
                    fails.append({"kind": "interval-in-statement", "class": QNAMES[qc], "position": pname, "args": kw, "literal": lit, "sql": sql})
    return fails, n


def check(run: core.Run):
    rng = random.Random(run.seed)
    proofs_ok = core.proof_stage(run, "Props/C18.v", "Props.C18", THEOREMS, extra_targets=["Model/Interval.v", "Ref/IntervalRead.v", "Base/Codes.v"])
    model_built, _ = core.build(["Model/Interval.vo", "Ref/IntervalRead.vo", "Base/Codes.vo"])

    cases, exhaustive_n = gen_cases(rng, run.tier)
    outs = [impl_interval(a, d) for a, d in cases]
    cw = list(zip(cases, outs))
    SH = 1500
    shards = [("c18_%03d" % i, shard_text(cw[i * SH:(i + 1) * SH])) for i in range((len(cw) + SH - 1) // SH)]
    tstrs = gen_trim_strings(rng, 3000 if run.tier == "quick" else 30000)
    tpairs = [(s, impl_trim(s)) for s in tstrs]
    shards += [("c18_trim_%03d" % i, trim_shard_text(tpairs[i * 3000:(i + 1) * 3000])) for i in range((len(tpairs) + 2999) // 3000)]

    n_agree = n_pc = n_inside = 0
    mismatches, pfails = [], []
    corr_broken = []
    if model_built:
        res = core.run_shards(run.workdir, shards)
        for name, _ in shards:
            rc, out = res[name]
            codes = core.parse_codes(out) if rc == 0 else None
            if name.startswith("c18_trim"):
                i = int(name[-3:])
                chunk = tpairs[i * 3000:(i + 1) * 3000]
                if codes is None or len(codes) != len(chunk):
                    corr_broken.append("%s: coqc rc=%s %s" % (name, rc, out[-300:]))
                    continue
                for (s, o), c in zip(chunk, codes):
                    if c != "1":
                        mismatches.append({"kind": "trim", "input": s, "impl": o})
                continue
            i = int(name[-3:])
            chunk = cw[i * SH:(i + 1) * SH]
            if codes is None or len(codes) != len(chunk):
                corr_broken.append("%s: coqc rc=%s %s" % (name, rc, out[-300:]))
                continue
            for ((a, d), o), c in zip(chunk, codes):
                v = int(c)
                agree, pc, inside = v & 1, v & 2, v & 4
                n_agree += bool(agree)
                n_inside += bool(inside)
                if inside:
                    n_pc += bool(pc)
                    if not pc:
                        pfails.append({"kind": "interval", "args": dict(zip(KEYS, a)), "dialect": d, "impl": o})
                if not agree:
                    mismatches.append({"kind": "interval", "args": dict(zip(KEYS, a)), "dialect": d, "impl": o})
    else:
        corr_broken.append("model files do not build")

    # ---- the literal inside statements: wherever an Interval stands in a statement of a query class, the text written there is the literal
    #      Interval.get_sql gives for that class's dialect (whose reading the cases above check in Coq)
    pos_fail, n_pos = position_sweep(rng)
    for pf in pos_fail[:3]:
        run.violation("an interval inside a statement is not written in the statement's dialect form: %s under %s: expected the literal %r in %r"
                      % (pf["position"], pf["class"], pf["literal"], pf["sql"][:300]), pf)
    # ---- verdict
    for pf in pfails[:5]:
        run.violation("rendered interval does not denote its arguments: Interval(%s) under %s -> %r" %
                      (pf["args"], pf["dialect"], pf["impl"]), pf)
    if not pfails:
        if mismatches:
            # correspondence broken and P_check finds nothing wrong: still a violation (property no longer shown)
            m = mismatches[0]
            run.violation("correspondence model/implementation broken (%d cases), e.g. %r; P_check found no failing input" %
                          (len(mismatches), m), {"correspondence": "Model.Interval.interval_sql / trim vs implementation", "examples": mismatches[:5]},
                          found_input=False)
        elif corr_broken:
            run.violation("correspondence could not be evaluated: %s" % corr_broken[0],
                          {"correspondence": corr_broken}, found_input=False)
        elif not proofs_ok:
            run.violation("proof obligation broken: %s" % "; ".join(run.broken),
                          {"broken": run.broken, "theorems": THEOREMS, "file": "coq/Props/C18.v"}, found_input=False)

    distinct = len({(a, d) for a, d in cases if sum(1 for x in a if x) >= 2})
    run.cov.update({
        "evaluations": len(cases) + len(tpairs),
        "distinct_nontrivial": distinct,
        "rule": "cases = (9 constructor arguments, dialect): every 7-tuple over %r with <= %d non-zero components (exhaustive, %d tuples), "
                "negative leading components, quarters, weeks, %d random tuples with arbitrary digit patterns, 60 malformed; plus %d strings "
                "over '0-9-.: ' (all of length <= 4 over '01-.: ') for trim vs re.sub. Non-trivial = at least two non-zero components (distinct (args, dialect))."
                % (VALUES, 2 if run.tier == "quick" else 3, exhaustive_n, len(cases) - exhaustive_n, len(tpairs)),
        "samples": [{"args": dict(zip(KEYS, a)), "dialect": d, "impl": o} for (a, d), o in (cw[5], cw[200], cw[-100], cw[-1])] + [{"trim_input": tpairs[-1][0], "re.sub": tpairs[-1][1]}],
        "exhaustive": False,
        "exhaustive_part": "all 7-tuples over the value set with <= %d non-zero components" % (2 if run.tier == "quick" else 3),
        "agree_model_impl": n_agree, "inside_hypotheses": n_inside, "pcheck_true_inside": n_pc,
        "trim_strings": len(tpairs), "mismatches": len(mismatches),
        "programs": len(cases), "disagreements_checked": len(mismatches), "interval_positions_in_statements": n_pos,
    })
    run.assumptions += [
        "re.sub on the pinned pattern behaves as Model.Interval.trim (checked on %d strings this run)" % len(tpairs),
        "str(int) is decimal (Base.Str.N_to_str)",
        "Ref/IntervalRead.v is the meaning of 'read according to its unit designator'",
        "inputs: integer components; quarters/weeks alone; non-leading components non-negative (Ref.IntervalRead.valid)",
    ]


def replay(run, path):
    import json
    r = json.load(open(path))["replay"]
    if r.get("kind") == "interval":
        a = tuple(r["args"][k] for k in KEYS)
        out = impl_interval(a, r["dialect"])
        print("implementation:", out)
        rc, o = core.coqc_text(run.workdir, "replay", shard_text([((a, r["dialect"]), out)]))
        print("verdict code (1=model agrees, 2=P_check, 4=inside hypotheses):", core.parse_codes(o))
    elif r.get("kind") == "trim":
        out = impl_trim(r["input"])
        print("re.sub:", repr(out))
        rc, o = core.coqc_text(run.workdir, "replay", trim_shard_text([(r["input"], out)]))
        print("model agrees:", core.parse_codes(o))
    else:
        print(json.dumps(r, indent=1))
    import shutil
    shutil.rmtree(run.workdir, ignore_errors=True)
    return 0

"""C16 — replace_table replaces every reference and nothing else.

proof:   Props/C16.v (replace_complete by computation on Gen/Children.v: for every live class, every attribute through which a column or table
         reference is reachable is rewritten by the class's replace_table)
tie:     tools/gen_children.py re-run on every check (reflection + ast, fail-closed) + correspondence of Model.Render on the replaced objects
P_check: relational, on implementation outputs only: render_ns(build(old).replace_table(old, new)) == render_ns(build(new)); the receiver renders
         as before; references to a third table are untouched (they are equal in both builds)
search:  every live Term subclass x 32 operand slots x table pairs (plain, aliased, schema-qualified, None); statements of every kind and class
         with every clause slot populated, CTEs, nested sub-queries, set operations
"""
from __future__ import annotations

import random

import core
import stmtprop
import termzoo
from genobj import QUERY_CLASSES, QNAMES
import pypika_tortoise as P
from pypika_tortoise import functions as fn, analytics as an, terms as T
from pypika_tortoise.dialects import MSSQLQuery, MySQLQuery, OracleQuery, PostgreSQLQuery, SQLLiteQuery
from props.c12 import operand_slots
from dump import Dumper

LEVEL = "proof"
THEOREMS = ["C16_replace_complete", "C16_every_class_constructible", "C16_nonvacuous", "C16_nothing_else", "C16_every_reference", "C16_idempotent",
            "C16_statements", "C16_spec_nonvacuous"]
HEADER = "From PT Require Import Base.Str Base.Codes.\nOpen Scope N_scope.\n"
FAIL, SEEN = [], [0]
REP_CAP = [10]


def ns(ctx):
    return ctx.copy(with_namespace=True)


def sql(x, ctx):
    try:
        s = x.get_sql(ctx)
        return s if isinstance(s, str) else "EXC:nonstr"
    except Exception as e:  # noqa
        return "EXC:" + type(e).__name__


def table_pairs():
    return [("plain", lambda: P.Table("old"), lambda: P.Table("new")),
            ("aliased-new", lambda: P.Table("old"), lambda: P.Table("new", alias="nw")),
            ("aliased-old", lambda: P.Table("old", alias="ol"), lambda: P.Table("new")),
            ("schema", lambda: P.Table("old", schema="s1"), lambda: P.Table("new", schema=["db", "s2"])),
            # pairs that are == as tables (name, schema, alias) but are written differently: a table and its temporal form
            ("temporal-new", lambda: P.Table("old"), lambda: P.Table("old").for_(P.SYSTEM_TIME.as_of("2020-01-01"))),
            ("temporal-old", lambda: P.Table("old").for_(P.SYSTEM_TIME.as_of("2020-01-01")), lambda: P.Table("old")),
            ("same-name-other-schema", lambda: P.Table("old"), lambda: P.Table("old", schema="s9"))]


def compare(label, build, mk_old, mk_new, ctx, corr, mk_third=lambda: P.Table("third")):
    """build(table, third) -> object"""
    third = mk_third()
    old, new = mk_old(), mk_new()
    try:
        a = build(old, third)
        before = sql(a, ns(ctx))
        r = a.replace_table(mk_old(), new)        # an EQUAL table object, not the identical one
        got = sql(r, ns(ctx))
        after = sql(a, ns(ctx))
        exp = sql(build(new, third), ns(ctx))
    except Exception as e:  # noqa
        if type(e).__name__ in ("TypeError", "AttributeError"):
            SEEN[0] += 1
            FAIL.append({"label": label, "kind": "raises", "exception": type(e).__name__ + ": " + str(e)[:200]})
        return
    if before.startswith("EXC") and exp.startswith("EXC"):
        return
    SEEN[0] += 1
    if got != exp:
        FAIL.append({"label": label, "kind": "reference-left-or-wrong", "got": got, "expected": exp})
    elif before != after:
        FAIL.append({"label": label, "kind": "receiver-changed", "before": before, "after": after})
    elif corr is not None:
        if sum(1 for e in corr if len(e) == 2) < 4:
            corr.append((r, [("Query", ns(ctx), "inline")]))
        # the tie of the SPECIFICATION (Ref.Replace.rep: one structural map over the object language) to the 29 replace_table methods: the tree of the
        # receiver, mapped by rep old new IN COQ, must render as the implementation renders the object replace_table returned
        if (isinstance(old, P.Table) and isinstance(new, P.Table) and new._for is None and new._for_portion is None
                and sum(1 for e in corr if len(e) == 4) < REP_CAP[0]):
            d = Dumper()
            try:
                o_txt, n_txt = d.tref(old), d.tref(new)
            except Exception:  # noqa
                return
            corr.append((r, [("Query", ns(ctx), "inline"), ("Query", ctx, "param")], a,
                         (lambda text, o_txt=o_txt, n_txt=n_txt: "(rep %s %s %s)" % (o_txt, n_txt, text))))


def statements(qc):
    def S(t, x):
        u = P.Table("u")
        out = {
            "select-all-clauses": lambda: qc.from_(t).join(x).on(t.a == x.a).select(t.a, fn.Sum(t.b).as_("s"), x.c).where((t.c == 1) & (x.d == 2)).groupby(t.a)
                                   .having(fn.Sum(t.b) > 1).orderby(t.a, x.c).limit(1),
            "join-using": lambda: qc.from_(t).join(x).using("a").select(t.a, x.b),
            "subquery-from-in": lambda: qc.from_(qc.from_(t).select(t.a, t.b).where(t.c == 1)).select("a").where(T.Field("a").isin(qc.from_(t).select(t.z))),
            "cte": lambda: qc.with_(qc.from_(t).select(t.a).where(t.b == 1), "c").from_(P.AliasedQuery("c")).join(t).on(P.AliasedQuery("c").a == t.a).select(t.b),
            # a WITH body that is a set operation reading the table (the shape of every recursive CTE: anchor UNION ALL step), and one nested below it
            "cte-setop-body": lambda: qc.with_(qc.from_(t).select(t.a).where(t.b == 1).union_all(qc.from_(t).join(x).on(t.a == x.a).select(x.a)), "c")
                               .from_(P.AliasedQuery("c")).select("a"),
            "cte-setop-body-insert": lambda: qc.with_(qc.from_(t).select(t.a).union(qc.from_(x).select(x.a)).intersect(qc.from_(t).select(t.z)), "c")
                                      .into(u).from_(P.AliasedQuery("c")).select("a"),
            "cte-in-subquery": lambda: qc.from_(qc.with_(qc.from_(t).select(t.a).except_of(qc.from_(t).select(t.b)), "c").from_(P.AliasedQuery("c")).select("a")
                                                .as_("sq")).select("a"),
            "update-set": lambda: qc.update(t).set(t.a, t.b + 1).set(t.c, x.c).from_(x).where(t.d == x.d),
            # a multi-table UPDATE whose SET target is a column of the JOINED table (the replaced table is not the updated one)
            "update-set-joined-target": lambda: qc.update(x).join(t).on(t.a == x.a).set(t.c, x.b + t.d).set(x.e, t.f).where(t.g == 1),
            "insert-select": lambda: qc.into(x).columns("a").from_(t).select(t.a).where(t.b == 1),
            "insert-values": lambda: qc.into(t).columns(t.a, t.b).insert(1, 2),
            "delete": lambda: qc.from_(t).delete().where(t.a == 1),
            "setop": lambda: qc.from_(t).select(t.a).union(qc.from_(x).join(t).on(t.a == x.a).select(x.a)).orderby(t.a),
            "analytic-case": lambda: qc.from_(t).select(an.Rank().over(t.a).orderby(t.b), P.Case().when(t.a == 1, t.b).else_(x.c), -t.a, t.a.between(t.b, x.c)),
            "star": lambda: qc.from_(t).join(x).on(t.a == x.a).select(t.star, x.b),
        }
        if qc in (P.Query, PostgreSQLQuery, SQLLiteQuery):
            out["upsert"] = lambda: qc.into(t).columns("a", "b").insert(1, 2).on_conflict(t.a).do_update(t.b, t.b + 1).where(t.c == 3)
            # both predicates of an upsert: the conflict target's and DO UPDATE's
            out["upsert-both-predicates"] = lambda: (qc.into(t).columns("a", "b").insert(1, 2).on_conflict(t.a).where(t.d > 0).do_update(t.b, t.b + x.e)
                                                     .do_update(t.f, fn.Coalesce(t.f, 0)).where(t.c == 3).where(t.g < x.g))
        if qc is PostgreSQLQuery:
            out["returning"] = lambda: qc.update(t).set(t.a, 1).where(t.b == 2).returning(t.a, t.b.as_("r"))
            out["distinct-on"] = lambda: qc.from_(t).select(t.a).distinct_on(t.b, x.c).join(x).on(t.a == x.a)
        if qc in (P.Query, SQLLiteQuery):
            out["prewhere"] = lambda: qc.from_(t).select(t.a).prewhere(t.b == 1)
        return out
    return S


def cases(run, rng):
    del FAIL[:]
    SEEN[0] = 0
    REP_CAP[0] = 10 if run.tier == "quick" else 40
    dctx = P.Query.SQL_CONTEXT
    pairs = table_pairs()
    # every live Term subclass, itself and in every operand slot
    for cls in termzoo.live_term_classes():
        cn = cls.__name__
        if cn in termzoo.ABSTRACT:
            continue
        corr = []
        for pn, mo, mn in (pairs if run.tier == "thorough" else pairs[:2]):
            if termzoo.make(cls, mo()) is None:
                continue
            compare("zoo:%s/%s" % (cn, pn), lambda tb, third, cls=cls: termzoo.make(cls, tb), mo, mn, dctx, corr)
            slots = operand_slots(P.Table("third"))
            for sn, sf in slots.items():
                if run.tier == "quick" and pn != "plain" and sn not in ("arith-right", "cmp-left", "function-arg", "case-then", "between-end", "in-element"):
                    continue
                compare("zoo:%s in %s/%s" % (cn, sn, pn), lambda tb, third, cls=cls, sn=sn: operand_slots(third)[sn](termzoo.make(cls, tb)), mo, mn, dctx, corr)
        # None as the old table: fields built without a table get qualified
        if not issubclass(cls, (P.queries.QueryBuilder, P.queries._SetOperation)):
            compare("zoo:%s/None->new" % cn, lambda tb, third, cls=cls: termzoo.make(cls, tb), lambda: None, lambda: P.Table("new"), dctx, None)
        yield {"label": "zoo:%s" % cn, "corr": corr, "expr": "1", "known": None, "describe": {}}
    # statements
    for qc in QUERY_CLASSES:
        ctx = qc.SQL_CONTEXT
        S = statements(qc)
        names = list(S(P.Table("t"), P.Table("x")))
        for name in names:
            corr = []
            for pn, mo, mn in pairs:
                compare("stmt:%s/%s/%s" % (QNAMES[qc], name, pn), lambda tb, third, name=name: S(tb, third)[name](), mo, mn, ctx, corr)
                # replacing the OTHER table leaves references to the first one alone
                compare("stmt:%s/%s/other/%s" % (QNAMES[qc], name, pn), lambda tb, third, name=name: S(third, tb)[name](), mo, mn, ctx, corr)
            # a second reference to a table of the SAME name that differs only by its alias (self-join) is another table
            compare("stmt:%s/%s/self-join" % (QNAMES[qc], name), lambda tb, third, name=name: S(tb, third)[name](), lambda: P.Table("old"), lambda: P.Table("new"),
                    ctx, corr, mk_third=lambda: P.Table("old", alias="mgr"))
            compare("stmt:%s/%s/self-join-aliased" % (QNAMES[qc], name), lambda tb, third, name=name: S(tb, third)[name](), lambda: P.Table("old", alias="mgr"),
                    lambda: P.Table("new"), ctx, corr, mk_third=lambda: P.Table("old"))
            yield {"label": "stmt:%s" % name, "corr": [(e[0], [(QNAMES[qc], c, m) for _, c, m in e[1]]) + tuple(e[2:]) for e in corr], "expr": "1", "known": None, "describe": {}}
        none_to_new(qc)


def none_to_new(qc):
    """replace_table(None, new) on STATEMENTS: columns written without a table get the new one; nothing else changes (in particular the statement kind)"""
    t, new = P.Table("t"), P.Table("new")
    F = lambda n, tb=None: T.Field(n, table=tb)  # noqa
    builds = {
        "select": lambda tb: qc.from_(t).select(F("a", tb), t.z).where(F("b", tb) == 1).groupby(F("c", tb)).orderby(F("d", tb)),
        "update": lambda tb: qc.update(t).set(t.x, F("e", tb)).where(F("f", tb) == 2),
        "delete": lambda tb: qc.from_(t).delete().where(F("g", tb) == 3),
        "insert-select": lambda tb: qc.into(P.Table("dst")).from_(t).select(F("h", tb)).where(F("i", tb) == 4),
        "setop": lambda tb: qc.from_(t).select(F("j", tb)).union(qc.from_(t).select(F("k", tb))),
    }
    ctx = ns(qc.SQL_CONTEXT)
    from props.c17 import graph_refs
    for name, b in builds.items():
        lab = "stmt:%s/%s/None->new" % (QNAMES[qc], name)
        try:
            a = b(None)
            before = sql(a, ctx)
            r = a.replace_table(None, new)
            got = sql(r, ctx)
            after = sql(a, ctx)
            # (whether a statement qualifies its columns is decided by call-time state - known finding C13 - so the references are read off
            #  the object graph: every column written without a table now belongs to `new`, every other reference is as in the build over `new`)
            refs_got, refs_exp = graph_refs(r, stop_at_statements=False), graph_refs(b(new), stop_at_statements=False)
        except Exception as e:  # noqa
            FAIL.append({"label": lab, "kind": "raises", "exception": type(e).__name__ + ": " + str(e)[:200]})
            continue
        SEEN[0] += 1
        if refs_got != refs_exp:
            FAIL.append({"label": lab, "kind": "reference-left-or-wrong", "got": str(sorted(map(str, refs_got[0])))[:300], "expected": str(sorted(map(str, refs_exp[0])))[:300]})
        elif got == "" or got.split(" ")[0] != before.split(" ")[0]:
            FAIL.append({"label": lab, "kind": "reference-left-or-wrong", "got": got, "expected": "a %s statement, as before the call" % before.split(" ")[0]})
        elif before != after:
            FAIL.append({"label": lab, "kind": "receiver-changed", "before": before, "after": after})


class LazyViolations:
    def __iter__(self):
        return iter([("C16: %s: %s" % (f["label"], {k: str(v)[:250] for k, v in f.items() if k != "label"}), dict(f)) for f in FAIL])


def lazy_cov():
    return {"replacements_compared": SEEN[0], "differences": len(FAIL), "distinct_nontrivial": SEEN[0], "live_term_classes": len(termzoo.live_term_classes())}


def check(run: core.Run):
    rng = random.Random(run.seed)
    stmtprop.run_statement_property(
        run, prop="C16", propfile="Props/C16.v", module="Props.C16", theorems=THEOREMS, header=HEADER, cases=cases(run, rng),
        what="the replace_table statement", extra_violations=LazyViolations(), extra_cov=lazy_cov, extra_targets=["Gen/Children.v", "Ref/Replace.v", "Proofs/ReplaceLaws.v"],
        corr_import="Ref.Replace",
        rule="for EVERY live Term subclass (reflection; itself and placed in each of 32 operand slots) and for statements of every kind (select with every clause, "
             "JOIN USING, sub-queries in FROM/IN, CTE, UPDATE..SET..FROM, INSERT..SELECT / VALUES, DELETE, set operation, window / CASE / unary minus / BETWEEN, star, "
             "upsert, RETURNING, DISTINCT ON, PREWHERE) x 6 classes x table pairs (plain, aliased new, aliased old, schema-qualified, a table and its temporal form both ways, same name in another schema, None): the object built over the old "
             "table and passed through replace_table(an EQUAL old table, new) must render, with qualifiers forced, exactly as the object built over the new table; the "
             "receiver must render as before; replacing the other table must leave the first one's references alone. Exact string equality between implementation outputs.",
        assumptions=["rendering with with_namespace forced shows every table reference a term holds"])


def replay(run, path):
    return stmtprop.generic_replay(run, path)

"""C12 — aliases are emitted exactly once, where they define a name, for every term kind.

proof:   Props/C12.v (per constructor of the model: in a defining context the rendering is the un-aliased rendering followed by exactly the alias;
         composites render their operands under with_alias = false; GROUP BY / ORDER BY alias references only for selected aliases)
tie:     correspondence of Model.Render on every statement built here
P_check: relational, on implementation outputs only:
         (i)   select(X.as_(al), marker) == select(X, marker) with ' "al"' inserted directly before ',<marker>'   [also RETURNING, DISTINCT ON, FROM/JOIN sources]
         (ii)  C[X.as_(al)] == C[X] for every operand slot C of every composite term and clause
         (iii) GROUP BY / ORDER BY name an alias only if the select list defines it, else print the full un-aliased expression
search:  EVERY live Term subclass (taken from the module) x every position x 6 classes
"""
from __future__ import annotations

import random

import core
import stmtprop
import termzoo
from genobj import QUERY_CLASSES, QNAMES
import pypika_tortoise as P
from pypika_tortoise import functions as fn, analytics as an, terms as T
from pypika_tortoise.dialects import MSSQLQuery, MySQLQuery, OracleQuery, PostgreSQLQuery, SQLLiteQuery

LEVEL = "proof"
THEOREMS = ["C12_select_list_defines_aliases", "C12_filter_clauses_ignore_aliases", "C12_defining_position", "C12_operands_unaliased", "C12_operand_alias_invisible", "C12_groupby_alias_defined", "C12_setop_orderby_alias_defined", "C12_unconditional_refuted", "C12_nonvacuous"]
HEADER = "From PT Require Import Base.Str Base.Codes.\nOpen Scope N_scope.\n"

# classes whose renderer prints the alias whatever the position (pinned by tests/test_criterions.py for stand-alone str()):
UNCONDITIONAL = {"ValueWrapper", "MySQLValueWrapper", "SQLLiteValueWrapper", "All", "Array", "AtTimezone", "BetweenCriterion", "BitwiseAndCriterion", "Bracket",
                 "ContainsCriterion", "JSON", "LiteralValue", "Not", "NullCriterion", "NullValue", "PeriodCriterion", "SystemTimeValue", "Tuple"}
NO_ALIAS = {"Star"}     # t.* cannot carry an alias in SQL; as_() on it is meaningless


def operand_slots(t):
    """name -> function(X) -> term holding X in one operand slot"""
    a, b = T.Field("qa", table=t), T.Field("qb", table=t)
    S = {
        "arith-left": lambda x: T.ArithmeticExpression(P.enums.Arithmetic.add, x, T.ValueWrapper(1)),
        "arith-right": lambda x: T.ArithmeticExpression(P.enums.Arithmetic.sub, a, x), "mul-right": lambda x: T.ArithmeticExpression(P.enums.Arithmetic.mul, a, x),
        "cmp-left": lambda x: T.BasicCriterion(P.enums.Equality.eq, x, T.ValueWrapper(1)), "cmp-right": lambda x: T.BasicCriterion(P.enums.Equality.eq, a, x),
        "like-left": lambda x: T.BasicCriterion(P.enums.Matching.like, x, T.ValueWrapper("p")),
        "and-left": lambda x: T.ComplexCriterion(P.enums.Boolean.and_, x, b == 2), "or-right": lambda x: T.ComplexCriterion(P.enums.Boolean.or_, b == 2, x),
        "not": lambda x: T.Not(x), "neg": lambda x: T.Negative(x), "isnull": lambda x: T.NullCriterion(x), "all": lambda x: T.All(x),
        "in-term": lambda x: T.ContainsCriterion(x, T.Tuple(1, 2)), "in-element": lambda x: T.ContainsCriterion(a, T.Tuple(x, 2)),
        "between-term": lambda x: T.BetweenCriterion(x, T.ValueWrapper(1), T.ValueWrapper(2)), "between-start": lambda x: T.BetweenCriterion(a, x, T.ValueWrapper(2)),
        "between-end": lambda x: T.BetweenCriterion(a, T.ValueWrapper(1), x),
        "bitand-term": lambda x: T.BitwiseAndCriterion(x, T.ValueWrapper(4)),
        "function-arg": lambda x: fn.Coalesce(x, 0), "function-arg2": lambda x: fn.Concat(a, x),
        "case-when": lambda x: P.Case().when(T.BasicCriterion(P.enums.Equality.eq, x, T.ValueWrapper(1)), a).else_(b), "case-then": lambda x: P.Case().when(a == 1, x).else_(b), "case-else": lambda x: P.Case().when(a == 1, b).else_(x),
        "tuple-element": lambda x: T.Tuple(a, x), "array-element": lambda x: T.Array(a, x), "bracket": lambda x: T.Bracket(x),
        "aggregate-arg": lambda x: fn.Sum(x), "aggregate-filter": lambda x: fn.Sum(a).filter(T.BasicCriterion(P.enums.Equality.eq, x, T.ValueWrapper(1))),
        "analytic-arg": lambda x: an.Sum(x).over(a), "analytic-partition": lambda x: an.Rank().over(x), "analytic-orderby": lambda x: an.Rank().over(a).orderby(x),
        "cast-arg": lambda x: fn.Cast(x, "INT"),
        # the variants of a function call that have their own rendering path
        "count-distinct-arg": lambda x: fn.Count(x).distinct(), "sum-distinct-arg": lambda x: fn.Sum(x).distinct(),
        "analytic-orderby-desc": lambda x: an.Rank().over(a).orderby(x, order=P.enums.Order.desc), "extract-arg": lambda x: fn.Extract("year", x),
        "aggregate-distinct-filter": lambda x: fn.Count(a).distinct().filter(T.BasicCriterion(P.enums.Equality.eq, x, T.ValueWrapper(1))),
    }
    return S


FAIL = []
SEEN = {"i": 0, "ii": 0, "iii": 0}
MISSING = []


def sql(q, ctx):
    try:
        s = q.get_sql(ctx)
        return s if isinstance(s, str) else "EXC:nonstr"
    except Exception as e:  # noqa
        return "EXC:" + type(e).__name__


def record(kind, cls, slot, qc, got, exp, known=None):
    FAIL.append({"kind": kind, "term_class": cls, "slot": slot, "class": QNAMES[qc], "got": got, "expected": exp, "known": known})


def cases(run, rng):
    del FAIL[:], MISSING[:]
    for k in SEEN:
        SEEN[k] = 0
    classes = termzoo.live_term_classes()
    qcs = QUERY_CLASSES if run.tier == "thorough" else [P.Query, MySQLQuery, MSSQLQuery, PostgreSQLQuery]
    for qc in qcs:
        ctx = qc.SQL_CONTEXT
        aq = ctx.alias_quote_char or ctx.quote_char
        AL = ' %sal%s' % (aq, aq)
        t = P.Table("t")
        bnd = termzoo.boundary(t)
        entries = []
        for cls in classes:
            entries.append((cls, (lambda cls=cls: termzoo.make(cls, t))))
            for f in bnd.get(cls.__name__, []):
                entries.append((cls, f))      # boundary instances of the class: empty containers, empty / zero constants, no arguments
        for cls, mk in entries:
            cn = cls.__name__
            if cn in termzoo.ABSTRACT or cn in NO_ALIAS:
                continue
            if cn == "_SetOperation" and qc is not P.Query:
                continue      # (a generic set operation keeps its own class's quote character inside another dialect: C08, not judged here)
            if mk() is None:
                if cn not in MISSING:
                    MISSING.append(cn)
                continue
            if not hasattr(mk(), "as_"):
                continue
            zq = T.Field("zq", table=t)
            corr = []
            # ---- (i) defining position: select list
            try:
                q0 = qc.from_(t).select(mk(), zq)
                q1 = qc.from_(t).select(mk().as_("al"), zq)
            except Exception:
                continue
            s0, s1 = sql(q0, ctx), sql(q1, ctx)
            if s0.startswith("EXC") and s1.startswith("EXC"):
                continue
            SEEN["i"] += 1
            tailmark = "," + ctx.quote_char + "zq" + ctx.quote_char + " FROM "
            if s0.count(tailmark) == 1:
                i = s0.index(tailmark)
                exp = s0[:i] + AL + s0[i:]
                if s1 != exp:
                    record("defining:select", cn, "select", qc, s1, exp)
            corr.append((q1, [(QNAMES[qc], ctx, "inline")]))
            # RETURNING (PostgreSQL)
            if qc is PostgreSQLQuery and not isinstance(mk(), (P.queries.QueryBuilder, P.queries._SetOperation)) and not getattr(mk(), "is_aggregate", False):
                try:
                    r0 = sql(qc.update(t).set(t.x, 1).returning(mk(), zq), ctx)
                    r1 = sql(qc.update(t).set(t.x, 1).returning(mk().as_("al"), zq), ctx)
                    SEEN["i"] += 1
                    tm = "," + ctx.quote_char + "zq" + ctx.quote_char
                    if r0.endswith(tm) and r1 != r0[:-len(tm)] + AL + tm:
                        record("defining:returning", cn, "returning", qc, r1, r0[:-len(tm)] + AL + tm)
                except Exception:
                    pass
            # ---- (ii) operand positions: inside a select item and inside WHERE / HAVING / ORDER BY / GROUP BY / ON / SET
            for sn, sf in operand_slots(t).items():
                try:
                    e0, e1 = sf(mk()), sf(mk().as_("al"))
                    pairs = [("select-item", qc.from_(t).select(e0, zq), qc.from_(t).select(e1, zq))]
                    if sn in ("cmp-left", "cmp-right", "and-left", "not", "isnull", "in-term", "between-term"):
                        pairs.append(("where", qc.from_(t).select(zq).where(e0), qc.from_(t).select(zq).where(e1)))
                        pairs.append(("having", qc.from_(t).select(zq).groupby(zq).having(e0), qc.from_(t).select(zq).groupby(zq).having(e1)))
                    if sn in ("arith-left", "function-arg", "neg"):
                        pairs.append(("orderby", qc.from_(t).select(zq).orderby(e0), qc.from_(t).select(zq).orderby(e1)))
                        pairs.append(("groupby", qc.from_(t).select(zq).groupby(e0), qc.from_(t).select(zq).groupby(e1)))
                        pairs.append(("set-value", qc.update(t).set(t.x, e0), qc.update(t).set(t.x, e1)))
                except Exception:
                    continue
                for where, qa, qb in pairs:
                    sa, sb = sql(qa, ctx), sql(qb, ctx)
                    if sa.startswith("EXC") and sb.startswith("EXC"):
                        continue
                    SEEN["ii"] += 1
                    if sa != sb:
                        record("operand", cn, "%s in %s" % (sn, where), qc, sb, sa, known=("C12-unconditional-alias" if cn in UNCONDITIONAL else None))
                    elif where == "select-item" and sn in ("arith-right", "cmp-left", "function-arg", "count-distinct-arg", "case-then", "analytic-partition", "in-element"):
                        corr.append((qb, [(QNAMES[qc], ctx, "inline")]))
            # clause operands directly (the term itself as WHERE / ORDER BY / GROUP BY item, not selected)
            for where, f in (("orderby-item", lambda x: qc.from_(t).select(zq).orderby(x)), ("groupby-item", lambda x: qc.from_(t).select(zq).groupby(x)),
                             ("where-item", lambda x: qc.from_(t).select(zq).where(x))):
                try:
                    sa, sb = sql(f(mk()), ctx), sql(f(mk().as_("al")), ctx)
                except Exception:
                    continue
                if sa.startswith("EXC") and sb.startswith("EXC"):
                    continue
                SEEN["iii" if where != "where-item" else "ii"] += 1
                if sa != sb:
                    record("clause-operand", cn, where, qc, sb, sa, known=("C12-unconditional-alias" if cn in UNCONDITIONAL else None))
            # ---- (iii) alias references
            try:
                g1 = qc.from_(t).select(mk().as_("al"), zq).groupby(mk().as_("al")).orderby(mk().as_("al"))
                s = sql(g1, ctx)
                SEEN["iii"] += 1
                body = sql(qc.from_(t).select(zq).groupby(mk()).orderby(mk()), ctx)
                # GROUP BY: the alias (or, where the dialect forbids it, the full expression); never an undefined name
                gb_alias = " GROUP BY %sal%s" % (aq, aq)
                ob_alias = " ORDER BY %sal%s" % (aq, aq)
                if not s.startswith("EXC"):
                    if qc in (MSSQLQuery, OracleQuery):
                        if gb_alias in s:
                            record("alias-ref", cn, "group by alias under a dialect that forbids it", qc, s, "GROUP BY <expression>")
                    elif gb_alias not in s and body.split(" GROUP BY ")[1].split(" ORDER BY ")[0] not in s:
                        record("alias-ref", cn, "group by", qc, s, "GROUP BY alias or expression")
                    if AL in s and s.count(AL) == 1 and (gb_alias in s or ob_alias in s):
                        record("alias-ref", cn, "GROUP BY / ORDER BY names an alias the select list does not print", qc, s, "the select list defines the alias")
                    corr.append((g1, [(QNAMES[qc], ctx, "inline")]))
                # the three-step sequence: selected with alias, then replaced by table.*, then grouped by the aliased term
                g2 = qc.from_(t).select(T.Field("total", table=t).as_("amount"), zq).select(t.star).groupby(T.Field("total", table=t).as_("amount")).orderby(
                    T.Field("total", table=t).as_("amount"))
                s2 = sql(g2, ctx)
                q = ctx.quote_char
                if not s2.startswith("EXC") and (" GROUP BY %samount%s" % (aq, aq) in s2 or " ORDER BY %samount%s" % (aq, aq) in s2):
                    record("alias-ref", "Field", "alias removed from the select list by select(table.*)", qc, s2, "GROUP BY %stotal%s" % (q, q))
                # aliases that differ only in letter case are different names: an alias reference needs the exact alias in the select list
                g3 = (qc.from_(t).select(T.Field("label", table=t).as_("Kind"), zq).groupby(T.Field("category", table=t).as_("kind"))
                      .orderby(T.Field("other", table=t).as_("KIND")))
                s3 = sql(g3, ctx)
                if not s3.startswith("EXC") and (" GROUP BY %scategory%s" % (q, q) not in s3 or " ORDER BY %sother%s" % (q, q) not in s3):
                    record("alias-ref", "Field", "an alias that only matches a select alias when letter case is ignored", qc, s3,
                           "GROUP BY %scategory%s ORDER BY %sother%s" % (q, q, q, q))
            except Exception:
                pass
            yield {"label": "zoo:%s" % cn, "corr": corr[:6], "expr": "1", "known": None, "describe": {}}
    # the alias handed to the CONSTRUCTOR (alias=...) is the alias set with as_(): every class whose constructor accepts the keyword
    from pypika_tortoise.enums import DatePart, SqlTypes
    for qc in qcs:
        ctx = qc.SQL_CONTEXT
        t = P.Table("t")
        zq = T.Field("zq", table=t)
        fa, fb = (lambda: T.Field("a", table=t)), (lambda: T.Field("b", table=t))
        shapes_ = [lambda: (), lambda: (fa(),), lambda: (fa(), fb()), lambda: (fa(), 1), lambda: (fa(), fb(), 1), lambda: ("nm", fa()), lambda: ("day", 1, fa()),
                   lambda: (fa(), ",", 1), lambda: (fa(), 1, 2), lambda: (fa(), 1, 2, "x"), lambda: (DatePart.year, fa()), lambda: (fa(), SqlTypes.INTEGER),
                   lambda: (4,), lambda: (fa(), 0.5), lambda: ("day", fa(), fb()), lambda: (fa(), "p"), lambda: ("nm",), lambda: (5,), lambda: ({"k": 1},)]
        for cls in classes:
            cn = cls.__name__
            if cn in termzoo.ABSTRACT or issubclass(cls, (P.queries.QueryBuilder, P.queries._SetOperation)):
                continue
            for sh in shapes_:
                try:
                    x0, x1 = cls(*sh()), cls(*sh(), alias="al")
                    if not hasattr(x0, "as_"):
                        break
                    x0 = x0.as_("al")
                    if isinstance(x0, T.AnalyticFunction):
                        x0, x1 = x0.over(fb()), x1.over(fb())
                    q0, q1 = qc.from_(t).select(x0, zq), qc.from_(t).select(x1, zq)
                except Exception:
                    continue
                s0, s1 = sql(q0, ctx), sql(q1, ctx)
                if s0.startswith("EXC") and s1.startswith("EXC"):
                    continue
                SEEN["i"] += 1
                if s0 != s1:
                    record("defining:constructor-alias", cn, "alias= keyword of the constructor vs as_()", qc, s1, s0)
                break
    # ... and an alias reference in the ORDER BY of a set operation needs the alias in the select list of the base query
    for qc in QUERY_CLASSES:
        ctx = qc.SQL_CONTEXT
        t, u = P.Table("t"), P.Table("u")
        q = ctx.quote_char
        so = lambda sel: qc.from_(t).select(sel, t.b).union(qc.from_(u).select(u.a, u.b))  # noqa
        s5 = sql(so(t.a).orderby(T.Field("foo").as_("sort_key")).orderby(T.Field("b").as_("b2"), order=P.enums.Order.desc), ctx)
        SEEN["iii"] += 1
        if not s5.startswith("EXC") and ("sort_key" in s5 or "b2" in s5 or " ORDER BY %sfoo%s,%sb%s DESC" % (q, q, q, q) not in s5):
            record("alias-ref", "_SetOperation", "ORDER BY of a set operation names an alias its select list does not define", qc, s5, "... ORDER BY %sfoo%s,%sb%s DESC" % (q, q, q, q))
        s6 = sql(so(t.a.as_("sort_key")).orderby(T.Field("foo").as_("sort_key")), ctx)
        SEEN["iii"] += 1
        if not s6.startswith("EXC") and not (s6.endswith(" ORDER BY %ssort_key%s" % (q, q)) or s6.endswith(" ORDER BY %sfoo%s" % (q, q))):
            record("alias-ref", "_SetOperation", "ORDER BY of a set operation by a selected alias", qc, s6, "... ORDER BY <the alias or the expression>")
    # ... nor does the NAME of an un-aliased selected column define an alias: ORDER BY / GROUP BY by another expression carrying that name as alias
    for qc in QUERY_CLASSES:
        ctx = qc.SQL_CONTEXT
        t = P.Table("t")
        q = ctx.quote_char
        s7 = sql(qc.from_(t).select(t.a, t.c).orderby(t.b.as_("a")).orderby(T.Field("d", table=t).as_("c"), order=P.enums.Order.desc), ctx)
        SEEN["iii"] += 1
        if not s7.startswith("EXC") and " ORDER BY %sb%s,%sd%s DESC" % (q, q, q, q) not in s7:
            record("alias-ref", "Field", "ORDER BY by an alias that is only the NAME of an un-aliased selected column", qc, s7, "... ORDER BY %sb%s,%sd%s DESC" % (q, q, q, q))
        s8 = sql(qc.from_(t).select(t.a, t.c).groupby(t.b.as_("a")), ctx)
        SEEN["iii"] += 1
        if not s8.startswith("EXC") and " GROUP BY %sb%s" % (q, q) not in s8:
            record("alias-ref", "Field", "GROUP BY by an alias that is only the NAME of an un-aliased selected column", qc, s8, "... GROUP BY %sb%s" % (q, q))
    # FROM / JOIN sources define an alias
    for qc in QUERY_CLASSES:
        ctx = qc.SQL_CONTEXT
        t, u = P.Table("t"), P.Table("u")
        sub = lambda: qc.from_(u).select(u.a).where(u.b == 1)  # noqa
        q = ctx.quote_char
        aq = ctx.alias_quote_char or ctx.quote_char
        s1 = sql(qc.from_(sub().as_("al")).select("a"), ctx)
        if not s1.endswith(") %sal%s" % (aq, aq)):
            record("defining:from", "QueryBuilder", "from", qc, s1, "... FROM (<inner>) alias")
        s2 = sql(qc.from_(t).join(sub().as_("al")).on(t.a == T.Field("a")).select(t.a), ctx)
        if ") %sal%s ON " % (aq, aq) not in s2:
            record("defining:join", "QueryBuilder", "join", qc, s2, "... JOIN (<inner>) alias ON ...")
        # UPDATE .. FROM <source>: a defining position too
        s3 = sql(qc.update(t).set(t.x, T.Field("a", table=u)).from_(sub().as_("al")).where(t.a == 1), ctx)
        if not s3.startswith("EXC") and ") %sal%s" % (aq, aq) not in s3:
            record("defining:update-from", "QueryBuilder", "update-from", qc, s3, "... FROM (<inner>) alias ...")
        s4 = sql(qc.update(t).set(t.x, 1).from_(P.Table("u", alias="al")).where(t.a == 1), ctx)
        if not s4.startswith("EXC") and "%su%s %sal%s" % (q, q, aq, aq) not in s4:
            record("defining:update-from", "Table", "update-from", qc, s4, "... FROM \"u\" alias ...")
        SEEN["i"] += 4
        # every form of a table source, in FROM, JOIN and UPDATE .. FROM: the aliased source is the un-aliased one followed by the alias
        tables = {"plain": lambda: P.Table("u"), "schema": lambda: P.Table("u", schema="sch"), "schema-chain": lambda: P.Table("u", schema=["db", "sch"]),
                  "temporal": lambda: P.Table("u").for_(P.SYSTEM_TIME.as_of("2020-01-01")),
                  "temporal-between": lambda: P.Table("u").for_(P.SYSTEM_TIME.between("2020-01-01", "2020-02-01")),
                  "portion": lambda: P.Table("u").for_portion(P.SYSTEM_TIME.from_to("2020-01-01", "2020-02-01")),
                  "schema-temporal": lambda: P.Table("u", schema="sch").for_(P.SYSTEM_TIME.as_of("2020-01-01"))}
        corr = []
        for tn, mk in tables.items():
            positions = {"from": lambda x: qc.from_(x).select(T.Star()).where(T.Field("zq") == 1),
                         "from-second": lambda x: qc.from_(t).from_(x).select(T.Star()).where(T.Field("zq") == 1),
                         "join": lambda x: qc.from_(t).join(x).on(T.Field("zq") == 1).select(T.Star()),
                         "update-from": lambda x: qc.update(t).set(T.Field("x"), 1).from_(x).where(T.Field("zq") == 1)}
            for pn, pf in positions.items():
                try:
                    q0, q1 = pf(mk()), pf(mk().as_("al"))
                except Exception:
                    continue
                a0, a1 = sql(q0, ctx), sql(q1, ctx)
                if a0.startswith("EXC") or a1.startswith("EXC"):
                    continue
                SEEN["i"] += 1
                mark = " ON " if pn == "join" else " WHERE "
                if a0.count(mark) == 1:
                    i = a0.index(mark)
                    exp = a0[:i] + " %sal%s" % (aq, aq) + a0[i:]
                    if a1 != exp:
                        record("defining:table-source", "Table", "%s table as %s" % (tn, pn), qc, a1, exp)
                if pn in ("from", "join"):
                    corr.append((q1, [(QNAMES[qc], ctx, "inline")]))
        yield {"label": "sources", "corr": corr, "expr": "1", "known": None, "describe": {}}


class LazyViolations:
    def __iter__(self):
        known_listed = {e["id"] for e in core.load_known("C12") if e.get("status") == "known"}
        out = []
        for f in FAIL:
            if f["known"] and f["known"] in known_listed:
                continue
            out.append(("C12: %s: term kind %s at %s under %s: got %r, expected %r" % (f["kind"], f["term_class"], f["slot"], f["class"], f["got"][:250], f["expected"][:250]),
                        dict(f)))
        return iter(out)


def lazy_cov():
    byk = {}
    for f in FAIL:
        if f["known"]:
            byk.setdefault(f["known"], set()).add(f["term_class"])
    return {"defining_positions_compared": SEEN["i"], "operand_positions_compared": SEEN["ii"], "alias_reference_checks": SEEN["iii"],
            "differences": len(FAIL), "differences_in_known_class": {k: sorted(v) for k, v in byk.items()},
            "distinct_nontrivial": SEEN["i"] + SEEN["ii"] + SEEN["iii"], "live_term_classes": len(termzoo.live_term_classes()),
            "classes_not_constructible": sorted(MISSING)}


def check(run: core.Run):
    rng = random.Random(run.seed)
    stmtprop.run_statement_property(
        run, prop="C12", propfile="Props/C12.v", module="Props.C12", theorems=THEOREMS, header=HEADER, cases=cases(run, rng),
        what="the alias statement", extra_violations=LazyViolations(), extra_cov=lazy_cov,
        rule="for EVERY live Term subclass (reflection over the module; %d today) x query classes: (i) select(X.as_('al'), m) must equal select(X, m) with the quoted "
             "alias inserted directly after X's text (also RETURNING, FROM/JOIN sources); (ii) for each of 32 operand slots of composite terms (arithmetic, comparison, "
             "AND/OR, NOT, unary minus, IS NULL, ALL, IN term/element, BETWEEN term/bounds, bitwise and, function / aggregate / analytic arguments, FILTER, PARTITION BY, "
             "window ORDER BY, CASE when/then/else, tuple / array / bracket elements, CAST) placed in a select item and in WHERE / HAVING / ORDER BY / GROUP BY / SET, and for the "
             "term itself as a WHERE / GROUP BY / ORDER BY item: C[X.as_('al')] must render exactly as C[X]; (iii) GROUP BY / ORDER BY may name an alias only if the select list "
             "prints it (also after select(table.*) removed it), never under SQL Server / Oracle. Exact string equality between implementation outputs."
             % len(termzoo.live_term_classes()),
        assumptions=["the position VALUES (...) of INSERT is neither a defining nor an operand position in the property's wording: not judged"])
    for f in FAIL:
        if f["known"]:
            for e in core.load_known("C12"):
                if e.get("status") == "known" and e["id"] == f["known"] and e["what_fails"] not in run.known_lines:
                    run.known(e["what_fails"])


def replay(run, path):
    return stmtprop.generic_replay(run, path)

"""C08 — one dialect's conventions govern the whole statement tree.

proof:   Props/C08.v (context modifiers preserve the dialect conventions; for all six classes and all names / values a SELECT built with the generic
         class nested as FROM source / IN operand / set operand renders exactly as one built with the outer class; a neutral statement is one text
         function of the quote character)
tie:     Gen/Ctx.v, Gen/Placeholders.v regenerated + correspondence of Model.Render on every statement built here (inline and parameterised)
P_check: (A) relational on implementation outputs: outer D with inner parts built by the generic classes == outer D with inner parts built by D;
         (B) Ref.Dialect.cross_ok in Coq: token streams of one neutral program under two classes, normalised
search:  nesting constructs (sub-query in FROM / JOIN / IN / select list, CTE, set operation, INSERT..SELECT) at depth 1-3 holding dialect-sensitive
         leaves (identifiers, placeholders, array, interval, JSON, strings with backslash, booleans) x 6 outer classes; all 30 ordered class pairs
"""
from __future__ import annotations

import itertools
import random

import core
import stmtprop
from coqemit import cstr
from genobj import QUERY_CLASSES, QNAMES
import pypika_tortoise as P
from pypika_tortoise import queries as Q, terms as T, functions as fn
from pypika_tortoise.terms import Parameterizer
from pypika_tortoise.dialects import PostgreSQLQuery, MySQLQuery, SQLLiteQuery, MSSQLQuery, OracleQuery

LEVEL = "proof"
THEOREMS = ["C08_modifiers_preserve_conventions", "C08_builder_class_irrelevant", "C08_class_free_nonvacuous", "C08_generic_inner_follows_outer", "C08_neutral_is_a_function_of_the_quote", "C08_cross_nonvacuous"]
HEADER = ("From PT Require Import Base.Str Base.Codes Model.Types Ref.Lexer Ref.Dialect.\nOpen Scope N_scope.\n"
          "Definition j (d1 : dial) (s1 : str) (d2 : dial) (s2 : str) : N := match cross_ok d1 s1 d2 s2 with Some true => 1 | Some false => 0 | None => 2 end.\n")
FAIL, SEEN = [], [0]


def leaves(kind, icls=None):
    """dialect-sensitive leaves as criteria / select items over table t (icls: the class the part is built with / for)"""
    idial = icls.SQL_CONTEXT.dialect if icls is not None else None

    def f(t):
        return {
            "identifier": (t.a, t.b == 1),
            "string-backslash": (T.ValueWrapper("b\\s"), t.b == "q'\\"),
            "array": (t.a, t.b == T.Array(1, 2)),
            "interval": (t.a, t.b > T.Interval(days=3)),
            # an interval constructed FOR the dialect of the class its part is built with: the rendering dialect decides, not the argument
            "interval-dialect-arg": (t.a + T.Interval(hours=2, minutes=5, dialect=idial), t.b > T.Interval(days=3, dialect=idial)),
            "array-with-term": (T.Array(t.a, 1), t.b == T.Array(t.c, fn.Lower(t.d), 2)),
            "interval-function-arg": (fn.Coalesce(T.Function("DATE_ADD", t.a, T.Interval(hours=2, minutes=5)), t.c), T.Function("DATE_SUB", t.b, T.Interval(days=3)) > t.d),
            "json": (T.JSON({"k": "v"}), t.b.contains({"a": 1}) if hasattr(t.b, "contains") else t.b == 1),
            "boolean-criterion": (t.a, t.b == True),  # noqa: E712
            "number": (t.a + 1, t.b.between(1, 2)),
        }[kind]
    return f


LEAF_KINDS = ["identifier", "string-backslash", "array", "interval", "interval-dialect-arg", "interval-function-arg", "array-with-term", "json", "boolean-criterion", "number"]


def inner_select(icls, kind, n="i"):
    t = P.Table(n)
    sel, crit = leaves(kind, icls)(t)
    g = t.c.as_("gx")
    return icls.from_(t).select(sel, g).where(crit).groupby(g)


def constructs(D, I, depth, kind):
    """name -> build() : a statement of class D whose nested parts are built with class I, nested `depth` deep"""
    o = P.Table("o")

    def nest(q, d):
        for _ in range(d - 1):
            q = I.from_(q).select("*")
        return q

    return {
        "from": lambda: D.from_(nest(inner_select(I, kind), depth)).select("*").where(T.Field("w") == 5),
        "join": lambda: D.from_(o).join(nest(inner_select(I, kind), depth).as_("jq")).on(o.a == T.Field("a")).select(o.a),
        "in": lambda: D.from_(o).select(o.a).where(o.a.isin(nest(inner_select(I, kind), depth))),
        "select-item": lambda: D.from_(o).select(o.a, nest(inner_select(I, kind), depth).as_("si")),
        "cte": lambda: D.with_(nest(inner_select(I, kind), depth), "c1").from_(P.AliasedQuery("c1")).select("*"),
        "setop-operand": lambda: D.from_(o).select(o.a, o.b).where(o.c == 7).union(nest(inner_select(I, kind), depth)),
        # operands with their own ORDER BY take another path through the set operation's context handling (no LIMIT / OFFSET here: the
        # row-limiting clause is spelled by the builder class, which is C09's subject and not among the conventions C08 lists)
        "setop-operand-tail": lambda: D.from_(o).select(o.a, o.b).where(o.c == 7).union(nest(inner_select(I, kind), depth).orderby(T.Field("gx"))),
        "setop-base-tail": lambda: nest(inner_select(D, kind), 1).orderby(T.Field("a")).union_all(nest(inner_select(I, kind), depth).orderby(T.Field("gx"))),
        # the nested part carries its own WITH clause (its body is two levels below the outer statement)
        "inner-with-cte-from": lambda: D.from_(nest(I.with_(inner_select(I, kind), "cx").from_(P.AliasedQuery("cx")).select("*"), depth)).select("*"),
        "inner-with-cte-in": lambda: D.from_(o).select(o.a).where(o.a.isin(I.with_(inner_select(I, kind), "cy").from_(P.AliasedQuery("cy")).select("a"))),
        "setop-in-from": lambda: D.from_(I.from_(o).select(o.a, o.b).union(inner_select(I, kind))).select("*"),
        "insert-select": lambda: D.into(P.Table("dst")).from_(nest(inner_select(I, kind), depth)).select("*"),
        "criterion-generic": lambda: D.from_(o).select(o.a).where(leaves(kind, I)(o)[1] & (o.z == "s\\")),
    }


def render(q, qc, param):
    ctx = qc.SQL_CONTEXT
    pz = Parameterizer() if param else None
    try:
        s = q.get_sql(ctx.copy(parameterizer=pz) if param else ctx)
    except Exception as e:  # noqa
        return "EXC:" + type(e).__name__, []
    return s, (list(pz.values) if pz else [])


def neutral_programs():
    """dialect-neutral programs as functions of the query class"""
    def p1(Qc):
        t, u = P.Table("t"), P.Table("u", alias="ua")
        return Qc.from_(t).join(u, P.enums.JoinType.left).on(t.a == u.a).select(t.a, u.b.as_("ub"), fn.Count(t.c)).where((t.d > 5) & t.e.isin([1, 2, 3])).groupby(t.a, u.b) \
            .having(fn.Count(t.c) > 1).orderby(t.a, order=P.enums.Order.desc)

    def p2(Qc):
        t = P.Table("t", schema="s")
        return Qc.from_(Qc.from_(t).select(t.a, t.b).where(t.c == "it's")).select("a").where(T.Field("b").isnull())

    def p3(Qc):
        t, u = P.Table("t"), P.Table("u")
        return Qc.from_(t).select(t.a).where(t.b == 4).union(Qc.from_(u).select(u.a).where(u.b == "x")).union_all(Qc.from_(t).select(t.c))

    def p4(Qc):
        t = P.Table("t")
        return Qc.with_(Qc.from_(t).select(t.a).where(t.b.like("p%")), "c1").from_(P.AliasedQuery("c1")).select("*")

    def p5(Qc):
        t = P.Table("t")
        return Qc.into(t).columns("a", "b").insert(1, "x").insert(2, None)

    def p6(Qc):
        t, u = P.Table("t"), P.Table("u")
        return Qc.update(t).set(t.a, P.Case().when(t.b == 1, "one").else_("other")).where(t.c.isin(Qc.from_(u).select(u.c).where(u.d == 9)))

    def p7(Qc):
        t = P.Table("t")
        return Qc.from_(t).delete().where(~(t.a == 1) | (t.b != 2))
    def p8(Qc):
        # window functions: PARTITION BY, ORDER BY entries with and without a direction, a frame; constants inside
        from pypika_tortoise import analytics as an
        t = P.Table("t")
        return Qc.from_(t).select(an.Rank().over(t.a).orderby(t.b + 7, order=P.enums.Order.desc).orderby(t.c),
                                  an.Sum(t.d).over(t.a, t.e).orderby(t.f, order=P.enums.Order.asc).rows(an.Preceding(1)),
                                  an.RowNumber().orderby(t.g)).where(t.h == "w")

    def p9(Qc):
        # functions with their own argument syntax
        t = P.Table("t")
        return Qc.from_(t).select(fn.Cast(t.a, P.enums.SqlTypes.INTEGER), fn.Extract(P.enums.DatePart.year, t.b), fn.Coalesce(t.c, "d", 0),
                                  fn.Concat(t.e, "-", t.f).as_("cc"), fn.Count("*")).where(fn.Lower(t.g) == "x").groupby(t.a).having(fn.Max(t.h) > 3)
    return [p1, p2, p3, p4, p5, p6, p7, p8, p9]


def cases(run, rng):
    del FAIL[:]
    SEEN[0] = 0
    # ---- (A) generic inner parts follow the outer class
    for D in QUERY_CLASSES:
        for kind in LEAF_KINDS:
            for depth in ((1, 2) if run.tier == "quick" else (1, 2, 3)):
                G = constructs(D, P.Query, depth, kind)
                N = constructs(D, D, depth, kind)
                for cname in G:
                    for param in (False, True):
                        try:
                            qg, qd = G[cname](), N[cname]()
                        except Exception:
                            continue
                        sg, vg = render(qg, D, param)
                        sd, vd = render(qd, D, param)
                        if sg.startswith("EXC") and sd.startswith("EXC"):
                            continue
                        SEEN[0] += 1
                        if sg != sd or [repr(v) for v in vg] != [repr(v) for v in vd]:
                            FAIL.append({"kind": "nested generic part does not follow the outer dialect", "class": QNAMES[D], "construct": cname, "leaf": kind, "depth": depth,
                                         "mode": "param" if param else "inline", "with_generic_inner": sg, "with_dialect_inner": sd})
                    if depth == 1:
                        yield {"label": "A:%s" % cname, "corr": [(G[cname](), [(QNAMES[D], D.SQL_CONTEXT, "inline"), (QNAMES[D], D.SQL_CONTEXT, "param")])], "expr": "1",
                               "known": None, "describe": {}}
    # ---- (C) the dialect-specific literal forms inside a statement are the ones the literal has stand-alone under the statement's context
    for D in QUERY_CLASSES:
        lits = [T.Interval(hours=2, minutes=5), T.Interval(days=3)]
        exp = [x.get_sql(D.SQL_CONTEXT) for x in lits]
        # a composite interval is written in the SAME form as a single-unit one of that dialect (unit inside or outside the quotes)
        outside = exp[1].endswith("' DAY")
        for comp, unit in ((T.Interval(hours=2, minutes=5), "HOUR_MINUTE"), (T.Interval(years=1, months=2), "YEAR_MONTH"), (T.Interval(days=1, seconds=3), "DAY_SECOND")):
            ctext = comp.get_sql(D.SQL_CONTEXT)
            SEEN[0] += 1
            if not (ctext.endswith("' " + unit) if outside else ctext.endswith(" " + unit + "'")):
                FAIL.append({"kind": "a composite interval is not written in the dialect's own form (single-unit form: %s)" % exp[1], "class": QNAMES[D], "construct": "interval literal",
                             "leaf": unit, "depth": 0, "mode": "inline", "with_generic_inner": ctext, "with_dialect_inner": "INTERVAL '...%s" % (("' " + unit) if outside else (" " + unit + "'"))})
        for kind in ("interval", "interval-function-arg"):
            for depth in (1, 2):
                for cname, f in constructs(D, P.Query, depth, kind).items():
                    try:
                        sg, _ = render(f(), D, False)
                    except Exception:
                        continue
                    if sg.startswith("EXC") or "INTERVAL" not in sg:
                        continue
                    SEEN[0] += 1
                    if sg.count("INTERVAL") != sum(sg.count(e) for e in set(exp)):
                        FAIL.append({"kind": "an interval inside the statement is not written in the statement's dialect form", "class": QNAMES[D], "construct": cname, "leaf": kind,
                                     "depth": depth, "mode": "inline", "with_generic_inner": sg, "with_dialect_inner": " / ".join(exp)})
    # ---- (C') arrays: every array of the statement is written in the statement's array form, inline and parameterised
    for D in QUERY_CLASSES:
        pg = D.SQL_CONTEXT.dialect.name in ("POSTGRESQL", "REDSHIFT")
        for kind in ("array", "array-with-term"):
            n_arrays = 1 if kind == "array" else 2
            for depth in (1, 2):
                for cname, f in constructs(D, P.Query, depth, kind).items():
                    for param in (False, True):
                        try:
                            sg, vals = render(f(), D, param)
                        except Exception:
                            continue
                        if sg.startswith("EXC"):
                            continue
                        one_param = kind == "array" and param          # an array of plain constants may be ONE parameter
                        SEEN[0] += 1
                        opened = sg.count("ARRAY[") if pg else sg.count("[") - sg.count("ARRAY[")
                        other = sg.count("[") - sg.count("ARRAY[") if pg else sg.count("ARRAY[")
                        if other or (opened == 0 and not one_param):
                            FAIL.append({"kind": "an array inside the statement is not written in the statement's dialect form", "class": QNAMES[D], "construct": cname,
                                         "leaf": kind, "depth": depth, "mode": "param" if param else "inline", "with_generic_inner": sg,
                                         "with_dialect_inner": "%d x %s" % (n_arrays, "ARRAY[..]" if pg else "[..]")})
    # ---- (A') one shared generic part rendered through two classes in turn: the second rendering must not remember the first dialect
    for D1, D2 in itertools.permutations(QUERY_CLASSES, 2):
        for kind in LEAF_KINDS:
            shared = inner_select(P.Query, kind, n="sh")
            first, _ = render(D1.from_(shared).select("*"), D1, False)
            again, _ = render(D2.from_(shared).select("*"), D2, False)
            fresh, _ = render(D2.from_(inner_select(P.Query, kind, n="sh")).select("*"), D2, False)
            SEEN[0] += 1
            if again != fresh:
                FAIL.append({"kind": "a part rendered under %s first keeps that dialect's form under the next one" % QNAMES[D1], "class": QNAMES[D2], "construct": "from (shared object)",
                             "leaf": kind, "depth": 1, "mode": "inline", "with_generic_inner": again, "with_dialect_inner": fresh})
    # ---- (A'') set-operand wrapping is the class's own at every depth: the nested set operation is the flat one in parentheses
    for D in QUERY_CLASSES:
        mk = lambda: D.from_(P.Table("t")).select("a").where(T.Field("b") == 1).union(D.from_(P.Table("u")).select("a")).intersect(D.from_(P.Table("v")).select("a"))  # noqa
        flat, _ = render(mk(), D, False)
        for cname, outer in (("from", lambda s: D.from_(s).select("*")), ("in", lambda s: D.from_(P.Table("o")).select("x").where(T.Field("x").isin(s))),
                             ("from-from", lambda s: D.from_(D.from_(s).select("*")).select("*"))):
            nested, _ = render(outer(mk()), D, False)
            SEEN[0] += 1
            if "(" + flat + ")" not in nested:
                FAIL.append({"kind": "a nested set operation is not the flat one in parentheses", "class": QNAMES[D], "construct": cname, "leaf": "set-operation", "depth": 1,
                             "mode": "inline", "with_generic_inner": nested, "with_dialect_inner": "(" + flat + ")"})
    # ---- (A3) ... whichever class a (second or later) OPERAND was built with: the set operation of class D with an operand built by class I reads
    #      as the one built with D throughout (the operand's own builder flags decide nothing once it is rendered through D)
    t_, u_, v_, w_ = P.Table("t"), P.Table("u"), P.Table("v"), P.Table("w")
    for D, I in itertools.product(QUERY_CLASSES, repeat=2):
        if D is I:
            continue

        def so(X, D=D):
            return (D.from_(t_).select(t_.x).where(t_.y > t_.z).union(X.from_(u_).select(u_.x).where(u_.y.isnull()))
                    .intersect(D.from_(v_).select(v_.x)).union_all(X.from_(w_).select(w_.x).groupby(w_.x)))
        for cname, outer in (("set operation (stand-alone)", lambda s: s), ("set operation in FROM", lambda s, D=D: D.from_(s).select("x")),
                             ("set operation in IN", lambda s, D=D: D.from_(w_).select(w_.x).where(w_.x.isin(s))),
                             ("set operation in a CTE body", lambda s, D=D: D.with_(D.from_(s).select("x"), "c9").from_(P.AliasedQuery("c9")).select("*"))):
            for param in (False, True):
                mixed, _ = render(outer(so(I)), D, param)
                pure, _ = render(outer(so(D)), D, param)
                SEEN[0] += 1
                if mixed != pure:
                    FAIL.append({"kind": "operands built with %s inside a %s set operation change the text" % (QNAMES[I], QNAMES[D]), "class": QNAMES[D], "construct": cname,
                                 "leaf": "set-operand", "depth": 1, "mode": "param" if param else "inline", "with_generic_inner": mixed, "with_dialect_inner": pure})
    # ---- (B) all ordered pairs on the neutral subset
    progs = neutral_programs()
    for (D1, D2), (k, pf) in itertools.product(itertools.permutations(QUERY_CLASSES, 2), enumerate(progs)):
        for param in (False, True):
            s1, _ = render(pf(D1), D1, param)
            s2, _ = render(pf(D2), D2, param)
            if s1.startswith("EXC") or s2.startswith("EXC"):
                continue
            yield {"label": "B:neutral%d" % k, "corr": [], "known": None,
                   "expr": "j %s %s %s %s" % (D1.SQL_CONTEXT.dialect.name, cstr(s1), D2.SQL_CONTEXT.dialect.name, cstr(s2)),
                   "describe": {"classes": (QNAMES[D1], QNAMES[D2]), "mode": "param" if param else "inline", "sql1": s1, "sql2": s2}}


class LazyViolations:
    def __iter__(self):
        return iter([("C08: %s: %s / %s / %s depth %s %s: %r vs %r" % (f["kind"], f["class"], f["construct"], f["leaf"], f["depth"], f["mode"], f["with_generic_inner"][:250],
                                                                     f["with_dialect_inner"][:250]), dict(f)) for f in FAIL])


def lazy_cov():
    return {"nestings_compared": SEEN[0], "nestings_differing": len(FAIL)}


def check(run: core.Run):
    rng = random.Random(run.seed)
    stmtprop.run_statement_property(
        run, prop="C08", propfile="Props/C08.v", module="Props.C08", theorems=THEOREMS, header=HEADER, cases=cases(run, rng),
        what="the cross-dialect statement", extra_violations=LazyViolations(), extra_cov=lazy_cov, extra_targets=["Ref/Dialect.v"],
        rule="(A) for each of 6 outer classes x 9 nesting constructs (sub-query in FROM / JOIN / IN / select list, CTE body, set operand, set operation in FROM, INSERT..SELECT, a "
             "generic criterion) x 7 dialect-sensitive leaves (identifier, string with backslash, array, interval, JSON, boolean criterion, number) x depth 1-2 (thorough 3) x {inline, "
             "parameterised}: the statement whose nested parts are built with the generic classes must render exactly (text and value list) as the one whose nested parts are built with the "
             "outer class. (B) 9 dialect-neutral programs (window functions, functions with their own argument syntax, join/group/having/order, nested sub-query, three-way set operation, CTE, INSERT, UPDATE with CASE and IN sub-query, DELETE) under "
             "all 30 ordered pairs of classes x 2 modes: Ref.Dialect.cross_ok in Coq (token streams equal after normalising quote character, placeholder style, set-operand wrapping).",
        assumptions=["the wrapper class a builder installs for constants in select / SET (SQLite: 1/0 for booleans; MySQL) is chosen when the part is BUILT: inner parts built by the generic "
                     "class use the plain wrapper - the (A) leaves avoid bare booleans in the select list (known finding C08-wrapper-by-builder-class)"])
    for f in FAIL[:0]:
        pass


def replay(run, path):
    return stmtprop.generic_replay(run, path)

"""C11 — column references are qualified exactly when needed and always by the right name.

proof:   Props/C11.v (qualifier rule of a column reference for all contexts and names; SELECT statements of all six classes with symbolic table and
         column names: one source => every reference bare, a join => every reference qualified by its table's name, an aliased source => by the alias)
tie:     correspondence of Model.Render on every generated statement
P_check: Ref.Qualify.c11_ok in Coq on the implementation's text: every occurrence of a marked column carries exactly the qualifier the rule demands
search:  statements x source shapes (plain, aliased, schema-qualified, sub-query, CTE; 1-3 sources; self-join with aliases) x every clause that can
         hold a field (select, on, using, where, group by, having, order by, set, insert columns, returning, on-conflict) x 6 classes x call orders
"""
from __future__ import annotations

import itertools
import random

import core
import stmtprop
from coqemit import cstr, copt, clist, cbool, cnat
from genobj import QUERY_CLASSES, QNAMES
import pypika_tortoise as P
from pypika_tortoise import analytics as an
from pypika_tortoise import queries as Q, terms as T, functions as fn
from pypika_tortoise.dialects import PostgreSQLQuery, MySQLQuery, SQLLiteQuery, MSSQLQuery, OracleQuery

LEVEL = "proof"
THEOREMS = ["C11_field_rule", "C11_field_without_table", "C11_single_source_bare", "C11_join_qualified", "C11_aliased_source", "C11_rule_examples",
            "C11_statement_namespace", "C11_select_list_columns", "C11_filter_clause_columns", "C11_where_columns", "C11_groupby_columns", "C11_orderby_columns", "C11_join_on_columns"]
HEADER = ("From PT Require Import Base.Str Base.Codes Model.Types Ref.Lexer Ref.Qualify.\nOpen Scope N_scope.\n"
          "Definition j (d : dial) (m : bool) (cols : list colref) (stars : list str) (sql : str) : N := match c11_ok d m cols stars sql with Some true => 1 | Some false => 0 | None => 2 end.\n")


def star_src(s, srcs):
    """the sources that are selected as table.* : the second source when it is a table, and an aliased single table source"""
    return isinstance(s, Q.Table) and ((len(srcs) > 1 and s is srcs[1]) or (len(srcs) == 1 and bool(s.alias) and s._table_name == "t" and s._schema is not None))


class Prog:
    """collects the marked columns of one program"""

    def __init__(self):
        self.cols = []
        self.k = 0
        self.stars = []

    def star(self, src):
        """src.* : must be qualified by the name the source is referred by"""
        self.stars.append(src.alias or src._table_name)
        return src.star

    def col(self, src, exempt=False, via_str=False):
        """a fresh, uniquely named column of source `src` (a Table, a sub-query / AliasedQuery, or None)"""
        self.k += 1
        name = "zc%d" % self.k
        if src is None:
            sname, alias = None, None
        elif isinstance(src, Q.Table):
            sname, alias = src._table_name, src.alias
        elif isinstance(src, Q.AliasedQuery):
            sname, alias = src.name, src.name
        else:
            sname, alias = "", "@sub"            # alias resolved at the end (sub-queries are tagged sq<n> when embedded)
        self.cols.append([name, sname, alias, exempt, src])
        return name if via_str else T.Field(name, table=src)

    def coq(self):
        ents = []
        for name, sname, alias, exempt, src in self.cols:
            if alias == "@sub":
                alias = src.alias
            ents.append("(MkCol %s %s %s %s)" % (cstr(name), copt(sname), copt(alias), cbool(exempt)))
        return clist(ents)


def sources(qc):
    return {
        "plain": lambda n: P.Table(n), "aliased": lambda n: P.Table(n, alias=n + "_al"), "schema": lambda n: P.Table(n, schema="sch"),
        "aliased-schema": lambda n: P.Table(n, schema=["db", "sch"], alias="A" + n),
        "subquery": lambda n: qc.from_(P.Table(n + "_in")).select("x", "y"), "subquery-aliased": lambda n: qc.from_(P.Table(n + "_in")).select("x", "y").as_(n + "_sq"),
    }


def programs(qc, rng, tier):
    """yield (label, build) ; build() -> (statement, Prog, multi description tuple)"""
    S = sources(qc)
    names = list(S)

    def select_like(s0, s1, s2, order):
        def build():
            pg = Prog()
            t = S[s0]("t")
            q = qc.from_(t)
            srcs = [t]
            nfrom, njoins = 1, 0
            if s1 is not None:
                u = S[s1]("u")
                q = q.join(u).on(pg.col(t) == pg.col(u))
                srcs.append(u)
                njoins += 1
            if s2 == "from2":
                w = P.Table("w")
                q = q.from_(w)
                srcs.append(w)
                nfrom += 1
            elif s2 is not None:
                w = S[s2]("w")
                q = q.join(w, P.enums.JoinType.left).using(pg.col(None, exempt=True, via_str=True))
                srcs.append(w)
                njoins += 1
            steps = {
                # (selecting table.* removes that table's other select items, so a source gets either marked columns or a star)
                "select": lambda q: q.select(*[pg.col(s) for s in srcs if not star_src(s, srcs)],
                                             *[pg.col(s, via_str=True) for s in srcs[:1] if not star_src(s, srcs)], fn.Sum(pg.col(srcs[-1])).as_("agg"),
                                             *[pg.star(s) for s in srcs if star_src(s, srcs)],
                                             *[fn.Count(pg.star(s)) for s in srcs[:1] if isinstance(s, Q.Table) and s.alias]),
                # columns inside a window: PARTITION BY, ORDER BY with and without a direction, FILTER
                "window": lambda q: q.select(an.Rank().over(pg.col(srcs[0])).orderby(pg.col(srcs[-1]), order=P.enums.Order.desc).orderby(pg.col(srcs[0])),
                                             fn.Sum(pg.col(srcs[-1])).filter(pg.col(srcs[0]) > 0)),
                "where": lambda q: q.where((pg.col(srcs[0]) == 1) & (pg.col(srcs[-1]) > 2)),
                # (a column given by name - a str - is a column of the first FROM source)
                "groupby": lambda q: q.groupby(pg.col(srcs[0]), fn.Lower(pg.col(srcs[-1])), pg.col(srcs[0], via_str=True)),
                "having": lambda q: q.having(fn.Max(pg.col(srcs[0])) > 3),
                "orderby": lambda q: q.orderby(pg.col(srcs[-1]), pg.col(srcs[0]), pg.col(srcs[0], via_str=True)),
            }
            for k in order:
                q = steps[k](q)
            return q, pg, (njoins, nfrom, isinstance(srcs[0], Q.QueryBuilder), False, False)
        return build
    orders = [("select", "window", "where", "groupby", "having", "orderby"), ("where", "orderby", "select", "groupby", "window", "having"),
              ("groupby", "having", "window", "select", "where", "orderby")]
    for s0 in names:
        for s1 in [None] + names:
            for s2 in [None, "plain", "aliased", "from2"]:
                if tier == "quick" and rng.random() < 0.6:
                    continue
                for oi, order in enumerate(orders if tier == "thorough" else [orders[(len(s0) + (len(s1) if s1 else 0)) % 3]]):
                    yield "select:%s/%s/%s/o%d" % (s0, s1, s2, oi), select_like(s0, s1, s2, order)

    # self-join with explicit aliases
    def selfjoin():
        pg = Prog()
        a, b = P.Table("emp", alias="e"), P.Table("emp", alias="m")
        q = qc.from_(a).join(b).on(pg.col(a) == pg.col(b)).select(pg.col(a), pg.star(b), fn.Count(pg.star(a))).where(pg.col(b) == 1)
        return q, pg, (1, 1, False, False, False)
    yield "self-join", selfjoin

    # CTE reference
    def cte():
        pg = Prog()
        t = P.Table("t")
        c = P.AliasedQuery("cte1")
        q = qc.with_(qc.from_(P.Table("base")).select("x"), "cte1").from_(t).join(c).on(pg.col(t) == pg.col(c)).select(pg.col(c), pg.col(t))
        return q, pg, (1, 1, False, False, False)
    yield "cte-join", cte

    def cte_single():
        pg = Prog()
        c = P.AliasedQuery("cte1")
        q = qc.with_(qc.from_(P.Table("base")).select("x"), "cte1").from_(c).select(pg.col(c)).where(pg.col(c) == 1)
        return q, pg, (0, 1, False, False, False)
    yield "cte-single", cte_single

    # WHERE referring to a table outside the statement's sources (a correlated sub-query) - in one where() call, and in a LATER where() call
    for variant in ("one-call", "later-call", "first-call"):
        def foreign(variant=variant):
            pg = Prog()
            t, outer = P.Table("t"), P.Table("outer_t")
            q = qc.from_(t).select(pg.col(t))
            own, corr = (pg.col(t) == 1), (pg.col(t) == pg.col(outer))
            if variant == "one-call":
                q = q.where(own & corr)
            elif variant == "later-call":
                q = q.where(own).where(corr)
            else:
                q = q.where(corr).where(own)
            q = q.orderby(pg.col(t))
            return q, pg, (0, 1, False, False, True)
        yield "foreign-where:%s" % variant, foreign

    # UPDATE (single, with FROM, with join), SET targets exempt
    def upd(kind):
        def build():
            pg = Prog()
            t, u = P.Table("t"), P.Table("u")
            q = qc.update(t)
            if kind == "from":
                q = q.from_(u)
            if kind == "join":
                q = q.join(u).on(pg.col(t) == pg.col(u))
            src2 = u if kind != "single" else t
            q = q.set(pg.col(t, exempt=True), pg.col(src2)).set(pg.col(None, exempt=True, via_str=True), 5).where(pg.col(t) == pg.col(src2))
            return q, pg, (1 if kind == "join" else 0, 1 if kind == "from" else 0, False, kind == "from", False)
        return build
    for kind in ("single", "from", "join"):
        yield "update:%s" % kind, upd(kind)

    # INSERT columns exempt; INSERT .. SELECT; upsert
    def ins():
        pg = Prog()
        t, u = P.Table("t"), P.Table("u")
        q = qc.into(t).columns(pg.col(t, exempt=True), pg.col(None, exempt=True, via_str=True)).from_(u).select(pg.col(u), pg.col(u)).where(pg.col(u) == 1)
        return q, pg, (0, 1, False, False, False)
    yield "insert-select", ins
    if qc in (P.Query, PostgreSQLQuery, SQLLiteQuery):
        def upsert():
            pg = Prog()
            t = P.Table("t")
            q = qc.into(t).columns(pg.col(None, exempt=True, via_str=True)).insert(1).on_conflict(pg.col(t, exempt=True)).do_update(pg.col(t, exempt=True), 2)
            return q, pg, (0, 0, False, False, False)
        yield "upsert", upsert

    def dele():
        pg = Prog()
        t = P.Table("t", alias="tt") if qc is not MySQLQuery else P.Table("t")
        q = qc.from_(t).delete().where(pg.col(t) == 1)
        return q, pg, (0, 1, False, False, False)
    yield "delete", dele
    if qc is PostgreSQLQuery:
        def ret(kind):
            def build():
                pg = Prog()
                t = P.Table("t")
                q = {"insert": lambda: qc.into(t).insert(1), "delete": lambda: qc.from_(t).delete(), "update": lambda: qc.update(t).set(pg.col(t, exempt=True), 1)}[kind]()
                q = q.returning(pg.col(t), pg.col(None, exempt=True, via_str=True) if kind == "insert" else pg.col(t))
                return q, pg, (0, 1 if kind == "delete" else 0, False, False, False)
            return build
        for kind in ("insert", "delete", "update"):
            yield "returning:%s" % kind, ret(kind)


def cases(run, rng):
    for qc in QUERY_CLASSES:
        ctx = qc.SQL_CONTEXT
        for label, build in programs(qc, rng, run.tier):
            try:
                q, pg, (nj, nf, sub0, updf, foreign) = build()
                s = q.get_sql(ctx)
            except Exception:
                continue
            if not isinstance(s, str) or s == "":
                continue
            known = None
            if label == "returning:update":
                known = "C11-pg-update-returning"
            expr = "j %s (multi %s %s %s %s %s) %s %s %s" % (ctx.dialect.name, cnat(nj), cnat(nf), cbool(sub0), cbool(updf), cbool(foreign), pg.coq(), clist(pg.stars, cstr), cstr(s))
            yield {"label": label.split("/")[0] if label.startswith("select") else label, "corr": [(q, [(QNAMES[qc], ctx, "inline")])], "expr": expr, "known": known,
                   "describe": {"class": QNAMES[qc], "program": label, "sql": s, "columns": [(c[0], c[1], c[2] if c[2] != "@sub" else c[4].alias, c[3]) for c in pg.cols]}}


def distinct_qualifiers():
    """'always by the right name': two row sources of one statement never share the name references are qualified with - automatic sub-query
    aliases included, however many un-aliased sub-queries the statement takes and through whichever of from_() / join() they come"""
    out = []
    for qc in QUERY_CLASSES:
        for n in (2, 3, 4):
            for shape in itertools.product(("from", "join"), repeat=n - 1):
                subs = [qc.from_(P.Table("s%d" % i)).select("a", "b") for i in range(n)]
                try:
                    q = qc.from_(subs[0])
                    for how, sub in zip(shape, subs[1:]):
                        q = q.from_(sub) if how == "from" else q.join(sub).on(T.Field("a", table=subs[0]) == T.Field("a", table=sub))
                    q = q.select(*[T.Field("b", table=x) for x in subs])
                    sql = q.get_sql(qc.SQL_CONTEXT)
                except Exception:
                    continue
                names = [x.alias for x in subs]
                if len(set(names)) != len(names) or any(a is None for a in names):
                    out.append(("C11: two row sources of one statement share the qualifier name %r (%s sub-queries added by %s under %s): %s"
                                % (names, n, "/".join(("from",) + shape), QNAMES[qc], sql[:300]),
                                {"kind": "duplicate-qualifier", "class": QNAMES[qc], "calls": ("from",) + shape, "aliases": names, "sql": sql}))
    return out


def check(run: core.Run):
    rng = random.Random(run.seed)
    stmtprop.run_statement_property(
        run, prop="C11", propfile="Props/C11.v", module="Props.C11", theorems=THEOREMS, header=HEADER, cases=cases(run, rng),
        what="the qualification rule", extra_targets=["Ref/Qualify.v"], extra_violations=distinct_qualifiers(),
        rule="every program gives each column reference a unique name and records its source (table name, alias, exempt position); the implementation's text is lexed in Coq and "
             "every occurrence of a marked column must carry exactly the qualifier of the rule (Ref.Qualify: the alias of an aliased source always; the table name iff more than "
             "one row source is in scope - joins, several FROM items, sub-query in FROM, UPDATE..FROM, a WHERE that refers to a table outside the sources; nothing in INSERT columns, "
             "SET targets, USING, conflict targets). Programs: FROM shape (6: plain, aliased, schema, aliased schema chain, sub-query, aliased sub-query) x optional JOIN..ON shape (6) "
             "x optional third source (JOIN..USING plain / aliased, second FROM item) x clause call orders, with columns in select / ON / WHERE / GROUP BY / HAVING / ORDER BY; "
             "self-join, CTE, correlated WHERE (one call / later call / first call), UPDATE (single / FROM / join), INSERT..SELECT, upsert, DELETE, RETURNING x 6 classes.",
        assumptions=["the source a column belongs to is what the harness attached it to"])


def replay(run, path):
    return stmtprop.generic_replay(run, path)

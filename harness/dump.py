"""Live pypika_tortoise object  ->  Gallina term of Model/Syntax.v.

Dispatch is on the *function objects* a class uses for rendering (type(x).get_sql etc.), so thin
subclasses map to their structural ancestor and a class with a renderer this file does not know
raises Unmodelled (fail closed).  Attribute sets are checked too: an object carrying an attribute
the model does not know about is not silently accepted.
"""
from __future__ import annotations

import json as _json
import uuid
from datetime import date, time
from decimal import Decimal
from enum import Enum

from coqemit import cstr, copt, cbool, cZ, cN, clist

import pypika_tortoise as P
from pypika_tortoise import terms as T, queries as Q, functions as F, enums as E
from pypika_tortoise.dialects.mysql import MySQLQueryBuilder, MySQLValueWrapper
from pypika_tortoise.dialects.postgresql import PostgreSQLQueryBuilder
from pypika_tortoise.dialects.sqlite import SQLLiteQueryBuilder, SQLLiteValueWrapper
from pypika_tortoise.dialects.mssql import MSSQLQueryBuilder
from pypika_tortoise.dialects.oracle import OracleQueryBuilder


class Unmodelled(Exception):
    pass


def need(c, msg):
    if not c:
        raise Unmodelled(msg)


ARITH = {"add": "Add", "sub": "Sub", "mul": "Mul", "div": "Div"}
EQ = {"eq": "Eq", "ne": "Ne", "gt": "Gt", "gte": "Gte", "lt": "Lt", "lte": "Lte"}
MATCH = {"not_like": "NotLike", "like": "Like", "not_ilike": "NotILike", "ilike": "ILike", "rlike": "RLike",
         "regex": "Regex", "bin_regex": "BinRegex", "as_of": "AsOf", "glob": "Glob"}
JSONOP = {"HAS_KEY": "JHasKey", "CONTAINS": "JContains", "CONTAINED_BY": "JContainedBy", "HAS_KEYS": "JHasKeys",
          "HAS_ANY_KEYS": "JHasAnyKeys", "GET_JSON_VALUE": "JGetJson", "GET_TEXT_VALUE": "JGetText",
          "GET_PATH_JSON_VALUE": "JGetPathJson", "GET_PATH_TEXT_VALUE": "JGetPathText"}
CONN = {"and_": "And", "or_": "Or", "xor_": "Xor"}
ORDER = {"asc": "Asc", "desc": "Desc"}
JOINT = {"inner": "JInner", "left": "JLeft", "right": "JRight", "outer": "JOuter", "left_outer": "JLeftOuter",
         "right_outer": "JRightOuter", "full_outer": "JFullOuter", "cross": "JCross", "hash": "JHash"}
SETOP = {"union": "Union", "union_all": "UnionAll", "intersect": "Intersect", "except_of": "ExceptOf", "minus": "Minus"}
BCLS = {Q.QueryBuilder: "BGeneric", MySQLQueryBuilder: "BMySQL", PostgreSQLQueryBuilder: "BPostgreSQL",
        SQLLiteQueryBuilder: "BSQLite", MSSQLQueryBuilder: "BMSSQL", OracleQueryBuilder: "BOracle"}
WCLS = {T.ValueWrapper.get_value_sql: "WPlain", MySQLValueWrapper.get_value_sql: "WMySQL",
        SQLLiteValueWrapper.get_value_sql: "WSQLite"}
WCLS_BY_CLASS = {T.ValueWrapper: "WPlain", MySQLValueWrapper: "WMySQL", SQLLiteValueWrapper: "WSQLite"}


def vid(v):
    """Identity text of a value recorded by a Parameterizer (compared between model and implementation)."""
    if isinstance(v, T.Node):
        return "node:%s" % type(v).__name__
    if isinstance(v, list):
        return "list:[" + ",".join(vid(x) for x in v) + "]"
    return "%s:%r" % (type(v).__name__, v)


def dump_value(v):
    if isinstance(v, Enum):
        if isinstance(v, E.DatePart):
            need(isinstance(v.value, str), "DatePart value")
            return "(VDatePart %s)" % cstr(v.value)
        return "(VEnum %s)" % dump_value(v.value)
    if isinstance(v, (date, time)):
        if isinstance(v, time):
            return "(VTime %s %s)" % (cstr(v.isoformat()), cstr(v.replace(tzinfo=None).isoformat()))
        return "(VIso %s)" % cstr(v.isoformat())
    if isinstance(v, str):
        return "(VStr %s)" % cstr(v)
    if isinstance(v, bool):
        return "(VBool %s)" % cbool(v)
    if isinstance(v, uuid.UUID):
        return "(VUuid %s)" % cstr(str(v))
    if isinstance(v, (dict, list)):
        return "(VDumped %s)" % cstr(_json.dumps(v))
    if v is None:
        return "VNone"
    if type(v) is int:
        return "(VInt %s)" % cZ(v)
    if isinstance(v, (float, Decimal)):
        return "(VNumText %s)" % cstr(str(v))
    return "(VOther %s)" % cstr(str(v))


def dump_json(v):
    if isinstance(v, dict):
        return "(JObj %s)" % clist(["(%s, %s)" % (dump_json(k), dump_json(x)) for k, x in v.items()])
    if isinstance(v, list):
        return "(JArr %s)" % clist([dump_json(x) for x in v])
    if isinstance(v, str):
        return "(JStr %s)" % cstr(v)
    if v is None:
        return "JNull"
    if isinstance(v, bool):
        return "(JBool %s)" % cbool(v)
    return "(JOther %s)" % cstr(str(v))


class Dumper:
    def __init__(self):
        self.oids = {}
        self.keep = []   # keep objects alive so that id() stays unique

    def oid(self, o):
        k = id(o)
        if k not in self.oids:
            self.oids[k] = len(self.oids)
            self.keep.append(o)
        return self.oids[k]

    # ---- references
    def schema_chain(self, sch):
        out = []
        while sch is not None:
            need(type(sch) in (Q.Schema, Q.Database), "schema class %s" % type(sch).__name__)
            need(isinstance(sch._name, str), "schema name")
            out.append(sch._name)
            sch = sch._parent
        return list(reversed(out))

    def tref(self, tb):
        if isinstance(tb, Q.Table):
            need(type(tb).get_table_name is Q.Table.get_table_name, "Table.get_table_name overridden")
            need(isinstance(tb._table_name, str), "table name not a str")
            need(tb.alias is None or isinstance(tb.alias, str), "alias type")
            return "(MkTRef true %s %s %s %d)" % (cstr(tb._table_name), clist(self.schema_chain(tb._schema), cstr),
                                                  copt(tb.alias), self.oid(tb))
        need(isinstance(tb, Q.Selectable), "Field.table is a %s" % type(tb).__name__)
        need(type(tb).get_table_name is Q.Selectable.get_table_name, "get_table_name overridden")
        need(tb.alias is None or isinstance(tb.alias, str), "alias type")
        return "(MkTRef false (@nil N) [] %s %d)" % (copt(tb.alias), self.oid(tb))

    def otref(self, tb):
        return "None" if tb is None else "(Some %s)" % self.tref(tb)

    def alias(self, x):
        a = getattr(x, "alias", None) if "alias" in getattr(x, "__dict__", {}) else None
        need(a is None or isinstance(a, str), "alias is a %s" % type(a).__name__)
        return copt(a)

    # ---- lists
    def terms(self, l):
        s = "TNil"
        for t in reversed(list(l)):
            s = "(TCons %s %s)" % (self.term(t), s)
        return s

    def oterm(self, t):
        return "NoT" if t is None else "(SomeT %s)" % self.term(t)

    def obys(self, l):
        s = "ONil"
        for f, o in reversed(list(l)):
            need(o is None or isinstance(o, E.Order), "order")
            s = "(OCons %s %s %s)" % (self.term(f), "None" if o is None else "(Some %s)" % ORDER[o.name], s)
        return s

    def cmpop(self, c):
        if isinstance(c, E.Equality):
            return "(CEq %s)" % EQ[c.name]
        if isinstance(c, E.Matching):
            return "(CMatch %s)" % MATCH[c.name]
        if isinstance(c, E.JSONOperators):
            return "(CJson %s)" % JSONOP[c.name]
        need(isinstance(c, Enum) and isinstance(c.value, str), "comparator %r" % (c,))
        return "(CRaw %s)" % cstr(c.value)

    # ---- DDL
    def colname(self, c):
        need(type(c) is Q.Column and isinstance(c.name, str), "column object")
        return cstr(c.name)

    def create(self, x):
        need(type(x).get_sql is Q.CreateQueryBuilder.get_sql, "CreateQueryBuilder.get_sql overridden")
        known = {"_create_table", "_temporary", "_unlogged", "_as_select", "_columns", "_period_fors", "_with_system_versioning", "_primary_key", "_uniques",
                 "_if_not_exists", "dialect"}
        need(set(x.__dict__) <= known, "CreateQueryBuilder attributes %s" % sorted(set(x.__dict__) - known))
        tb = x._create_table if x._create_table else None
        need(tb is None or isinstance(tb, Q.Table), "create target")
        cols = "KNil"
        for c in reversed(list(x._columns)):
            need(type(c) is Q.Column and isinstance(c.name, str), "column object")
            need(c.type is None or isinstance(c.type, str), "column type")
            need(c.nullable is None or isinstance(c.nullable, bool), "column nullable")
            need(c.default is None or isinstance(c.default, T.Term), "column default")
            need(c.default is None or bool(c.default) is True, "falsy default term")
            cols = "(KCons %s %s %s %s %s)" % (cstr(c.name), copt(c.type), "None" if c.nullable is None else "(Some %s)" % cbool(c.nullable),
                                               self.oterm(c.default), cols)
        pfs = []
        for pf in x._period_fors:
            need(type(pf) is Q.PeriodFor and isinstance(pf.name, str), "period_for object")
            pfs.append("(%s, %s, %s)" % (cstr(pf.name), self.colname(pf.start_column), self.colname(pf.end_column)))
        uniqs = [clist([self.colname(c) for c in u]) for u in x._uniques]
        pk = clist([self.colname(c) for c in (x._primary_key or [])])
        asel = x._as_select if x._as_select is not None else None
        need(asel is None or (isinstance(asel, Q.QueryBuilder) and bool(asel) is True), "as_select object")
        return "(TCreate %s %s %s %s %s %s %s %s %s %s)" % (self.oterm(tb), cbool(x._temporary), cbool(x._unlogged), cbool(x._if_not_exists),
                                                         cbool(x._with_system_versioning), cols, clist(pfs), clist(uniqs), pk, self.oterm(asel))

    # ---- terms
    def term(self, x):
        if isinstance(x, T.Interval):
            need(type(x).get_sql is T.Interval.get_sql, "Interval.get_sql overridden")
            if hasattr(x, "quarters"):
                a = [0] * 7 + [x.quarters, 0]
            elif hasattr(x, "weeks"):
                a = [0] * 7 + [0, x.weeks]
            else:
                a = [getattr(x, u, 0) for u in T.Interval.units] + [0, 0]
                need(x.largest is None or x.largest in T.Interval.labels, "largest")
                if x.is_negative:
                    i = T.Interval.labels.index(x.largest)
                    a[i] = -a[i]
            need(all(type(v) is int for v in a), "interval component types")
            return "(TInterval (MkIArgs %s))" % " ".join(cZ(v) for v in a)
        if isinstance(x, Q.Table):
            need(type(x).get_sql is Q.Table.get_sql, "Table.get_sql overridden")
            return "(TTable %s %s %s)" % (self.tref(x), self.oterm(x._for if x._for else None),
                                        self.oterm(x._for_portion if x._for_portion else None))
        if isinstance(x, Q.AliasedQuery):
            need(type(x).get_sql is Q.AliasedQuery.get_sql, "AliasedQuery.get_sql overridden")
            need(isinstance(x.name, str), "aliased name")
            return "(TAliased %s %s)" % (cstr(x.name), self.oterm(x.query))
        if isinstance(x, Q._SetOperation):
            return self.setop(x)
        if isinstance(x, Q.QueryBuilder):
            return "(TQuery %s)" % self.query(x)
        if isinstance(x, Q.CreateQueryBuilder):
            return self.create(x)
        if isinstance(x, Q.DropQueryBuilder):
            need(type(x).get_sql is Q.DropQueryBuilder.get_sql, "DropQueryBuilder.get_sql overridden")
            need(set(x.__dict__) <= {"_drop_table", "_if_exists", "dialect"}, "DropQueryBuilder attributes %s" % sorted(x.__dict__))
            tb = x._drop_table if x._drop_table else None
            need(tb is None or isinstance(tb, Q.Table), "drop target")
            return "(TDrop %s %s)" % (self.oterm(tb), cbool(x._if_exists))
        if type(x).__name__ == "MySQLLoadQueryBuilder":
            need(set(x.__dict__) <= {"_load_file", "_into_table"}, "MySQLLoadQueryBuilder attributes")
            need(x._load_file is None or isinstance(x._load_file, str), "load file")
            tb = x._into_table if x._into_table else None
            need(tb is None or isinstance(tb, Q.Table), "load target")
            return "(TLoad %s %s)" % (copt(x._load_file), self.oterm(tb))
        need(isinstance(x, T.Term), "not a term: %s" % type(x).__name__)
        g = type(x).get_sql
        al = self.alias(x)
        if g is T.Field.get_sql:
            need(isinstance(x.name, str), "field name type")
            return "(TField %s %s %s)" % (cstr(x.name), self.otref(x.table), al)
        if g is T.Star.get_sql:
            if x.table is not None and not isinstance(x.table, Q.Table):
                need(bool(x.table.alias), "Star over an un-aliased non-table selectable")
            return "(TStar %s %s)" % (self.otref(x.table), al)
        if g is T.Index.get_sql:
            return "(TIndex %s %s)" % (cstr(x.name), al)
        if g is T.ValueWrapper.get_sql:
            gv = type(x).get_value_sql
            need(gv in WCLS, "unknown get_value_sql")
            need(type(x).get_formatted_value.__func__ is T.ValueWrapper.get_formatted_value.__func__, "get_formatted_value overridden")
            if isinstance(x.value, T.Term):
                return "(TValTerm %s %s %s %s %s)" % (WCLS[gv], self.term(x.value), cstr(vid(x.value)), al, cbool(x.allow_parametrize))
            return "(TVal %s %s %s %s %s)" % (WCLS[gv], dump_value(x.value), cstr(vid(x.value)), al, cbool(x.allow_parametrize))
        if g is T.Negative.get_sql:
            return "(TNeg %s %s)" % (self.term(x.term), al)
        if g is T.ArithmeticExpression.get_sql:
            need(isinstance(x.operator, E.Arithmetic), "operator")
            need(type(x).left_needs_parens is T.ArithmeticExpression.left_needs_parens and
                 type(x).right_needs_parens is T.ArithmeticExpression.right_needs_parens, "parens rules overridden")
            return "(TArith %s %s %s %s)" % (ARITH[x.operator.name], self.term(x.left), self.term(x.right), al)
        if g is T.ComplexCriterion.get_sql:
            need(isinstance(x.comparator, E.Boolean) and x.comparator.name in CONN, "connective")
            need(type(x).needs_brackets is T.ComplexCriterion.needs_brackets, "needs_brackets overridden")
            return "(TComplex %s %s %s %s)" % (CONN[x.comparator.name], self.term(x.left), self.term(x.right), al)
        if g is T.BasicCriterion.get_sql:
            return "(TBasic %s %s %s %s)" % (self.cmpop(x.comparator), self.term(x.left), self.term(x.right), al)
        if g is T.NestedCriterion.get_sql:
            need(isinstance(x.nested_comparator, Enum) and isinstance(x.nested_comparator.value, str), "nested comparator")
            return "(TNested %s %s %s %s %s %s)" % (self.cmpop(x.comparator), cstr(x.nested_comparator.value),
                                                  self.term(x.left), self.term(x.right), self.term(x.nested), al)
        if g is T.Not.get_sql:
            return "(TNot %s %s)" % (self.term(x.term), al)
        if g is T.All.get_sql:
            return "(TAll %s %s)" % (self.term(x.term), al)
        if g is T.NullCriterion.get_sql:
            return "(TIsNull %s %s)" % (self.term(x.term), al)
        if g is T.ContainsCriterion.get_sql:
            return "(TContains %s %s %s %s)" % (self.term(x.term), self.term(x.container), cbool(x._is_negated), al)
        if g is T.BetweenCriterion.get_sql:
            return "(TBetween %s %s %s %s)" % (self.term(x.term), self.term(x.start), self.term(x.end), al)
        if g is T.PeriodCriterion.get_sql:
            return "(TPeriod %s %s %s %s)" % (self.term(x.term), self.term(x.start), self.term(x.end), al)
        if g is T.BitwiseAndCriterion.get_sql:
            need(isinstance(x.value, T.Node), "bitwise-and value is not a node")
            return "(TBitAnd %s %s %s)" % (self.term(x.term), self.term(x.value), al)
        if g is T.Case.get_sql:
            cs = "CNil"
            for c, t in reversed(list(x._cases)):
                cs = "(CCons %s %s %s)" % (self.term(c), self.term(t), cs)
            return "(TCase %s %s %s)" % (cs, self.oterm(x._else if x._else else None), al)
        if g is T.Function.get_sql:
            return self.function(x, al)
        if g is T.Array.get_sql:
            return "(TArray %s %s %s %s)" % (self.terms(x.values), cstr(vid(x.original_value)), cbool(any(isinstance(v, T.Node) for v in x.original_value)), al)
        if g is T.Tuple.get_sql:
            return "(TTuple %s %s)" % (self.terms(x.values), al)
        if g is T.JSON.get_sql:
            return "(TJson %s %s)" % (dump_json(x.value), al)
        if g is T.Values.get_sql:
            return "(TValues %s %s)" % (self.term(x.field), al)
        if g is T.LiteralValue.get_sql:
            need(isinstance(x._value, str), "literal value type")
            return "(TLiteral %s %s)" % (cstr(x._value), al)
        if g is T.PseudoColumn.get_sql:
            need(isinstance(x.name, str), "pseudo column name")
            return "(TPseudo %s %s)" % (cstr(x.name), al)
        if g is T.Parameter.get_sql:
            need(x._placeholder is None or isinstance(x._placeholder, str), "placeholder type")
            return "(TParam %s %s %s)" % (copt(x._placeholder), "None" if x._idx is None else "(Some %s)" % cN(x._idx), al)
        if g is T.AtTimezone.get_sql:
            need(isinstance(x.zone, str), "zone type")
            return "(TAtTZ %s %s %s %s)" % (self.term(x.field), cstr(x.zone), cbool(bool(x.interval)), al)
        raise Unmodelled("term class %s uses an unknown get_sql" % type(x).__name__)

    def function(self, x, al):
        cls = type(x)
        need(isinstance(x.name, str), "function name")
        gf = cls.get_function_sql
        noparens = False
        distinct = False
        filt = None
        over = "NoOver"
        chain = []  # which get_function_sql layers apply, from the MRO
        if gf is F.CurTimestamp.get_function_sql:
            noparens = True
        else:
            known = {T.Function.get_function_sql, T.AggregateFunction.get_function_sql, T.AnalyticFunction.get_function_sql,
                     F.DistinctOptionFunction.get_function_sql}
            for k in cls.__mro__:
                f = k.__dict__.get("get_function_sql")
                if f is not None:
                    need(f in known, "unknown get_function_sql in %s" % k.__name__)
                    chain.append(f)
            if F.DistinctOptionFunction.get_function_sql in chain:
                distinct = bool(x._distinct)
            if T.AggregateFunction.get_function_sql in chain:
                need(cls.get_filter_sql is T.AggregateFunction.get_filter_sql, "get_filter_sql overridden")
                if x._include_filter:
                    need(len(x._filters) > 0, "include_filter with no filters")
                    filt = T.Criterion.all(x._filters)
                else:
                    need(not x._filters, "filters without include_filter")
            if T.AnalyticFunction.get_function_sql in chain:
                gp = cls.get_partition_sql
                need(gp in (T.AnalyticFunction.get_partition_sql, T.WindowFrameAnalyticFunction.get_partition_sql), "get_partition_sql")
                frame = None
                if gp is T.WindowFrameAnalyticFunction.get_partition_sql and (x.frame or x.bound):
                    frame = x.get_frame_sql()
                if x._include_over:
                    for pt in x._partition:
                        need(hasattr(pt, "get_sql"), "partition term without get_sql")
                    over = "(Over %s %s %s)" % (self.terms(x._partition), self.obys(x._orderbys), copt(frame))
                else:
                    need(not x._partition and not x._orderbys, "partition without include_over")
        # special params
        gs = cls.get_special_params_sql
        sp, sp_from = "SpNone", "NoT"
        if gs is T.Function.get_special_params_sql:
            pass
        elif gs is T.IgnoreNullsAnalyticFunction.get_special_params_sql:
            if x._ignore_nulls:
                sp = "(SpText %s)" % cstr("IGNORE NULLS")
        elif gs is F.Extract.get_special_params_sql:
            sp_from = "(SomeT %s)" % self.term(x.field)
        elif gs in (F.Cast.get_special_params_sql, F.Convert.get_special_params_sql, F.ApproximatePercentile.get_special_params_sql):
            sp = "(SpText %s)" % cstr(x.get_special_params_sql(None))   # context-free text by construction
        else:
            raise Unmodelled("unknown get_special_params_sql in %s" % cls.__name__)
        for a in x.args:
            need(hasattr(a, "get_sql"), "function argument without get_sql")
        schema = "None" if x.schema is None else "(Some %s)" % clist(self.schema_chain(x.schema), cstr)
        return "(TFunc %s %s %s %s %s %s %s %s %s %s)" % (cstr(x.name), self.terms(x.args), sp, sp_from, cbool(distinct),
                                                        self.oterm(filt), over, cbool(noparens), schema, al)

    # ---- statements
    QB_ATTRS = {"alias", "_from", "_insert_table", "_update_table", "_delete_from", "_replace", "_with", "_selects", "_force_indexes",
                "_use_indexes", "_columns", "_values", "_distinct", "_for_update", "_for_update_nowait", "_for_update_skip_locked",
                "_for_update_of", "_wheres", "_prewheres", "_groupbys", "_with_totals", "_havings", "_orderbys", "_joins", "_unions",
                "_limit", "_offset", "_updates", "_select_star", "_select_star_tables", "_mysql_rollup", "_select_into",
                "_subquery_count", "_foreign_table", "wrap_set_operation_queries", "_wrapper_cls", "immutable", "_on_conflict",
                "_on_conflict_fields", "_on_conflict_do_nothing", "_on_conflict_do_updates", "_on_conflict_wheres",
                "_on_conflict_do_update_wheres"}
    EXTRA = {"BMySQL": {"_modifiers"}, "BPostgreSQL": {"_returns", "_return_star", "_distinct_on"}, "BMSSQL": {"_top"}}

    def query(self, q):
        need(type(q) in BCLS, "builder class %s" % type(q).__name__)
        cls = BCLS[type(q)]
        extra = set(q.__dict__) - self.QB_ATTRS - self.EXTRA.get(cls, set())
        need(not extra, "unknown builder attributes %r" % sorted(extra))
        need(q._wrapper_cls in WCLS_BY_CLASS, "wrapper class")
        need(q.alias is None or isinstance(q.alias, str), "query alias type")
        need(not q._unions, "_unions in use")
        fou = list(q._for_update_of)
        need(all(isinstance(s, str) for s in fou), "for_update_of")
        mods = list(q.__dict__.get("_modifiers", []))
        need(all(isinstance(s, str) for s in mods), "modifiers")
        top = q.__dict__.get("_top", None)
        need(top is None or type(top) is int, "top")
        fl = "(MkFl %s %s %s %s)" % (
            copt(q.alias),
            " ".join(cbool(bool(b)) for b in (q._delete_from, q._replace, q._distinct, q._for_update, q._for_update_nowait,
                                              q._for_update_skip_locked, q._with_totals, q._mysql_rollup, q._select_into,
                                              q._foreign_table, q._on_conflict, q._on_conflict_do_nothing,
                                              q.wrap_set_operation_queries)),
            "%s %s %s" % (clist(fou, cstr), clist(mods, cstr), "None" if top is None else "(Some %s)" % cZ(top)),
            WCLS_BY_CLASS[q._wrapper_cls])
        withs = "WNil"
        for w in reversed(list(q._with)):
            need(type(w) is Q.Cte and isinstance(w.alias, str) and w.query is not None, "cte")
            withs = "(WCons %s %s %s %s)" % (cstr(w.alias), self.term(w.query), self.terms(w.terms), withs)
        rows = "RNil"
        for r in reversed(list(q._values)):
            rows = "(RCons %s %s)" % (self.terms(r), rows)
        # _group_sql / _orderby_sql read .alias of every select, group-by and order-by item: an item
        # without that attribute (Parameter, Interval) makes the library raise AttributeError
        if q._groupbys or q._orderbys:
            for it in list(q._selects) + list(q._groupbys) + [f for f, _ in q._orderbys]:
                need("alias" in getattr(it, "__dict__", {}), "clause item without an alias attribute")
        # GROUP BY with the alias resolution of _group_sql
        sel_aliases = {s.alias for s in q._selects} if q._groupbys else set()
        gb = "GNil"
        for g in reversed(list(q._groupbys)):
            a = g.alias
            hit = None
            if a and a in sel_aliases:
                hit = next(s for s in q._selects if s.alias == a)
            gb = "(GCons %s %s %s)" % (self.term(g), self.oterm(hit), gb)
        joins = "JNil"
        for j in reversed(list(q._joins)):
            joins = "(JCons %s %s)" % (self.join(j), joins)
        upds = "UNil"
        for f, v in reversed(list(q._updates)):
            upds = "(UCons %s %s %s)" % (self.term(f), self.term(v), upds)
        cupds = "CUNil"
        for f, v in reversed(list(q._on_conflict_do_updates)):
            cupds = "(CUCons %s %s %s)" % (self.term(f), self.oterm(v if v else None), cupds)
        for f in q._on_conflict_fields:
            need(f is not None, "conflict field None")
        return "(MkQ %s %s %s)" % (cls, fl, " ".join([
            self.terms(q._from), withs, self.terms(q._selects), self.terms(q._force_indexes), self.terms(q._use_indexes),
            self.terms(q._columns), rows, self.oterm(q._wheres if q._wheres else None),
            self.oterm(q._prewheres if q._prewheres else None), self.oterm(q._havings if q._havings else None),
            gb, self.obys(q._orderbys), joins, self.oterm(q._limit), self.oterm(q._offset), upds,
            self.oterm(q._insert_table), self.oterm(q._update_table), self.terms(q._on_conflict_fields), cupds,
            self.oterm(q._on_conflict_wheres if q._on_conflict_wheres else None),
            self.oterm(q._on_conflict_do_update_wheres if q._on_conflict_do_update_wheres else None),
            self.terms(q.__dict__.get("_returns", [])), self.terms(q.__dict__.get("_distinct_on", []))]))

    def join(self, j):
        g = type(j).get_sql
        need(isinstance(j.how, E.JoinType), "join type")
        # JoinType has aliases by value (outer/full_outer): use the name that was declared
        hname = [n for n, m in E.JoinType.__members__.items() if m is j.how][0]
        need(hname in JOINT, "join type %s outside the model" % hname)
        how = JOINT[hname]
        if g is Q.JoinOn.get_sql:
            need(j.collate is None or isinstance(j.collate, str), "collate")
            return "(JOn %s %s %s %s)" % (self.term(j.item), how, self.term(j.criterion), copt(j.collate))
        if g is Q.JoinUsing.get_sql:
            return "(JUsing %s %s %s)" % (self.term(j.item), how, self.terms(j.fields))
        if g is Q.Join.get_sql:
            return "(JPlain %s %s)" % (self.term(j.item), how)
        raise Unmodelled("join class")

    def setop(self, s):
        need(type(s) is Q._SetOperation, "set operation class")
        need(isinstance(s.base_query, Q.QueryBuilder), "set operation base")
        ops = "SNil"
        for op, q in reversed(list(s._set_operation)):
            need(isinstance(op, E.SetOperation), "set operator")
            need(op.name in SETOP, "set operator %s outside the model" % op.name)
            ops = "(SCons %s %s %s)" % (SETOP[op.name], self.term(q), ops)
        need(s.alias is None or isinstance(s.alias, str), "setop alias")
        if s._orderbys:
            for it in list(s.base_query._selects) + [f for f, _ in s._orderbys]:
                need("alias" in getattr(it, "__dict__", {}), "clause item without an alias attribute")
        return "(TSetOp %s %s %s %s %s %s)" % (self.query(s.base_query), ops, self.obys(s._orderbys), self.oterm(s._limit),
                                             self.oterm(s._offset), copt(s.alias))


def dump(x):
    return Dumper().term(x)

"""Random construction of pypika_tortoise objects through the public API (structured, mostly valid).
Every random choice comes from the one random.Random handed in.  Fresh Table objects are made per
program (the library tags un-aliased sub-queries and self-joined tables in place)."""
from __future__ import annotations

import datetime
import decimal
import uuid

import pypika_tortoise as P
from pypika_tortoise import functions as fn, analytics as an, terms as T, queries as Q, pseudocolumns as PC
from pypika_tortoise.enums import DatePart, JoinType, Order, SqlTypes, Dialects
from pypika_tortoise.dialects import MSSQLQuery, MySQLQuery, OracleQuery, PostgreSQLQuery, SQLLiteQuery

QUERY_CLASSES = [P.Query, MySQLQuery, PostgreSQLQuery, SQLLiteQuery, MSSQLQuery, OracleQuery]
QNAMES = {P.Query: "Query", MySQLQuery: "MySQLQuery", PostgreSQLQuery: "PostgreSQLQuery", SQLLiteQuery: "SQLLiteQuery",
          MSSQLQuery: "MSSQLQuery", OracleQuery: "OracleQuery"}

SPECIAL_STRINGS = ["", "x", "it's", 'say "hi"', "back\\slash", "tick`tock", "a--b", "/*c*/", "?", "%s", "$1", "semi;colon",
                   "new\nline", "nul\x00byte", "üñí", "trail\\", "''", "\\'", "%", "_", "a'b\\c\"d`e", "*"]
# (a member added to the enum later is outside the model: nothing is claimed about it, the generator does not draw it)
MODELLED_JOIN_TYPES = ("inner", "left", "right", "outer", "left_outer", "right_outer", "full_outer", "cross", "hash")
NAMES = ["a", "b", "c", "id", "foo", "bar", "Mixed", "select", "sp ace", "d.ot"]
WEIRD_NAMES = ['we"ird', "ti`ck", "qu'ote", "ünï"]
ALIASES = ["x", "al", "y1", "Al As"]


class G:
    def __init__(self, rng, weird_names=False, special_values=True, max_depth=3):
        self.r = rng
        self.weird_names = weird_names
        self.special_values = special_values
        self.max_depth = max_depth
        self.tables = []
        self.tcount = 0

    # ---------------------------------------------------------------- leaves
    def name(self):
        if self.weird_names and self.r.random() < 0.3:
            return self.r.choice(WEIRD_NAMES)
        return self.r.choice(NAMES)

    def new_table(self, aliased=None, schema=None):
        r = self.r
        nm = r.choice(["t", "u", "v", "abc", "T2"]) if not (self.weird_names and r.random() < 0.2) else r.choice(WEIRD_NAMES)
        kw = {}
        if aliased if aliased is not None else r.random() < 0.25:
            kw["alias"] = r.choice(ALIASES) + str(self.tcount)
        if schema if schema is not None else r.random() < 0.15:
            kw["schema"] = r.choice(["s1", ["db", "s2"], Q.Schema("s3")])
        self.tcount += 1
        t = P.Table(nm, **kw)
        self.tables.append(t)
        return t

    def table(self):
        if self.tables and self.r.random() < 0.8:
            return self.r.choice(self.tables)
        return self.new_table()

    def field(self, tb=None):
        r = self.r
        if tb is None:
            tb = self.table() if r.random() < 0.85 else None
        f = T.Field(self.name(), table=tb)
        return f

    def pyvalue(self):
        r = self.r
        k = r.random()
        if k < 0.25:
            return r.choice([0, 1, 2, 7, 10, 42, -1, -5, 123456789012345678901234567890])
        if k < 0.5:
            return r.choice(SPECIAL_STRINGS) if self.special_values else r.choice(["x", "abc", "it's"])
        if k < 0.58:
            return r.choice([True, False])
        if k < 0.64:
            return None
        if k < 0.72:
            return r.choice([1.5, 0.1, 1e-05, 1e16, -2.25, 100.0])
        if k < 0.77:
            return decimal.Decimal(r.choice(["1.10", "0.001", "-3", "1E+2"]))
        if k < 0.82:
            return r.choice([datetime.date(2020, 1, 2), datetime.datetime(2020, 1, 2, 3, 4, 5),
                             datetime.datetime(2020, 1, 2, 3, 4, 5, 600, tzinfo=datetime.timezone.utc)])
        if k < 0.85:
            return r.choice([datetime.time(1, 2, 3), datetime.time(1, 2, 3, tzinfo=datetime.timezone.utc)])
        if k < 0.88:
            return uuid.UUID("12345678-1234-5678-1234-567812345678")
        if k < 0.92:
            return r.choice([DatePart.year, DatePart.day, Order.asc, JoinType.left, Dialects.MYSQL])
        if k < 0.97:
            return r.choice([{"a": 1}, {"k": "v'q", "n": [1, 2, None]}, [1, "two", {"x": True}], {"b\\s": "q\"d"}])
        return r.choice(["*", ""])

    def value(self, wrapper=None):
        """A wrapped constant, the way operators wrap their right operand."""
        v = self.pyvalue()
        if wrapper is not None and not isinstance(v, (list, tuple)) and v is not None:
            return wrapper(v)
        return T.Term.wrap_constant(v)

    def leaf(self):
        r = self.r
        k = r.random()
        if k < 0.5:
            return self.field()
        if k < 0.8:
            return self.value()
        if k < 0.84:
            if getattr(self, "no_period", False):
                return self.field()      # (a bare * as an operand: a / * would open a comment)
            return T.Star(self.table() if r.random() < 0.5 else None)
        if k < 0.87:
            return P.NULL if r.random() < 0.5 else T.LiteralValue(r.choice(["CURRENT_DATE", "DEFAULT", "X"]))
        if k < 0.9:
            return r.choice([PC.RowNum, PC.SysDate, T.PseudoColumn("COL")])
        if k < 0.93:
            return r.choice([P.Parameter("?"), P.Parameter(":1"), P.Parameter(idx=1), P.Parameter(idx=12), P.Parameter("%s")])
        if k < 0.96:
            return self.interval()
        return T.Index(self.name())

    def interval(self):
        r = self.r
        if r.random() < 0.15:
            return P.Interval(quarters=r.choice([1, 3, -2]))
        if r.random() < 0.15:
            return P.Interval(weeks=r.choice([1, 10, -4]))
        kw = {}
        for u in T.Interval.units:
            if r.random() < 0.3:
                kw[u] = r.choice([1, 2, 10, 100, 45])
        if kw and r.random() < 0.2:
            first = [u for u in T.Interval.units if u in kw][0]
            kw[first] = -kw[first]
        return P.Interval(**kw)

    def maybe_alias(self, t, p=0.2):
        if self.r.random() < p and hasattr(t, "as_") and isinstance(t, T.Term):
            nm = self.r.choice(ALIASES) if not (self.weird_names and self.r.random() < 0.3) else self.r.choice(WEIRD_NAMES)
            return t.as_(nm)
        return t

    # ---------------------------------------------------------------- terms
    def term(self, d=None, alias_p=0.15):
        r = self.r
        d = self.max_depth if d is None else d
        if d <= 0 or r.random() < 0.2:
            return self.maybe_alias(self.leaf(), alias_p)
        k = r.random()
        if k < 0.30:
            t = self.arith(d)
        elif k < 0.50:
            t = self.function(d)
        elif k < 0.58:
            t = self.case(d)
        elif k < 0.68:
            t = -self.term(d - 1)
        elif k < 0.86:
            t = self.criterion(d)
        elif k < 0.90:
            t = T.Tuple(*[self.term(d - 1) for _ in range(r.randint(0, 3))])
        elif k < 0.93:
            t = T.Array(*[self.term(d - 1) if r.random() < 0.3 else self.pyvalue_simple() for _ in range(r.randint(0, 3))])
        elif k < 0.95:
            t = T.Bracket(self.term(d - 1))
        elif k < 0.97:
            t = T.JSON(r.choice([{"a": 1}, {"k": "v'q\"z"}, [1, "x", [True, None]], "plain", {"n": {"m": [1.5]}}]))
        elif k < 0.985:
            t = T.AtTimezone(self.field() if r.random() < 0.7 else self.name(), r.choice(["UTC", "US/Eastern", "-06:00"]), interval=r.random() < 0.3)
        else:
            t = T.Values(self.field() if r.random() < 0.5 else self.name())
        return self.maybe_alias(t, alias_p)

    def pyvalue_simple(self):
        return self.r.choice([1, 2, "x", "y'z", 1.5, None, True])

    def arith(self, d):
        r = self.r
        a, b = self.term(d - 1), self.term(d - 1)
        if not isinstance(a, T.Term):
            a = self.field()
        op = r.choice("+-*/")
        if r.random() < 0.25:
            b = self.pyvalue_num()
        try:
            return {"+": lambda: a + b, "-": lambda: a - b, "*": lambda: a * b, "/": lambda: a / b}[op]()
        except Exception:
            return a

    def pyvalue_num(self):
        return self.r.choice([0, 1, 2, 5, -1, -3, 1.5, 10])

    def function(self, d):
        r = self.r
        k = r.random()
        a = lambda: self.term(d - 1)  # noqa
        if k < 0.25:
            f = r.choice([fn.Sum, fn.Count, fn.Avg, fn.Min, fn.Max, fn.Abs, fn.First, fn.StdDev])(a())
            if isinstance(f, fn.DistinctOptionFunction) and r.random() < 0.3:
                f = f.distinct()
            if r.random() < 0.25:
                f = f.filter(*[self.criterion(d - 1) for _ in range(r.randint(1, 2))])
            return f
        if k < 0.45:
            return r.choice([fn.Coalesce(a(), a()), fn.Lower(a()), fn.Upper(a()), fn.Length(a()), fn.Concat(a(), a(), a()),
                             fn.NullIf(a(), a()), fn.Substring(a(), 1, 2), fn.Floor(a()), fn.Sqrt(a()), fn.Now(), fn.CurTimestamp(),
                             fn.CurDate(), fn.IfNull(a(), a()), fn.ToChar(a(), "YYYY"), fn.Date(a()),
                             T.Function("my_fn", a(), 1, "s"), T.Pow(self.field(), 2), T.Mod(self.field(), 3)])
        if k < 0.55:
            return r.choice([fn.Cast(a(), SqlTypes.VARCHAR(10)), fn.Cast(a(), SqlTypes.INTEGER), fn.Cast(a(), "decimal(10,2)"),
                             fn.Signed(a()), fn.Convert(a(), _Enc.utf8), fn.ApproximatePercentile(a(), 0.5)])
        if k < 0.65:
            return fn.Extract(r.choice(list(DatePart)) if r.random() < 0.8 else "year", a())
        if k < 0.72:
            return r.choice([fn.DateAdd(DatePart.day, 1, a()), fn.TimestampAdd("day", 1, a()), fn.DateDiff("day", a(), a())])
        if k < 0.75:
            return T.Function("f", a(), schema=Q.Schema("sch"))
        # analytics
        f = r.choice([an.Rank, an.DenseRank, an.RowNumber])() if r.random() < 0.3 else \
            r.choice([an.Sum, an.Avg, an.Count, an.Min, an.Max, an.FirstValue, an.LastValue, an.NTile, an.Median, an.Lag, an.Lead])(a())
        if r.random() < 0.8:
            f = f.over(*[self.term(d - 1, 0.1) for _ in range(r.randint(0, 2))])
        if r.random() < 0.6:
            f = f.orderby(*[self.term(d - 1, 0.1) for _ in range(r.randint(1, 2))], order=r.choice([None, Order.asc, Order.desc]))
        if isinstance(f, T.WindowFrameAnalyticFunction) and r.random() < 0.4:
            if r.random() < 0.5:
                f = f.rows(an.Preceding(r.choice([None, 1, 5])), r.choice([None, an.Following(2), an.CURRENT_ROW]))
            else:
                f = f.range(an.Preceding(3))
        if isinstance(f, T.IgnoreNullsAnalyticFunction) and r.random() < 0.4:
            f = f.ignore_nulls()
        if r.random() < 0.15:
            f = f.filter(self.criterion(d - 1))
        return f

    def case(self, d):
        r = self.r
        c = P.Case()
        for _ in range(r.randint(1, 3)):
            c = c.when(self.criterion(d - 1), self.term(d - 1) if r.random() < 0.5 else self.pyvalue())
        if r.random() < 0.6:
            c = c.else_(self.term(d - 1) if r.random() < 0.5 else self.pyvalue())
        return c

    def criterion(self, d=None):
        r = self.r
        d = self.max_depth if d is None else d
        k = r.random()
        lhs = self.term(d - 1, 0.1) if d > 0 else self.field()
        if not isinstance(lhs, T.Term):
            lhs = self.field()
        rhs = (lambda: self.term(d - 1, 0.1) if r.random() < 0.5 else self.pyvalue())
        if d <= 0 or k < 0.35:
            op = r.choice(["==", "!=", "<", "<=", ">", ">="])
            x = rhs()
            return {"==": lambda: lhs == x, "!=": lambda: lhs != x, "<": lambda: lhs < x, "<=": lambda: lhs <= x,
                    ">": lambda: lhs > x, ">=": lambda: lhs >= x}[op]()
        if k < 0.55:
            a, b = self.criterion(d - 1), self.criterion(d - 1)
            return r.choice([lambda: a & b, lambda: a | b, lambda: a ^ b])()
        if k < 0.63:
            return ~self.criterion(d - 1)
        if k < 0.70:
            return lhs.isnull() if r.random() < 0.6 else lhs.notnull()
        if k < 0.78:
            c = lhs.isin([self.pyvalue_simple() for _ in range(r.randint(0, 3))]) if r.random() < 0.7 else lhs.isin([self.term(d - 1), 1])
            return c.negate() if r.random() < 0.3 else c
        if k < 0.84:
            return lhs.between(rhs(), rhs()) if r.random() < 0.8 else lhs[1:5]
        if k < 0.90:
            m = r.choice(["like", "not_like", "ilike", "not_ilike", "rlike", "regex", "bin_regex", "glob", "as_of"])
            return getattr(lhs, m)(r.choice(["a%", "_b", "x'y", "\\d+", "%"]))
        if k < 0.93:
            return lhs.bitwiseand(r.choice([1, 4, 255]))
        if k < 0.95:
            if getattr(self, "no_period", False):
                return lhs.between(rhs(), rhs())
            return lhs.from_to(rhs(), rhs())
        if k < 0.97:
            if getattr(self, "no_period", False):
                return lhs.isnull()      # (the JSON operators are PostgreSQL's; #> opens a comment in MySQL)
            j = self.field()
            return r.choice([lambda: j.get_json_value("k"), lambda: j.get_text_value(1), lambda: j.get_path_json_value("{a,b}"),
                             lambda: j.has_key("k"), lambda: j.contains({"a": 1}), lambda: j.has_keys(["a", "b"]),
                             lambda: j.has_any_keys(["a"]), lambda: j.contained_by('{"a": 1}'), lambda: j.get_path_text_value("{a}")])()
        if k < 0.985:
            return lhs.all_()
        return T.NestedCriterion(P.enums.Equality.eq, P.enums.Boolean.and_, self.field(), self.field(), self.field())

    # ---------------------------------------------------------------- statements
    def select_query(self, qcls=None, d=2, allow_sub=True, simple=False):
        r = self.r
        qcls = qcls or r.choice(QUERY_CLASSES)
        saved = self.tables
        self.tables = []
        try:
            # sources
            if allow_sub and d > 0 and r.random() < 0.2:
                src = self.select_query(qcls if r.random() < 0.7 else P.Query, d - 1, simple=True)
                if r.random() < 0.3:
                    src = src.as_("sub" + str(self.tcount))
                    self.tcount += 1
                q = qcls.from_(src)
                self.tables = [src]
            else:
                t = self.new_table()
                q = qcls.from_(t)
                if r.random() < 0.15:
                    q = q.from_(self.new_table())
            # CTE
            if allow_sub and d > 0 and r.random() < 0.12:
                inner = self.select_query(qcls, d - 1, allow_sub=False, simple=True)
                nm = "cte" + str(self.tcount)
                self.tcount += 1
                q = q.with_(inner, nm)
                aq = P.AliasedQuery(nm)
                if r.random() < 0.5:
                    q = q.from_(aq)
                    self.tables.append(aq)
            # joins
            for _ in range(r.choice([0, 0, 0, 1, 1, 2])):
                src0 = self.tables[0]
                if allow_sub and d > 0 and r.random() < 0.2:
                    item = self.select_query(qcls if r.random() < 0.7 else P.Query, d - 1, allow_sub=False, simple=True)
                else:
                    item = self.new_table()
                    self.tables.pop()
                how = r.choice([m for n, m in JoinType.__members__.items() if n in MODELLED_JOIN_TYPES])
                j = q.join(item, how)
                k = r.random()
                try:
                    if k < 0.6:
                        crit = T.Field(self.name(), table=src0) == T.Field(self.name(), table=item)
                        if r.random() < 0.3:
                            crit = crit & (T.Field(self.name(), table=item) > self.pyvalue_num())
                        q = j.on(crit, collate=r.choice([None, None, "utf8_bin"]))
                    elif k < 0.75:
                        q = j.using(self.name(), *([self.name()] if r.random() < 0.3 else []))
                    elif k < 0.9:
                        q = j.on_field(self.name())
                    else:
                        q = j.cross()
                    self.tables.append(item)
                except Exception:
                    pass
            # select list
            nsel = r.randint(1, 3)
            sels = []
            for _ in range(nsel):
                k = r.random()
                if k < 0.1:
                    sels.append("*")
                elif k < 0.2:
                    sels.append(self.name())
                elif k < 0.25:
                    sels.append(self.tables[0].star if hasattr(self.tables[0], "star") else "*")
                elif k < 0.35:
                    sels.append(self.pyvalue())
                else:
                    sels.append(self.term(1 if simple else d, 0.35))
            try:
                q = q.select(*sels)
            except Exception:
                q = q.select(self.field())
            if r.random() < 0.15:
                q = q.distinct()
            if not simple or r.random() < 0.5:
                for _ in range(r.choice([0, 1, 1, 2])):
                    c = self.criterion(1 if simple else d)
                    if allow_sub and d > 0 and r.random() < 0.15:
                        c = self.field().isin(self.select_query(qcls if r.random() < 0.7 else P.Query, d - 1, allow_sub=False, simple=True))
                    q = q.where(c)
                if r.random() < 0.3:
                    gs = [self.field() if r.random() < 0.6 else self.term(1, 0.4) for _ in range(r.randint(1, 2))]
                    if r.random() < 0.4 and q._selects:
                        gs.append(r.choice(q._selects))
                    try:
                        q = q.groupby(*gs)
                    except Exception:
                        pass
                    if r.random() < 0.4:
                        q = q.having(fn.Count("*") > r.randint(0, 5) if r.random() < 0.5 else self.criterion(1))
                    if r.random() < 0.1:
                        q = q.with_totals()
                if r.random() < 0.35:
                    os_ = [self.field() if r.random() < 0.6 else self.term(1, 0.3) for _ in range(r.randint(1, 2))]
                    if r.random() < 0.4 and q._selects:
                        os_.append(r.choice(q._selects))
                    try:
                        q = q.orderby(*os_, order=r.choice([None, Order.asc, Order.desc]))
                    except Exception:
                        pass
                if r.random() < 0.3:
                    q = q.limit(r.choice([0, 1, 10]))
                if r.random() < 0.25:
                    q = q.offset(r.choice([0, 5]))
                if r.random() < 0.08:
                    q = q.for_update(nowait=r.random() < 0.3, skip_locked=r.random() < 0.3, of=tuple(r.sample(["t", "u", "v"], r.randint(0, 2))))
                if r.random() < 0.06:
                    q = q.force_index("idx1", *(["idx2"] if r.random() < 0.4 else []))
                if r.random() < 0.06:
                    q = q.use_index("idx3")
                if r.random() < 0.05:
                    q = q.prewhere(self.criterion(1))
                if qcls is MySQLQuery and r.random() < 0.2:
                    q = q.modifier("SQL_CALC_FOUND_ROWS")
                if qcls is MSSQLQuery and r.random() < 0.2:
                    q = q.top(r.choice([1, 5]))
                if qcls is PostgreSQLQuery and r.random() < 0.15:
                    q = q.distinct_on(self.name(), *( [self.field()] if r.random() < 0.4 else []))
            return q
        finally:
            self.tables = saved + self.tables[:0]

    def dml_query(self, qcls=None, d=2):
        r = self.r
        qcls = qcls or r.choice(QUERY_CLASSES)
        saved = self.tables
        self.tables = []
        try:
            t = self.new_table(aliased=r.random() < 0.15)
            k = r.random()
            if k < 0.4:  # INSERT
                q = qcls.into(t)
                if r.random() < 0.6:
                    q = q.columns(*[self.name() for _ in range(r.randint(1, 3))])
                if r.random() < 0.75:
                    for _ in range(r.randint(1, 2)):
                        q = q.insert(*[self.pyvalue() if r.random() < 0.8 else self.term(1, 0.1) for _ in range(r.randint(1, 3))])
                    if r.random() < 0.3 and qcls in (PostgreSQLQuery, SQLLiteQuery, MySQLQuery, P.Query):
                        q = q.on_conflict(*[self.name() for _ in range(r.randint(0, 2))])
                        kk = r.random()
                        if kk < 0.4:
                            q = q.do_nothing()
                        elif q._on_conflict_fields or qcls is MySQLQuery:
                            for _ in range(r.randint(1, 2)):
                                q = q.do_update(self.name(), self.pyvalue() if r.random() < 0.6 else None)
                            if r.random() < 0.3 and q._on_conflict_fields:
                                q = q.where(T.Field(self.name(), table=t) > 1)
                        else:
                            q = q.do_nothing()
                else:
                    src = self.select_query(qcls, d - 1, simple=True)
                    q = q.from_(self.new_table()).select(self.field(), self.pyvalue_simple())
                if r.random() < 0.1:
                    q = qcls.into(t).replace(1, "x")
            elif k < 0.75:  # UPDATE
                q = qcls.update(t)
                for _ in range(r.randint(1, 3)):
                    q = q.set(self.name() if r.random() < 0.5 else T.Field(self.name(), table=t),
                              self.pyvalue() if r.random() < 0.7 else self.term(1, 0.1))
                if r.random() < 0.25:
                    u = self.new_table()
                    q = q.join(u).on(T.Field(self.name(), table=t) == T.Field(self.name(), table=u))
                if r.random() < 0.15:
                    q = q.from_(self.new_table())
                if r.random() < 0.7:
                    q = q.where(self.criterion(1))
                if r.random() < 0.15:
                    q = q.orderby(self.field(t))
                if r.random() < 0.15:
                    q = q.limit(r.choice([1, 5]))
            else:  # DELETE
                q = qcls.from_(t).delete()
                if r.random() < 0.8:
                    q = q.where(self.criterion(1))
                if r.random() < 0.15:
                    q = q.orderby(self.field(t)).limit(3)
            if qcls is PostgreSQLQuery and r.random() < 0.35:
                try:
                    q = q.returning(*[r.choice(["*", self.name(), T.Field(self.name(), table=t), T.Field(self.name(), table=t).as_("r"), 1])
                                      for _ in range(r.randint(1, 2))])
                except Exception:
                    pass
            return q
        finally:
            self.tables = saved

    def setop_query(self, qcls=None, d=1):
        r = self.r
        qcls = qcls or r.choice(QUERY_CLASSES)
        n = r.randint(1, 2)

        def mk():
            saved = self.tables
            self.tables = []
            try:
                t = self.new_table()
                q = qcls.from_(t).select(*[T.Field(self.name(), table=t) if r.random() < 0.8 else self.pyvalue_simple() for _ in range(n)])
                if r.random() < 0.5:
                    q = q.where(self.criterion(1))
                if r.random() < 0.15:
                    q = q.limit(3)
                return q
            finally:
                self.tables = saved
        s = getattr(mk(), r.choice(["union", "union_all", "intersect", "except_of", "minus"]))(mk())
        for _ in range(r.choice([0, 0, 1])):
            s = getattr(s, r.choice(["union", "union_all", "intersect", "except_of", "minus"]))(mk())
        if r.random() < 0.3:
            s = s.orderby(self.name(), order=r.choice([None, Order.desc]))
        if r.random() < 0.25:
            s = s.limit(r.choice([1, 10]))
        if r.random() < 0.2:
            s = s.offset(2)
        return s

    def statement(self, qcls=None, d=2):
        k = self.r.random()
        if k < 0.6:
            return self.select_query(qcls, d)
        if k < 0.88:
            return self.dml_query(qcls, d)
        return self.setop_query(qcls)


import enum  # noqa: E402


class _Enc(enum.Enum):
    utf8 = "utf8"

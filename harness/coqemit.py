"""Printing Python data as Gallina literals (the only glue between harness and model)."""
from __future__ import annotations


def cstr(s: str) -> str:
    """A Python str as a Gallina term of type `str` (= list N of code points)."""
    if s == "":
        return "(@nil N)"
    parts = []
    run = []

    def flush():
        if run:
            parts.append('(L "%s")' % "".join(run))
            run.clear()

    for ch in s:
        o = ord(ch)
        if 32 <= o <= 126 and ch != '"':
            run.append(ch)
        else:
            flush()
            parts.append("[%d%%N]" % o)
    flush()
    if len(parts) == 1:
        return parts[0]
    return "(" + " ++ ".join(parts) + ")"


def copt(x, f=cstr) -> str:
    return "None" if x is None else "(Some %s)" % f(x)


def cbool(b) -> str:
    return "true" if b else "false"


def cZ(z: int) -> str:
    return "(%d)%%Z" % z


def cN(n: int) -> str:
    assert n >= 0
    return "%d%%N" % n


def cnat(n: int) -> str:
    assert 0 <= n < 5000
    return "%d%%nat" % n


def clist(xs, f=lambda x: x) -> str:
    xs = [f(x) for x in xs]
    if not xs:
        return "[]"
    return "[" + "; ".join(xs) + "]"


def cpair(a, b) -> str:
    return "(%s, %s)" % (a, b)

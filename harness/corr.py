"""Correspondence of Model.Render.render with the implementation's get_sql, on dumped live objects.

For each object and each (context, parameterised?) pair the implementation is run through the
public API; the object is dumped to a Gallina term; a generated case file evaluates the model with
vm_compute and compares SQL text, parameter identity list and exception class by exact equality.
"""
from __future__ import annotations

import re

import core
from coqemit import cstr, cbool, clist
from dump import Dumper, Unmodelled, vid

from pypika_tortoise.context import SqlContext
from pypika_tortoise.terms import Parameterizer
from pypika_tortoise import exceptions as X
from pypika_tortoise.dialects import MSSQLQuery, MySQLQuery, OracleQuery, PostgreSQLQuery, SQLLiteQuery
from pypika_tortoise import Query

BASE_CTXS = [("Query", Query.SQL_CONTEXT), ("MySQLQuery", MySQLQuery.SQL_CONTEXT), ("PostgreSQLQuery", PostgreSQLQuery.SQL_CONTEXT),
             ("SQLLiteQuery", SQLLiteQuery.SQL_CONTEXT), ("MSSQLQuery", MSSQLQuery.SQL_CONTEXT), ("OracleQuery", OracleQuery.SQL_CONTEXT)]

EXN = {X.CaseException: "ECase", X.SetOperationException: "ESetOp", X.QueryException: "EQueryExn", AttributeError: "EAttr"}
SKIP_EXN = (TypeError, ValueError, RecursionError, KeyError, IndexError)

HEAD = ("From PT Require Import Base.Str Base.Codes Model.Types Model.Value Model.Interval Model.Syntax Model.Render.\n"
        "Open Scope N_scope.\n"
        "Definition exn_name (e : exn) : str := match e with ECase => L \"ECase\" | ESetOp => L \"ESetOp\" | EQueryExn => L \"EQueryExn\" | EAttr => L \"EAttr\" end.\n"
        "Fixpoint vals_eq (a b : list str) : bool := match a, b with [] , [] => true | x :: a', y :: b' => seqb x y && vals_eq a' b' | _, _ => false end.\n"
        "Definition judge (c : ctx * pz * term * str * list str) : N := let '(cx, p, t, exp, ev) := c in\n"
        "  match render cx p t with\n"
        "  | Ok (s, p') => b2n (seqb s exp && vals_eq (match p' with Some z => pz_vals z | None => [] end) ev)\n"
        "  | Exn e => b2n (seqb (L \"EXC:\" ++ exn_name e) exp)\n"
        "  end.\n")


JUDGE2 = ("Definition judge2 (c : ctx * pz * term * str * list str) : N := let '(cx, p, t, exp, ev) := c in\n"
          "  judge c + (match pcheck cx t exp (match p with Some _ => true | None => false end) ev with Some true => 6 | Some false => 4 | None => 0 end) + (if known t then 8 else 0).\n")


def ctx_coq(c: SqlContext) -> str:
    return "(MkCtx %s %s %s %s %s %s %s %s %s %s %s)" % (
        cstr(c.quote_char), cstr(c.secondary_quote_char), cstr(c.alias_quote_char), c.dialect.name,
        cbool(c.as_keyword), cbool(c.subquery), cbool(c.with_alias), cbool(c.with_namespace), cbool(c.subcriterion),
        cbool(c.groupby_alias), cbool(c.orderby_alias))


def pz_coq(mode):
    if mode == "inline":
        return "None"
    if mode == "param":
        return "(Some (MkPz None []))"
    if mode == "factory":
        return "(Some (MkPz (Some (PhNumbered %s)) []))" % cstr(":p")
    if mode == "qfactory":
        return "(Some (MkPz (Some (PhConst %s)) []))" % cstr("?")
    raise ValueError(mode)


def impl_render(obj, ctx, mode):
    """(sql or EXC:..., [vid...]) from the implementation; None when the object cannot be rendered for
    reasons outside the model (type misuse)."""
    pzr = None
    if mode == "param":
        pzr = Parameterizer()
    elif mode == "factory":
        pzr = Parameterizer(placeholder_factory=lambda i: ":p%d" % i)
    elif mode == "qfactory":
        pzr = Parameterizer(placeholder_factory=lambda i: "?")
    c = ctx.copy(parameterizer=pzr) if pzr is not None else ctx
    try:
        sql = obj.get_sql(c)
    except SKIP_EXN:
        return None
    except Exception as e:  # noqa
        for k, v in EXN.items():
            if isinstance(e, k):
                return "EXC:" + v, []
        return "EXC:Other:" + type(e).__name__, []
    if not isinstance(sql, str):
        return None
    return sql, ([vid(v) for v in pzr.values] if pzr is not None else [])


class Corr:
    def __init__(self, run: core.Run, prefix="corr", extra_import=None):
        self.run = run
        self.prefix = prefix
        self.extra_import = extra_import      # a specification module whose functions a `wrap` may apply to the dumped term
        self.items = []      # (objid, coq_term_text)
        self.cases = []      # (objid, ctxname, ctx, mode, exp_sql, exp_vals, meta)
        self.unmodelled = {}
        self.skipped_impl = 0

    # shapes the generators may legitimately produce outside the modelled fragment (counted in the evidence, not a broken tie)
    TOLERATED = ("clause item without an alias attribute",)

    def unexpected_unmodelled(self):
        return {k: v for k, v in self.unmodelled.items() if not k.startswith(self.TOLERATED)}

    def add(self, obj, ctx_modes, meta=None, ref=None, wrap=None):
        """ctx_modes: list of (name, SqlContext, mode). Returns list of (sql, vals) per ctx (None if skipped).
        ref: an object built with the explicit constructors that says which tree `obj` (built through a convenience API) IS; it is
        the one dumped, `obj` is the one rendered."""
        try:
            text = Dumper().term(obj if ref is None else ref)
        except Unmodelled as e:
            k = str(e)[:60]
            self.unmodelled[k] = self.unmodelled.get(k, 0) + 1
            return None
        except SKIP_EXN + (AttributeError,) as e:
            k = "dump error %s" % type(e).__name__
            self.unmodelled[k] = self.unmodelled.get(k, 0) + 1
            return None
        if wrap is not None:
            # the model term is a specification function applied to the dumped tree (e.g. Ref.Replace.rep old new <tree>)
            try:
                text = wrap(text)
            except Unmodelled as e:
                k = str(e)[:60]
                self.unmodelled[k] = self.unmodelled.get(k, 0) + 1
                return None
        oid = len(self.items)
        self.items.append((oid, text))
        outs = []
        for name, ctx, mode in ctx_modes:
            r = impl_render(obj, ctx, mode)
            if r is None:
                self.skipped_impl += 1
                outs.append(None)
                continue
            self.cases.append((oid, name, ctx, mode, r[0], r[1], meta))
            outs.append(r)
        return outs

    def evaluate(self, shard_objs=60, pcheck=None):
        """Returns (agree, errors): agree is a list aligned with self.cases of booleans (model agrees) or None when
        a case file could not be evaluated.  With pcheck = (imports, coq_text) defining
            pcheck : ctx -> term -> str -> bool -> list str -> option bool   (the property judged on the IMPLEMENTATION's text; parameterised?, value identities)
            known  : term -> bool                           (inside a listed known-finding class)
        self.verdicts[i] = dict(agree, pcheck: True/False/None (not applicable), known) is filled as well."""
        by_obj = {}
        for i, c in enumerate(self.cases):
            by_obj.setdefault(c[0], []).append(i)
        objs = [o for o, _ in self.items if o in by_obj]
        shards, index = [], []
        for s in range(0, len(objs), shard_objs):
            chunk = objs[s:s + shard_objs]
            head = HEAD if not self.extra_import else HEAD.replace("Model.Render.\n", "Model.Render %s.\n" % self.extra_import)
            lines = [head if pcheck is None else head.replace("Model.Render", "Model.Render %s" % pcheck[0], 1) + pcheck[1] + JUDGE2]
            idxs = []
            for o in chunk:
                lines.append("Definition t%d : term := %s." % (o, self.items[o][1]))
            lines.append("Definition cases : list (ctx * pz * term * str * list str) := [")
            ents = []
            for o in chunk:
                for i in by_obj[o]:
                    _, name, ctx, mode, sql, vals, _ = self.cases[i]
                    ents.append("(%s, %s, t%d, %s, %s)" % (ctx_coq(ctx), pz_coq(mode), o, cstr(sql), clist(vals, cstr)))
                    idxs.append(i)
            lines.append(";\n".join(ents))
            lines.append('].\nGoal True. idtac "@@CODES". Abort.\nEval vm_compute in (codes (map %s cases)).\n' % ("judge" if pcheck is None else "judge2"))
            nm = "%s_%04d" % (self.prefix, len(shards))
            shards.append((nm, "\n".join(lines)))
            index.append(idxs)
        res = core.run_shards(self.run.workdir, shards, timeout=1200)
        agree = [None] * len(self.cases)
        self.verdicts = [None] * len(self.cases)
        errors = []
        for (nm, _), idxs in zip(shards, index):
            rc, out = res[nm]
            codes = core.parse_codes(out) if rc == 0 else None
            if codes is None or len(codes) != len(idxs):
                errors.append("%s: rc=%s %s" % (nm, rc, out[-400:]))
                continue
            for i, c in zip(idxs, codes):
                v = ord(c) - 48
                agree[i] = bool(v & 1)
                self.verdicts[i] = {"agree": bool(v & 1), "pcheck": (bool(v & 2) if v & 4 else None), "known": bool(v & 8)}
        return agree, errors

    def debug_case(self, i):
        """What the model prints for case i (for replay files): (sql, [value ids]) or an EXC: text."""
        oid, name, ctx, mode, sql, vals, _ = self.cases[i]
        text = ((HEAD if not self.extra_import else HEAD.replace("Model.Render.\n", "Model.Render %s.\n" % self.extra_import)) +
                "Definition t : term := %s.\n" % self.items[oid][1] +
                "Definition r := render %s %s t.\n" % (ctx_coq(ctx), pz_coq(mode)) +
                'Goal True. idtac "@@SQL". Abort.\n'
                "Eval vm_compute in (match r with Ok (s, _) => s | Exn e => L \"EXC:\" ++ exn_name e end).\n"
                'Goal True. idtac "@@VALS". Abort.\n'
                "Eval vm_compute in (match r with Ok (_, Some z) => flat (map (fun v => v ++ [0]) (pz_vals z)) | _ => [] end).\n"
                'Goal True. idtac "@@END". Abort.\n')
        rc, out = core.coqc_text(self.run.workdir, "%s_dbg%d" % (self.prefix, i), text, timeout=300)
        m = re.search(r"@@SQL(.*?)@@VALS(.*?)@@END", out, re.S)
        if not m:
            return out[-800:]
        dec = lambda t: "".join(chr(int(x)) for x in re.findall(r"\d+", t.split(":")[0].replace("%N", "")))  # noqa
        sqlm = dec(m.group(1))
        valsm = [v for v in dec(m.group(2)).split("\x00") if v != ""] if dec(m.group(2)) else []
        return sqlm, valsm


def flag_variants(rng, base, n=2, query=False):
    """n random flag variations of a base context."""
    out = []
    for _ in range(n):
        kw = {}
        if rng.random() < 0.5:
            kw["with_alias"] = True
        if rng.random() < 0.4:
            kw["with_namespace"] = True
        if rng.random() < 0.4:
            kw["subquery"] = True
        if rng.random() < 0.2:
            kw["subcriterion"] = True
        if rng.random() < 0.15:
            kw["as_keyword"] = True
        if rng.random() < 0.1:
            kw["groupby_alias"] = False
        if rng.random() < 0.1:
            kw["orderby_alias"] = False
        out.append(base.copy(**kw))
    return out

"""Common flow for properties whose executable statement (defined on the specification side in Coq) is a relation between
implementation outputs: proofs, correspondence of Model.Render on the objects involved, the statement evaluated in Coq by
vm_compute on the IMPLEMENTATION's texts, known findings, verdict, evidence."""
from __future__ import annotations

import core
import corr as corr_mod


def run_statement_property(run, *, prop, propfile, module, theorems, header, cases, rule, assumptions=(), extra_targets=(),
                           what="the property's statement", extra_cov=None, extra_violations=(), corr_import=None):
    """cases: iterable of dicts with keys
         label      : str (site / generator label)
         corr       : list of (obj, [(ctxname, ctx, mode)]) to tie Model.Render to the implementation (may be empty)
         expr       : Coq term of type N : 1 = statement true, 0 = false, 2 = not applicable
         known      : id of the known-finding class the case lies in (or None)
         describe   : dict written to the replay file when the statement is false
    """
    proofs_ok = core.proof_stage(run, propfile, module, theorems, extra_targets=list(extra_targets) + ["Base/Codes.v", "Model/Render.v"])
    C = corr_mod.Corr(run, prop.lower(), extra_import=corr_import)
    exprs, meta, dist = [], [], {}
    for c in cases:
        for ent in c.get("corr", []):
            obj, cms = ent[0], ent[1]
            # (obj, ctx_modes[, ref, wrap]): ref is the object dumped (default obj), wrap a specification function applied to the dumped tree
            C.add(obj, cms, {"label": c["label"]}, ref=(ent[2] if len(ent) > 2 else None), wrap=(ent[3] if len(ent) > 3 else None))
        exprs.append(c["expr"])
        meta.append(c)
        k = c["label"].split(":")[0]
        dist[k] = dist.get(k, 0) + 1
    vals, errors = core.coq_eval(run, prop.lower() + "_stmt", header, exprs)
    agree, cerrors = C.evaluate(shard_objs=60)
    errors += cerrors
    fails, known_hit, napp, npass, nna, nknown_pass = [], {}, 0, 0, 0, 0
    for i, v in enumerate(vals):
        if v is None:
            continue
        if v == 2:
            nna += 1
            continue
        napp += 1
        if v == 1:
            npass += 1
            nknown_pass += 1 if meta[i].get("known") else 0
            continue
        k = meta[i].get("known")
        if k:
            known_hit.setdefault(k, i)
        else:
            fails.append(i)
    listed = {e["id"]: e for e in core.load_known(prop) if e.get("status") == "known"}
    for k, i in known_hit.items():
        if k in listed:
            run.known(listed[k]["what_fails"])
        else:
            fails.append(i)
    for i in sorted(fails)[:3]:
        c = meta[i]
        d = dict(c.get("describe", {}))
        d.update({"kind": "statement", "label": c["label"], "coq_expr": c["expr"][:6000]})
        run.violation("%s: %s is false on the implementation's output (%s): %s" % (prop, what, c["label"], str(c.get("describe", {}))[:500]), d)
    for what_, d in list(extra_violations)[:3]:
        run.violation(what_, d)
        fails.append(-1)
    mism = [i for i, a in enumerate(agree) if a is False]
    if not fails:
        if mism:
            i = mism[0]
            oid, name, ctx, mode, sql, vals_, m = C.cases[i]
            run.violation("correspondence Model.Render / implementation broken on %d cases (e.g. %s/%s: impl %r); %s held on every output examined"
                          % (len(mism), name, mode, sql[:200], what),
                          {"correspondence": "Model.Render.render vs get_sql", "context": name, "mode": mode, "impl_sql": sql, "impl_values": vals_,
                           "meta": m, "model": C.debug_case(i)}, found_input=False)
        elif C.unexpected_unmodelled():
            u = C.unexpected_unmodelled()
            run.violation("the model no longer covers what the generator builds: %d object(s) the dumper refuses (%s) - fail closed"
                          % (sum(u.values()), "; ".join("%s x%d" % kv for kv in list(u.items())[:4])),
                          {"correspondence": "harness/dump.py (live object -> Model.Syntax term)", "refused": u}, found_input=False)
        elif errors:
            run.violation("case files could not be evaluated: %s" % errors[0], {"errors": errors[:3]}, found_input=False)
        elif not proofs_ok:
            run.violation("proof obligation broken: %s" % "; ".join(run.broken), {"broken": run.broken, "theorems": theorems, "file": "coq/" + propfile},
                          found_input=False)
    samples = [{"label": meta[i]["label"], "describe": {k: (str(v)[:200]) for k, v in meta[i].get("describe", {}).items()}, "verdict": vals[i]}
               for i in (0, len(meta) // 2, len(meta) - 1) if 0 <= i < len(meta)]
    run.cov.update({"evaluations": len(exprs), "distinct_nontrivial": len({m["expr"] for m in meta}), "rule": rule, "samples": samples, "exhaustive": False,
                    "statement_applicable": napp, "statement_true": npass, "statement_not_applicable": nna, "statement_false_outside_known": len(fails),
                    "statement_false_in_known_class": sorted(known_hit), "statement_true_in_known_class": nknown_pass, "label_distribution": dist,
                    "model_objects": len(C.items), "model_cases": len(C.cases), "model_agrees": sum(1 for a in agree if a), "model_unmodelled": C.unmodelled,
                    "disagreements_checked": len(mism)})
    if callable(extra_cov):
        extra_cov = extra_cov()
    if extra_cov:
        run.cov.update(extra_cov)
    run.assumptions += list(assumptions)
    return C


def generic_replay(run, path):
    import json
    import shutil
    r = json.load(open(path))["replay"]
    print(json.dumps({k: v for k, v in r.items() if k != "coq_expr"}, indent=1)[:4000])
    shutil.rmtree(run.workdir, ignore_errors=True)
    return 0

"""Discovery of every @builder method of the live package, canned receivers with non-empty state,
canned well-typed arguments, and the observation function used by C01 / C15."""
from __future__ import annotations

import importlib
import inspect
import pkgutil

import pypika_tortoise as P
from pypika_tortoise import functions as fn, analytics as an, terms as T, queries as Q
from pypika_tortoise.enums import Order, JoinType
from pypika_tortoise.terms import Parameterizer
from pypika_tortoise.dialects import MSSQLQuery, MySQLQuery, OracleQuery, PostgreSQLQuery, SQLLiteQuery

QUERY_CLASSES = [P.Query, MySQLQuery, PostgreSQLQuery, SQLLiteQuery, MSSQLQuery, OracleQuery]
CTXS = [qc.SQL_CONTEXT for qc in QUERY_CLASSES]


# the derivation methods (wrapped by utils.builder) of the pinned commit: a method stays a derivation in the eyes of the property
# whatever decorator it carries later
KNOWN_DERIVATIONS = __import__("json").load(open(__import__("os").path.join(__import__("os").path.dirname(__import__("os").path.abspath(__file__)), "builder_names.json")))


def discover():
    """[(class, method name)] for every function wrapped by utils.builder, taken from the live modules."""
    out = []
    seen = set()
    for m in pkgutil.walk_packages(P.__path__, "pypika_tortoise."):
        mod = importlib.import_module(m.name)
        for _, c in inspect.getmembers(mod, inspect.isclass):
            if not c.__module__.startswith("pypika_tortoise") or c in seen:
                continue
            seen.add(c)
            for k, v in c.__dict__.items():
                if inspect.isfunction(v) and v.__qualname__ == "builder.<locals>._copy":
                    out.append((c, k))
                elif inspect.isfunction(v) and [c.__module__ + "." + c.__qualname__, k] in KNOWN_DERIVATIONS:
                    out.append((c, k))      # a derivation method of the pinned commit that is no longer wrapped by @builder: still a derivation
    return sorted(out, key=lambda ck: (ck[0].__module__, ck[0].__name__, ck[1]))


def all_classes():
    out = []
    for m in pkgutil.walk_packages(P.__path__, "pypika_tortoise."):
        mod = importlib.import_module(m.name)
        for _, c in inspect.getmembers(mod, inspect.isclass):
            if c.__module__.startswith("pypika_tortoise") and c not in out:
                out.append(c)
    return out


# ---------------------------------------------------------------------------------------------
# observation

def _vid(v):
    if isinstance(v, T.Node):
        return "node:" + type(v).__name__
    if isinstance(v, (list, tuple)):
        return "[" + ",".join(_vid(x) for x in v) + "]"
    return "%s:%r" % (type(v).__name__, v)


def observe(o):
    """Everything the property lets a user see of an object: SQL in the six dialect contexts, inline
    and parameterised (with the value list), and the metadata accessors."""
    out = []
    ctxs = CTXS if isinstance(o, (Q.QueryBuilder, Q._SetOperation)) or not isinstance(o, T.Term) else \
        CTXS + [c.copy(with_namespace=True, with_alias=True) for c in CTXS[:2]]
    for c in ctxs:
        for par in (False, True):
            try:
                if par:
                    pz = Parameterizer()
                    s = o.get_sql(c.copy(parameterizer=pz))
                    out.append((s, tuple(_vid(v) for v in pz.values)))
                else:
                    out.append(o.get_sql(c))
            except Exception as e:  # noqa
                out.append("EXC:" + type(e).__name__)
    d = getattr(o, "__dict__", {})
    out.append(("alias", d.get("alias")))
    for acc in ("tables_", "fields_", "is_aggregate"):
        if isinstance(o, T.Term) or (acc == "is_aggregate" and isinstance(o, T.Node)):
            try:
                v = getattr(o, acc)
                v = v() if callable(v) and acc == "fields_" else v
                if isinstance(v, (set, list, frozenset)):
                    v = tuple(sorted(str(x) for x in v))
                out.append((acc, v if isinstance(v, (tuple, bool, type(None))) else str(v)))
            except Exception as e:  # noqa
                out.append((acc, "EXC:" + type(e).__name__))
    return tuple(out)


def observe_mod_alias(o):
    """Observation of an argument object with its own alias masked (the permitted side effect)."""
    d = getattr(o, "__dict__", None)
    if d is None or "alias" not in d:
        return observe(o)
    saved = d["alias"]
    try:
        d["alias"] = "__masked__"
        return observe(o)
    finally:
        d["alias"] = saved


# ---------------------------------------------------------------------------------------------
# receivers

def T_(n="t", **kw):
    return P.Table(n, **kw)


def sel(qc=P.Query, extra=True):
    t, u = T_("t"), T_("u")
    q = qc.from_(t).select(t.a, fn.Sum(t.b).as_("s")).where(t.c == 1)
    if extra:
        q = (q.join(u).on(t.id == u.tid).groupby(t.a).having(fn.Count("*") > 1).orderby(t.a, order=Order.desc)
             .limit(10).offset(2).force_index("i0").use_index("i1").distinct().prewhere(t.p == 0)
             .for_update(of=("t",)).with_(P.Query.from_(T_("w")).select("x"), "cte0"))
    return q


def ins(qc=P.Query, conflict=False):
    t = T_("t")
    q = qc.into(t).columns("a", "b").insert(1, "x")
    if conflict:
        q = q.on_conflict("a").do_update("b", 2)
    return q


def upd(qc=P.Query):
    t = T_("t")
    return qc.update(t).set(t.a, 1).where(t.b == 2)


def dele(qc=P.Query):
    t = T_("t")
    return qc.from_(t).delete().where(t.a == 1)


def setop():
    t, u = T_("t"), T_("u")
    return P.Query.from_(t).select(t.a).union(P.Query.from_(u).select(u.a)).orderby("a").limit(3).offset(1)


def receivers(cls, name):
    """Factories of receivers on which cls.name can be called; each call builds fresh objects."""
    t = lambda: T_("t")  # noqa
    R = []
    if cls is Q.QueryBuilder or (issubclass(cls, Q.QueryBuilder) and cls is not Q.QueryBuilder):
        qcs = QUERY_CLASSES if cls is Q.QueryBuilder else [qc for qc in QUERY_CLASSES if type(qc._builder()) is cls]
        for qc in qcs:
            R.append(lambda qc=qc: sel(qc))
            if name == "replace_table":
                # rows whose values mention the table that is being replaced; SET / RETURNING / conflict targets too
                def insv(qc=qc):
                    t0 = T_("t", alias="ta")      # aliased: references are printed qualified, so a replacement is visible
                    return qc.into(t0).columns("a", "b").insert(fn.Coalesce(t0.x, 1), t0.y + 1).insert(2, fn.Max(t0.z))
                R.append(insv)
                # a WITH body that reads the table being replaced (the Cte objects are shared between a builder and its copies)
                R.append(lambda qc=qc: qc.with_(qc.from_(T_("t", alias="ta")).select("x").where(T_("t", alias="ta").y == 1), "c0")
                         .from_(T_("t", alias="ta")).select("a"))
                R.append(lambda qc=qc: upd(qc))
                R.append(lambda qc=qc: dele(qc))
                R.append(lambda qc=qc: ins(qc, True))
                if qc is PostgreSQLQuery:
                    # the clauses only the PostgreSQL builder has, holding columns of the replaced table where they are printed qualified
                    def pgret(qc=qc):
                        t0 = T_("t", alias="ta")
                        return qc.update(t0).set(t0.a, 1).where(t0.b == 2).returning(t0.c, (t0.d + 1).as_("r"))
                    def pgdist(qc=qc):
                        t0 = T_("t", alias="ta")
                        return qc.from_(t0).join(T_("u")).on(t0.a == T_("u").a).select(t0.a).distinct_on(t0.b, T_("u").c)
                    R.append(pgret)
                    R.append(pgdist)
            if name in ("columns", "insert", "replace", "on_conflict", "do_update", "do_nothing", "where", "returning", "select", "from_"):
                R.append(lambda qc=qc: ins(qc))
                R.append(lambda qc=qc: ins(qc, True))
                R.append(lambda qc=qc: qc.into(T_("t")).insert(1).on_conflict("a"))
            if name in ("set", "where", "join", "from_", "returning", "orderby", "limit"):
                R.append(lambda qc=qc: upd(qc))
            if name in ("where", "returning", "orderby", "limit"):
                R.append(lambda qc=qc: dele(qc))
            if name in ("from_", "join"):
                R.append(lambda qc=qc: qc.from_(qc.from_(T_("i0")).select("a")).select("a"))     # already holds an automatically aliased sub-query (sq0)
            if name in ("into", "update", "delete", "from_", "select", "with_", "rollup", "groupby"):
                R.append(lambda qc=qc: qc.from_(T_("t")))
                R.append(lambda qc=qc: qc.from_(T_("t")).select("a").groupby("a").rollup(T.Field("b")))
                R.append(lambda qc=qc: qc._builder())
        return R
    if cls is Q._SetOperation:
        return [setop]
    if cls is Q.CreateQueryBuilder:
        return [lambda: P.Query.create_table("x").columns("a", ("b", "INT")).unique("a").period_for("p", "s", "e").primary_key("a"),
                lambda: P.Query.create_table("x"), lambda: Q.CreateQueryBuilder(),
                lambda: P.Query.create_table("x").as_select(P.Query.from_(T_("t")).select("a"))]
    if cls is Q.DropQueryBuilder:
        return [lambda: P.Query.drop_table("x"), lambda: Q.DropQueryBuilder()]
    from pypika_tortoise.dialects.mysql import MySQLLoadQueryBuilder
    if cls is MySQLLoadQueryBuilder:
        return [lambda: MySQLQuery.load("f0").into("t0"), lambda: MySQLLoadQueryBuilder()]
    if cls in (Q.Join, Q.JoinOn, Q.JoinUsing):
        def mk(kind):
            t0, u0 = T_("t"), T_("u")
            j = P.Query.from_(t0).join(u0)
            q = {"on": lambda: j.on(t0.a == u0.a), "using": lambda: j.using("a"), "cross": lambda: j.cross()}[kind]()
            return q._joins[0]
        return {Q.Join: [lambda: mk("cross")], Q.JoinOn: [lambda: mk("on")], Q.JoinUsing: [lambda: mk("using")]}[cls]
    if cls is Q.Selectable:
        return [lambda: T_("t"), lambda: T_("t", alias="x"), lambda: sel(extra=False), setop, lambda: P.AliasedQuery("aq")]
    if cls is Q.Table:
        return [lambda: T_("t"), lambda: T_("t", schema="s", alias="x")]
    tt = T_("t")
    if cls is T.Term:
        return [lambda: T_("t").a, lambda: T_("t").a + 1, lambda: fn.Sum(T_("t").a), lambda: P.Case().when(T_("t").a == 1, 2),
                lambda: T.ValueWrapper(5), lambda: (T_("t").a == 1) & (T_("t").b == 2), lambda: ~(T_("t").a == 1), lambda: -T_("t").a,
                lambda: T.Tuple(1, 2), lambda: T.Array(1, 2), lambda: T_("t").a.isin([1]), lambda: T_("t").a.between(1, 2),
                lambda: T_("t").a.isnull(), lambda: T.JSON({"a": 1}), lambda: an.Rank().over(T_("t").a), lambda: T.Star(T_("t")),
                lambda: T_("t").a.as_("pre"), lambda: T.LiteralValue("X"), lambda: T.AtTimezone("a", "UTC"), lambda: P.NullValue()]
    if cls is fn.DistinctOptionFunction:
        return [lambda: fn.Count(T_("t").a), lambda: fn.Sum(T_("t").a).distinct()]
    if cls is T.AggregateFunction:
        return [lambda: fn.Sum(T_("t").a).filter(T_("t").b == 1), lambda: fn.Max(T_("t").a), lambda: an.Sum(T_("t").a).filter(T_("t").b == 1)]
    if cls is T.AnalyticFunction:
        return [lambda: an.Rank().over(T_("t").a).orderby(T_("t").b), lambda: an.Sum(T_("t").a), lambda: an.FirstValue(T_("t").a).over(T_("t").c)]
    if cls is T.WindowFrameAnalyticFunction:
        return [lambda: an.Sum(T_("t").a).over(T_("t").b), lambda: an.FirstValue(T_("t").a)]
    if cls is T.IgnoreNullsAnalyticFunction:
        return [lambda: an.FirstValue(T_("t").a).over(T_("t").b), lambda: an.LastValue(T_("t").a)]
    if cls is T.Case:
        return [lambda: P.Case().when(T_("t").a == 1, 1).else_(0), lambda: P.Case(), lambda: P.Case().when(T_("t").a == 1, T_("t").b)]
    if cls is T.ContainsCriterion:
        return [lambda: T_("t").a.isin([1, 2]), lambda: T_("t").a.isin(P.Query.from_(T_("t")).select("b"))]
    # replace_table of the criterion / term classes
    def tb():  # noqa
        return T_("t")
    M = {T.ArithmeticExpression: lambda: (lambda x: x.a + x.b * 2)(tb()), T.BasicCriterion: lambda: (lambda x: x.a == x.b)(tb()),
         T.BetweenCriterion: lambda: (lambda x: x.a.between(x.b, 3))(tb()), T.BitwiseAndCriterion: lambda: tb().a.bitwiseand(4),
         T.Field: lambda: tb().a, T.Function: lambda: (lambda x: fn.Coalesce(x.a, x.b, 0))(tb()),
         T.NestedCriterion: lambda: (lambda x: T.NestedCriterion(P.enums.Equality.eq, P.enums.Boolean.and_, x.a, x.b, x.c))(tb()),
         T.Not: lambda: ~(tb().a == 1), T.NullCriterion: lambda: tb().a.isnull(), T.Tuple: lambda: (lambda x: T.Tuple(x.a, x.b, 1))(tb())}
    if cls in M:
        return [M[cls]]
    return []


# ---------------------------------------------------------------------------------------------
# arguments (k = 0,1,2 gives three different argument sets; fresh objects each time)

def extra_args(cls, name, recv):
    """further (call, argument objects) variants for the methods that take row sources: explicitly aliased arguments of every kind"""
    out = []
    if not isinstance(recv, Q.QueryBuilder):
        return out
    def mk_sources():
        a, b = T_("pa"), T_("pb")
        return [(P.Query.from_(a).select("x") + P.Query.from_(b).select("x")).as_("people"),          # an aliased set operation
                P.Query.from_(a).select("x").union(P.Query.from_(b).select("x")).as_("sq0"),            # ... whose alias looks automatic
                P.Query.from_(a).select("x").as_("mine"), P.AliasedQuery("cte_x"), T_("pc", alias="pcx")]
    if name == "do_update" and getattr(recv, "_on_conflict", False):
        # a column given as a Field OBJECT without a table (not a str); the same object is held by a statement built earlier (with a join: qualifiers print)
        f0 = T.Field("qty")
        earlier = P.Query.from_(T_("pa")).join(T_("pb")).on(T_("pa").k == T_("pb").k).select(f0, T_("pb").v)   # noqa: F841  (kept alive through f0's observers)
        out.append(((lambda r, f0=f0: r.do_update(f0, 5)), [f0, earlier]))
    if name == "from_":
        for src in mk_sources():
            out.append(((lambda r, src=src: r.from_(src)), [src]))
    if name == "join":
        for src in mk_sources():
            def f(r, src=src):
                base = r._from[0] if r._from else (r._update_table or src)
                return r.join(src).on(T.Field("a", table=base) == T.Field("x", table=src))
            out.append((f, [src]))
        # an un-aliased table that shares only its NAME with the receiver's first source (another schema): not a self-join
        base0 = recv._from[0] if recv._from else recv._update_table
        if isinstance(base0, Q.Table):
            for sch in (["other"], ["db", "other"]) if base0._schema is None else ([None, "other"]):
                src = Q.Table(base0._table_name, schema=sch)
                out.append(((lambda r, src=src, base0=base0: r.join(src).on(T.Field("a", table=base0) == T.Field("x", table=src))), [src]))
        # the very object the receiver already joins, joined again the same way (the Join objects are shared between a builder and its copies)
        for j in list(getattr(recv, "_joins", []))[:2]:
            if isinstance(j, Q.JoinOn) and base0 is not None:
                def g(r, j=j, base0=base0):
                    return r.join(j.item, j.how).on(T.Field("b2", table=base0) == T.Field("y2", table=j.item))
                out.append((g, [j.item]))
    return out


def args_for(cls, name, recv, k):
    """Returns (callable taking the receiver and performing the call, list of argument objects)."""
    t, u = T_("t"), T_("u%d" % k)
    crit = [t.x == k, (t.y > k) & (u.z < 5), t.w.isin([k, 9])][k % 3]
    objs = []

    def call(*a, **kw):
        objs.extend([x for x in a if hasattr(x, "__dict__")])
        return (lambda r: getattr(r, name)(*a, **kw)), objs

    if name in ("distinct", "delete", "do_nothing", "with_totals", "temporary", "unlogged", "with_system_versioning", "if_not_exists",
                "if_exists", "negate", "ignore_nulls"):
        return call()
    if name == "as_":
        return call("al%d" % k)
    if name == "replace_table":
        old = None
        if isinstance(recv, Q.QueryBuilder) and (recv._from or recv._insert_table or recv._update_table):
            old = recv._from[0] if recv._from else (recv._insert_table or recv._update_table)
        elif isinstance(recv, T.Term):
            ts = [f.table for f in recv.fields_() if f.table is not None]
            old = ts[0] if ts else T_("t")
        elif isinstance(recv, Q.Join):
            old = recv.item
        return call(old if k != 2 else T_("zz"), T_("n%d" % k))
    if name in ("where", "having", "prewhere", "for_"):
        return call(crit)
    if name == "for_portion":
        return call(t.valid.from_to(k, k + 1))
    if name == "select":
        return call(*[[t.s0, 5], [fn.Max(t.s1).as_("m"), "s2"], ["*"]][k])
    if name in ("groupby", "over", "distinct_on"):
        return call(*[[t.g0], [t.g1, t.g2], ["g3"] if name != "over" else [t.g3]][k])
    if name == "orderby":
        if isinstance(recv, Q._SetOperation):
            return call(["o0", "o1", "o2"][k], order=[None, Order.asc, Order.desc][k])
        return call(*[[t.o0], [t.o1, t.o2], [t.o3 + 1]][k], order=[None, Order.asc, Order.desc][k])
    if name in ("limit", "offset", "fetch_next", "top"):
        return call([3, 0, 17][k])
    if name == "slice":
        return call([slice(1, 5), slice(None, 7), slice(2, None)][k])
    if name == "from_":
        if k == 1:
            return call(P.Query.from_(T_("inner")).select("a"))     # un-aliased sub-query: gets sq<n> (permitted)
        if k == 2:
            return call(P.Query.from_(T_("inner2")).select("b").as_("sq0"))   # an alias the caller chose (even one that looks automatic) stays
        return call(u)
    if name == "join":
        item = [u, T_("t"), P.Query.from_(T_("j")).select("a")][k]   # k=1: self join (permitted alias), k=2: sub-query
        objs.append(item)
        def f(r):  # noqa
            j = r.join(item, [JoinType.inner, JoinType.left, JoinType.cross][k])
            if k == 2:
                return j.cross()
            base = r._from[0] if r._from else (r._update_table or item)
            return j.on(T.Field("a", table=base) == T.Field("b", table=item))
        return f, objs
    if name == "with_":
        return call(P.Query.from_(T_("c%d" % k)).select("a"), "cte%d" % k)
    if name in ("into", "update", "create_table", "drop_table"):
        if cls.__name__ == "MySQLLoadQueryBuilder":
            return call("tab%d" % k)
        return call(T_("tab%d" % k) if k else "tab0")
    if name == "columns":
        if cls is Q.CreateQueryBuilder:
            return call(*[["c0"], [("c1", "INT")], [Q.Column("c2", "TEXT", nullable=True, default="d")]][k])
        return call(*[["c0"], ["c1", "c2"], [t.c3]][k])
    if name in ("insert", "replace"):
        return call(*[[1, "a"], [(2, "b"), (3, "c")], [None, True]][k])
    if name == "set":
        return call(*[["f0", 1], [t.f1, "v"], [t.f2, t.f3 + 1]][k])
    if name == "on_conflict":
        return call(*[["a"], ["a", t.b], []][k])
    if name == "do_update":
        return call(*[["a", 1], ["b"], [t.c, "x"]][k])
    if name == "for_update":
        return call(**[{}, {"nowait": True}, {"skip_locked": True, "of": ("x", "y")}][k])
    if name in ("force_index", "use_index"):
        return call(*[["ix0"], ["ix1", "ix2"], [T.Index("ix3")]][k])
    if name in ("union", "union_all", "intersect", "except_of", "minus"):
        n = len(recv.base_query._selects) if isinstance(recv, Q._SetOperation) else len(recv._selects)
        other = P.Query.from_(u).select(*[T.Field("c%d" % i, table=u) for i in range(max(n, 1))])
        return call(other)
    if name == "rollup":
        return call(*[[t.r0], [t.r1, t.r2], [[t.r3, t.r4]]][k])
    if name == "returning":
        return call(*[["a"], ["*"], [t.b, "c"]][k])
    if name == "modifier":
        return call("MOD%d" % k)
    if name == "period_for":
        return call("p%d" % k, "s%d" % k, "e%d" % k)
    if name in ("unique", "primary_key"):
        return call(*[["k0"], ["k1", "k2"], [Q.Column("k3", "INT", nullable=True)]][k])   # a Column OBJECT with every attribute set: the call may not normalise it
    if name == "as_select":
        return call(P.Query.from_(u).select("a"))
    if name == "load":
        return call("file%d" % k)
    if name == "filter":
        return call(*[[crit], [crit, t.q == 0], [t.q2 > 1]][k])
    if name == "when":
        return call(crit, [k, "v", t.res][k])
    if name == "else_":
        return call([0, "e", t.els][k])
    if name in ("rows", "range"):
        return call(*[[an.Preceding(k + 1)], [an.Preceding(), an.Following(2)], [an.CURRENT_ROW]][k])
    return None

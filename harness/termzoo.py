"""One (or more) instance of EVERY live Term subclass, taken from the module by reflection, so that a class added later
is included (or reported as not constructible).  Used by C12, C16, C17."""
from __future__ import annotations

import pypika_tortoise as P
from pypika_tortoise import terms as T, functions as F, analytics as A, queries as Q, pseudocolumns as PC
from pypika_tortoise.enums import DatePart, Equality, Boolean, SqlTypes
from pypika_tortoise.dialects import mysql, postgresql, sqlite, mssql, oracle  # noqa: F401  (subclasses must be imported to be seen)


def subclasses(c):
    out = set()
    for s in c.__subclasses__():
        out.add(s)
        out |= subclasses(s)
    return out


def live_term_classes():
    return sorted(subclasses(T.Term), key=lambda c: (c.__module__, c.__name__))


ABSTRACT = {"Criterion", "RangeCriterion", "DistinctOptionFunction"}


def recipes(t, u=None):
    """class name -> zero-argument constructor of a fresh instance whose fields belong to table t (and u)"""
    a, b, c = (lambda: T.Field("a", table=t)), (lambda: T.Field("b", table=t)), (lambda: T.Field("c", table=t))
    R = {
        "Field": a,
        "Star": lambda: T.Star(t),
        "Index": lambda: T.Index("ix"),
        "ValueWrapper": lambda: T.ValueWrapper(5),
        "MySQLValueWrapper": lambda: mysql.MySQLValueWrapper("v"),
        "SQLLiteValueWrapper": lambda: sqlite.SQLLiteValueWrapper(True),
        "NullValue": lambda: T.NullValue(),
        "SystemTimeValue": lambda: T.SystemTimeValue(),
        "LiteralValue": lambda: T.LiteralValue("CURRENT_DATE"),
        "JSON": lambda: T.JSON({"k": 1}),
        "Values": lambda: T.Values(a()),
        "Parameter": lambda: T.Parameter("?"),
        "PseudoColumn": lambda: T.PseudoColumn("ROWNUM"),
        "Negative": lambda: T.Negative(a()),
        "ArithmeticExpression": lambda: a() + b(),
        "Mod": lambda: T.Mod(a(), 3),
        "Pow": lambda: T.Pow(a(), 2),
        "BasicCriterion": lambda: a() == b(),
        "NestedCriterion": lambda: T.NestedCriterion(Equality.eq, Boolean.and_, a(), b(), c()),
        "ComplexCriterion": lambda: (a() == 1) & (b() == 2),
        "Not": lambda: T.Not(a() == 1),
        "All": lambda: T.All(a()),
        "NullCriterion": lambda: a().isnull(),
        "ContainsCriterion": lambda: a().isin([b(), 1]),
        "BetweenCriterion": lambda: a().between(b(), c()),
        "PeriodCriterion": lambda: a().from_to(b(), c()),
        "BitwiseAndCriterion": lambda: a().bitwiseand(4),
        "Case": lambda: P.Case().when(a() == 1, b()).else_(c()),
        "Function": lambda: T.Function("fx", a(), b()),
        "AggregateFunction": lambda: T.AggregateFunction("agg", a()).filter(b() == 1),
        "AnalyticFunction": lambda: T.AnalyticFunction("ana", a()).over(b()).orderby(c()),
        "WindowFrameAnalyticFunction": lambda: T.WindowFrameAnalyticFunction("wfa", a()).over(b()).rows(A.Preceding(1)),
        "IgnoreNullsAnalyticFunction": lambda: T.IgnoreNullsAnalyticFunction("ina", a()).over(b()).ignore_nulls(),
        "Tuple": lambda: T.Tuple(a(), 1),
        "Array": lambda: T.Array(a(), 1),
        "Bracket": lambda: T.Bracket(a()),
        "AtTimezone": lambda: T.AtTimezone(a(), "UTC"),
        "Rollup": lambda: T.Rollup(a(), b()),
        "Cast": lambda: F.Cast(a(), SqlTypes.INTEGER),
        "Signed": lambda: F.Signed(a()),
        "Unsigned": lambda: F.Unsigned(a()),
        "Convert": lambda: F.Convert(a(), SqlTypes.VARCHAR),
        "Extract": lambda: F.Extract(DatePart.year, a()),
        "ApproximatePercentile": lambda: F.ApproximatePercentile(a(), 0.5),
        "DateAdd": lambda: F.DateAdd("day", 1, a()),
        "TimestampAdd": lambda: F.TimestampAdd("day", 1, a()),
        "DateDiff": lambda: F.DateDiff("day", a(), b()),
        "TimeDiff": lambda: F.TimeDiff(a(), b()),
        "Substring": lambda: F.Substring(a(), 1, 2),
        "SplitPart": lambda: F.SplitPart(a(), ",", 1),
        "Insert": lambda: F.Insert(a(), 1, 2, "x"),
        "RegexpMatches": lambda: F.RegexpMatches(a(), "p"),
        "RegexpLike": lambda: F.RegexpLike(a(), "p"),
        "ToChar": lambda: F.ToChar(a(), "YYYY"),
        "ToDate": lambda: F.ToDate(a(), "YYYY"),
        "Concat": lambda: F.Concat(a(), b()),
        "Coalesce": lambda: F.Coalesce(a(), b()),
        "NullIf": lambda: F.NullIf(a(), b()),
        "IfNull": lambda: F.IfNull(a(), b()),
        "NVL": lambda: F.NVL(a(), b()),
        "NTile": lambda: A.NTile(4).over(a()),
        "Lag": lambda: A.Lag(a(), 1).over(b()),
        "Lead": lambda: A.Lead(a(), 1).over(b()),
        "Rank": lambda: A.Rank().over(a()),
        "DenseRank": lambda: A.DenseRank().over(a()),
        "RowNumber": lambda: A.RowNumber().over(a()),
        "QueryBuilder": lambda: P.Query.from_(t).select(a()).where(b() == 1),
        "MySQLQueryBuilder": lambda: mysql.MySQLQuery.from_(t).select(a()),
        "PostgreSQLQueryBuilder": lambda: postgresql.PostgreSQLQuery.from_(t).select(a()),
        "SQLLiteQueryBuilder": lambda: sqlite.SQLLiteQuery.from_(t).select(a()),
        "MSSQLQueryBuilder": lambda: mssql.MSSQLQuery.from_(t).select(a()),
        "OracleQueryBuilder": lambda: oracle.OracleQuery.from_(t).select(a()),
        "_SetOperation": lambda: P.Query.from_(t).select(a()).union(P.Query.from_(t).select(b())),
    }
    return R


def make(cls, t):
    """a fresh instance of cls over table t, or None"""
    R = recipes(t)
    if cls.__name__ in R and (cls.__module__.endswith("terms") or cls.__name__ not in ("Sum", "Avg", "Min", "Max", "Count", "StdDev")):
        try:
            x = R[cls.__name__]()
            if type(x) is cls or cls.__name__ in ("QueryBuilder", "ArithmeticExpression", "BasicCriterion", "ComplexCriterion", "NullCriterion",
                                                  "ContainsCriterion", "BetweenCriterion", "PeriodCriterion", "BitwiseAndCriterion"):
                return x
        except Exception:
            pass
    a, b = T.Field("a", table=t), T.Field("b", table=t)
    for args in ((), (a,), (a, b), (a, 1), (a, b, 1)):
        try:
            x = cls(*args)
        except Exception:
            continue
        if isinstance(x, T.AnalyticFunction) and cls.__module__.endswith("analytics"):
            try:
                x = x.over(b)
            except Exception:
                pass
        return x
    return None


def zoo(t):
    """[(class, instance)] for every live Term subclass that can be constructed; plus the list of those that cannot"""
    out, missing = [], []
    for cls in live_term_classes():
        if cls.__name__ in ABSTRACT:
            continue
        x = make(cls, t)
        if x is None:
            missing.append(cls.__module__.split(".")[-1] + "." + cls.__name__)
        else:
            out.append((cls, x))
    return out, missing


def boundary(t):
    """class name -> constructors of boundary instances (empty containers, empty / zero / None constants, no arguments, no ELSE)"""
    a = lambda: T.Field("a", table=t)  # noqa
    return {
        "Array": [lambda: T.Array()], "Tuple": [lambda: T.Tuple()], "JSON": [lambda: T.JSON({}), lambda: T.JSON([]), lambda: T.JSON("")],
        "ValueWrapper": [lambda: T.ValueWrapper(""), lambda: T.ValueWrapper(None), lambda: T.ValueWrapper(0), lambda: T.ValueWrapper(False)],
        "Function": [lambda: T.Function("NOW"), lambda: T.Function("fx", a(), schema=Q.Schema("sch")), lambda: T.Function("gx", schema=Q.Schema("in", parent=Q.Schema("out")))],
        "AggregateFunction": [lambda: T.AggregateFunction("agx", a(), schema=Q.Schema("sch"))], "Case": [lambda: P.Case().when(a() == 1, 2)], "Coalesce": [lambda: F.Coalesce(a())],
        "Concat": [lambda: F.Concat(a())], "LiteralValue": [lambda: T.LiteralValue("")], "Field": [lambda: T.Field("a")],
    }
